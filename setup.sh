#!/bin/sh
# Build the framework from files on disk only (offline). Run once after a fresh restore.
set -e
cd "$(dirname "$0")"
mkdir -p build out evidence
python3 -c "import sys; sys.path.insert(0,'gen'); import gen_all; gen_all.generate('/repo','lean/Ivy/Generated')"
cd lean
lake build Ivy ivyreplay
