#!/usr/bin/env python3
"""developer aid: run an enumerated loop-scenario family (vlib.loopgen.<fn>) on the tree named by IVY_REPO and print, per case, the
monitor verdicts / divergence / sanitizer line.   usage: IVY_REPO=<tree> ./tools_try.py <fn> [substring]"""
import sys, concurrent.futures
from vlib import common, l1, loopgen
fn = getattr(loopgen, sys.argv[1])
try:
    cases = fn()
except TypeError:
    cases = fn(1)
if len(sys.argv) > 2:
    cases = [c for c in cases if sys.argv[2] in c[0]]
common.proof_phase("C07")
l1.build()
with concurrent.futures.ThreadPoolExecutor(12) as ex:
    for r in ex.map(lambda c: l1.run_case(*c), cases):
        d = l1.diverging(r)
        print(r.name, "MON", r.mon or "-", "| DIV", (d or "-")[:150], "| end", r.end)
