/*
 * T-sched extension for C09 (iv_event_raw): white-box observation of the raw event descriptors and the
 * poster contexts the core engine does not have.
 *
 * Library references to iv_fd_register / iv_fd_unregister / pipe are redirected here (extra wraps), which
 * is how the extension learns which descriptors back which `obj raw r<i>` (the core keeps its table
 * private).  Nothing in the library is changed except that the registered in-handler of a raw object's
 * read descriptor is routed through `tramp`, which logs the kernel object's content immediately before the
 * library's own drain (`iv_event_raw_got_event`) and the end of the dispatch, and that the object's user
 * handler is entered through `htramp`, which is a scheduling point (so other threads and signal handlers can run
 * between the drain and the handler).
 *
 *   records
 *     RAWFD r1 kind=eventfd|pipe rfd= wfd= pre_nonblock=0|1 cap=   at iv_fd_register time (flags as created)
 *     RAWFLAGS r1 kind= rfd= wfd= r_nonblock= r_cloexec= w_nonblock= w_cloexec= cap= obj_wfd_ok=   (`rawflags r1`)
 *     RAWUNREG r1                                                at iv_fd_unregister time
 *     WRITE r1 fd= nonblock=0|1 ret=<n> errno=<name> [stale] [injected]   every write on a raw write descriptor
 *     BLOCKED-WRITE r1                                           a write on a blocking descriptor that would block: run ends
 *     BLOCKED-READ r1                                            a drain of an empty blocking descriptor: run ends
 *     DISP r1 avail=<n> / DISPEND r1                             dispatch of the read descriptor; avail = eventfd counter / pipe bytes
 *     SPUR r1                                                    simulated spurious readiness (`rawspur r1`): dispatch without readiness
 *     RAWPOST r1 owner=T<k> n=<n> ctx=child / RAWPOSTED r1       `childpost r1 [n]`
 *     SIGH <signum> / SIGHEND <signum>                           scenario-defined signal handler body
 *   actions
 *     rawflags r1            log the fcntl flags of both ends
 *     rawspur r1             owner only, outside a dispatch of r1: call the registered in-handler although nothing is readable
 *     childpost r1 [n]       stand-in for a forked child: a byte copy of the struct and a dup() of the write descriptor
 *                            (what fork gives the child: same open file description), iv_event_raw_post on the copy, close
 *     sighandler <signum> : a1 , a2 , ...    install (mt_sigaction) a handler that runs the actions (`,` separates them);
 *                            `deliver <signum> T<k>` (mt_proc.c) then runs it inside thread k at its next scheduling point
 *   cfg
 *     eintr=<hexmask>        the k-th write on a raw descriptor (k mod 32) fails with EINTR without writing when bit k is set
 *     pipesz=<bytes>         capacity given to pipes created by the library (F_SETPIPE_SZ)
 */
#include "mt_core.h"
#include <sys/ioctl.h>

#define MAXENT 256
struct ent {
	int used, reg, id, owner;
	struct iv_event_raw *obj;
	int rfd, wfd, ispipe;
	void (*orig)(void *);
	int indisp, hold;
};
static struct ent EN[MAXENT];
static int lastpipe[MT_MAXT][2];
static unsigned eintr_mask;
static unsigned long nwrites;
static int cfg_pipesz;

struct cfd { int fd; struct ent *e; };
static struct cfd CF[64];

static char *SH[MT_MAXSIG];

static struct ent *ent_by_obj(const void *o, int regonly)
{
	int i;
	for (i = MAXENT - 1; i >= 0; i--)
		if (EN[i].used && EN[i].obj == o && (!regonly || EN[i].reg))
			return &EN[i];
	return NULL;
}

static struct ent *ent_by_id(int id)
{
	int i;
	for (i = 0; i < MAXENT; i++)
		if (EN[i].used && EN[i].reg && EN[i].id == id)
			return &EN[i];
	return NULL;
}

static long long avail(struct ent *e)
{
	if (e->ispipe) {
		int n = 0;
		if (ioctl(e->rfd, FIONREAD, &n) < 0)
			return -1;
		return n;
	} else {
		char path[64], buf[512], *p;
		int fd, n;
		snprintf(path, sizeof(path), "/proc/self/fdinfo/%d", e->rfd);
		fd = open(path, O_RDONLY);
		if (fd < 0)
			return -1;
		n = read(fd, buf, sizeof(buf) - 1);
		close(fd);
		if (n <= 0)
			return -1;
		buf[n] = 0;
		p = strstr(buf, "eventfd-count:");
		if (p == NULL)
			return -1;
		return strtoll(p + 14, NULL, 16);
	}
}

/* the user handler is entered through this: a scheduling point (other threads, signal delivery) between the
   library's drain and the handler call, the window the "no lost post" argument is about */
static void (*OH[MT_MAXO])(void *);
static void htramp(void *cookie)
{
	long id = (long)cookie - 0x50000;
	mt_yield();
	OH[id](cookie);
}

static void tramp(void *cookie)
{
	struct ent *e = ent_by_obj(cookie, 1);
	int id;
	if (e == NULL) {
		mt_log("DISP-UNKNOWN\n");
		mt_finish("FIN");
	}
	id = e->id;
	{
		long long av = avail(e);
		mt_log("DISP r%d avail=%lld\n", id, av);
		if (av == 0 && !(fcntl(e->rfd, F_GETFL) & O_NONBLOCK)) {
			/* the library's read would block the owner for ever (and this process with it) */
			mt_log("BLOCKED-READ r%d\n", id);
			mt_finish("FIN");
		}
	}
	e->indisp++;
	e->hold++;
	e->orig(cookie);
	e->indisp--;
	e->hold--;
	mt_log("DISPEND r%d\n", id);
	if (!e->reg && !e->hold)
		e->used = 0;
}

/* the library's close() calls: a scheduling point (another thread may be handed the same descriptor number right after), and a close of a
 * number that is not open is logged: the library closed something it does not own (e.g. the same descriptor twice) */
int __wrap_close(int fd)
{
	int r;
	mt_yield();
	r = close(fd);
	if (r < 0 && errno == EBADF)
		mt_log("CLOSE-EBADF fd=%d\n", fd);
	return r;
}

int __wrap_pipe(int fd[2])
{
	int r = pipe(fd);
	if (r == 0) {
		lastpipe[mt_me()][0] = fd[0];
		lastpipe[mt_me()][1] = fd[1];
		if (cfg_pipesz > 0)
			fcntl(fd[1], F_SETPIPE_SZ, cfg_pipesz);
	}
	return r;
}

void __wrap_iv_fd_register(struct iv_fd *fd)
{
	struct iv_event_raw *r = fd->cookie;
	long id;
	int i;

	/* a raw event's read descriptor: the cookie points at the structure that contains this iv_fd */
	if (r == NULL || (void *)&r->event_rfd != (void *)fd) {
		iv_fd_register(fd);
		return;
	}
	id = (long)r->cookie - 0x50000;
	if (id < 0 || id >= MT_MAXO) {	/* a raw event internal to the library (iv_event, iv_signal, ...) */
		iv_fd_register(fd);
		return;
	}
	for (i = 0; i < MAXENT; i++)
		if (!EN[i].used)
			break;
	if (i == MAXENT)
		mt_finish("HARNESS-ERROR raw entries");
	memset(&EN[i], 0, sizeof(EN[i]));
	EN[i].used = 1;
	EN[i].reg = 1;
	EN[i].id = (int)id;
	EN[i].owner = mt_me();
	EN[i].obj = r;
	EN[i].rfd = fd->fd;
	if (fd->fd == lastpipe[mt_me()][0] && fd->fd >= 0) {
		EN[i].ispipe = 1;
		EN[i].wfd = lastpipe[mt_me()][1];
		lastpipe[mt_me()][0] = lastpipe[mt_me()][1] = -1;
	} else {
		EN[i].wfd = fd->fd;
	}
	mt_log("RAWFD r%d kind=%s rfd=%d wfd=%d pre_nonblock=%d cap=%d\n", (int)id, EN[i].ispipe ? "pipe" : "eventfd", EN[i].rfd, EN[i].wfd,
	       !!(fcntl(fd->fd, F_GETFL) & O_NONBLOCK), EN[i].ispipe ? fcntl(EN[i].wfd, F_GETPIPE_SZ) : 0);
	if (r->handler != htramp && r->handler != NULL) {
		OH[id] = r->handler;
		r->handler = htramp;
	}
	EN[i].orig = fd->handler_in;
	if (fd->handler_in != NULL)
		fd->handler_in = tramp;
	iv_fd_register(fd);
}

void __wrap_iv_fd_unregister(struct iv_fd *fd)
{
	struct iv_event_raw *r = fd->cookie;
	if (r != NULL && (void *)&r->event_rfd == (void *)fd) {
		struct ent *e = ent_by_obj(r, 1);
		if (e != NULL) {
			mt_log("RAWUNREG r%d\n", e->id);
			e->reg = 0;
			if (!e->hold)
				e->used = 0;
		}
	}
	iv_fd_unregister(fd);
}

static const char *ename(int e)
{
	static char b[16];
	switch (e) {
	case 0: return "0";
	case EAGAIN: return "EAGAIN";
	case EINTR: return "EINTR";
	case EPIPE: return "EPIPE";
	case EBADF: return "EBADF";
	case EINVAL: return "EINVAL";
	}
	snprintf(b, sizeof(b), "E%d", e);
	return b;
}

static ssize_t r_write_hook(int fd, const void *buf, size_t n, int *handled)
{
	struct ent *e = NULL;
	int i, stale = 0, nb, err;
	ssize_t r;

	for (i = 0; i < 64; i++)
		if (CF[i].e != NULL && CF[i].fd == fd) {
			e = CF[i].e;
			stale = !e->reg;
		}
	for (i = 0; i < MAXENT && e == NULL; i++)
		if (EN[i].used && EN[i].reg && EN[i].wfd == fd)
			e = &EN[i];
	if (e == NULL)
		return 0;
	*handled = 1;
	err = errno;
	nb = !!(fcntl(fd, F_GETFL) & O_NONBLOCK);
	errno = err;
	if (eintr_mask & (1u << (nwrites++ % 32))) {
		mt_log("WRITE r%d fd=%d nonblock=%d ret=-1 errno=EINTR%s injected\n", e->id, fd, nb, stale ? " stale" : "");
		errno = EINTR;
		return -1;
	}
	if (!nb) {
		struct pollfd p = { fd, POLLOUT, 0 };
		if (poll(&p, 1, 0) == 0) {
			mt_log("WRITE r%d fd=%d nonblock=0 ret=BLOCKS errno=0\n", e->id, fd);
			mt_log("BLOCKED-WRITE r%d\n", e->id);
			mt_finish("FIN");
		}
	}
	{
		int before = errno;	/* a system call that succeeds leaves errno as it was */
		r = write(fd, buf, n);
		err = r < 0 ? errno : 0;
		mt_log("WRITE r%d fd=%d nonblock=%d ret=%ld errno=%s%s\n", e->id, fd, nb, (long)r, ename(err), stale ? " stale" : "");
		mt_activity();
		errno = r < 0 ? err : before;
	}
	return r;
}

static void sigh(int s)
{
	mt_log("SIGH %d\n", s);
	if (s >= 0 && s < MT_MAXSIG && SH[s] != NULL)
		mt_run_actions(SH[s]);
	mt_log("SIGHEND %d\n", s);
}

static int r_action(char *op, int guard, char *a1, char *a2, char *rest)
{
	(void)guard;
	if (!strcmp(op, "rawflags")) {
		struct ent *e = ent_by_id(mt_objnum(a1, 'r'));
		int cap = -1;
		if (e == NULL) return 1;
		if (e->ispipe) cap = fcntl(e->wfd, F_GETPIPE_SZ);
		mt_log("RAWFLAGS r%d kind=%s rfd=%d wfd=%d r_nonblock=%d r_cloexec=%d w_nonblock=%d w_cloexec=%d cap=%d obj_wfd_ok=%d\n",
		       e->id, e->ispipe ? "pipe" : "eventfd", e->rfd, e->wfd,
		       !!(fcntl(e->rfd, F_GETFL) & O_NONBLOCK), !!(fcntl(e->rfd, F_GETFD) & FD_CLOEXEC),
		       !!(fcntl(e->wfd, F_GETFL) & O_NONBLOCK), !!(fcntl(e->wfd, F_GETFD) & FD_CLOEXEC), cap,
		       e->obj->event_wfd == e->wfd && e->obj->event_rfd.fd == e->rfd);
		return 1;
	}
	if (!strcmp(op, "rawspur")) {
		struct ent *e = ent_by_id(mt_objnum(a1, 'r'));
		int j;
		if (e == NULL || e->owner != mt_me() || e->indisp || e->obj->event_rfd.handler_in == NULL) return 1;
		/* also not while a dispatch of an EARLIER registration of the same object is still on this thread's stack (the object was
		 * unregistered and registered again inside its own handler): the loop never re-enters a handler that has not returned */
		for (j = 0; j < MAXENT; j++)
			if (EN[j].used && EN[j].id == e->id && EN[j].indisp) return 1;
		mt_log("SPUR r%d\n", e->id);
		e->obj->event_rfd.handler_in(e->obj->event_rfd.cookie);
		return 1;
	}
	if (!strcmp(op, "childpost")) {
		struct ent *e = ent_by_id(mt_objnum(a1, 'r'));
		int n = a2 ? atoi(a2) : 1, i, d;
		struct iv_event_raw copy;
		if (e == NULL) return 1;
		for (i = 0; i < 64; i++)
			if (CF[i].e == NULL)
				break;
		if (i == 64) return 1;
		d = dup(e->wfd);
		if (d < 0) return 1;
		memcpy(&copy, e->obj, sizeof(copy));	/* the child's copy of the parent's memory */
		copy.event_wfd = d;			/* ... and of its descriptor table: same open file description */
		CF[i].fd = d;
		CF[i].e = e;
		e->hold++;				/* keep the entry alive while the child uses it */
		mt_log("RAWPOST r%d owner=T%d n=%d ctx=child\n", e->id, e->owner, n);
		while (n-- > 0) {
			errno = EINTR;	/* errno holds whatever an earlier call left there */
			iv_event_raw_post(&copy);
		}
		mt_log("RAWPOSTED r%d\n", e->id);
		e->hold--;
		if (!e->reg && !e->hold)
			e->used = 0;
		CF[i].e = NULL;
		close(d);
		return 1;
	}
	if (!strcmp(op, "sighandler")) {
		int s = a1 ? atoi(a1) : 0;
		struct sigaction sa;
		char buf[1024], *p;
		if (s <= 0 || s >= MT_MAXSIG) return 1;
		snprintf(buf, sizeof(buf), "%s", rest ? rest : "");
		(void)a2;	/* the ':' */
		for (p = buf; *p; p++)
			if (*p == ',')
				*p = ';';
		free(SH[s]);
		SH[s] = strdup(buf);
		memset(&sa, 0, sizeof(sa));
		sa.sa_handler = sigh;
		sigfillset(&sa.sa_mask);	/* this application's handlers run with every signal blocked */
		mt_sigaction(s, &sa, NULL);
		return 1;
	}
	return 0;
}

static int r_cfg(const char *tok)
{
	if (!strncmp(tok, "eintr=", 6)) { eintr_mask = (unsigned)strtoul(tok + 6, NULL, 16); return 1; }
	if (!strncmp(tok, "pipesz=", 7)) { cfg_pipesz = atoi(tok + 7); return 1; }
	return 0;
}

static void r_init(void)
{
	int i;
	for (i = 0; i < MT_MAXT; i++)
		lastpipe[i][0] = lastpipe[i][1] = -1;
}

static void r_at_end(void)
{
	/* ground truth at the end of the run: what is still sitting in each registered descriptor */
	int i;
	for (i = 0; i < MAXENT; i++)
		if (EN[i].used && EN[i].reg)
			printf("T%d RAW-END r%d owner=T%d avail=%lld\n", mt_me(), EN[i].id, EN[i].owner, avail(&EN[i]));
}

static struct mt_ext raw_ext = {
	.name = "raw",
	.init = r_init,
	.cfg = r_cfg,
	.action = r_action,
	.write_hook = r_write_hook,
	.at_end = r_at_end,
};

static void reg(void) __attribute__((constructor));
static void reg(void) { mt_register_ext(&raw_ext); }
