/*
 * T-sched extension: virtual signals and virtual child processes, plus the scenario objects built on
 * them: iv_signal interests (`obj sig`) and iv_wait interests (`obj wait`).
 *
 * Library references to sigaction/getpid/fork/wait4/kill are redirected here.  A "child process" is an
 * entry in a table; the scenario decides when it stops, continues, exits or is killed; each state
 * change queues a status and sends a (virtual) SIGCHLD.  wait4(-1, WNOHANG) hands the queued statuses
 * out in order.  kill() on a pid whose termination has been reaped is logged as KILL-AFTER-REAP.
 *
 *   obj sig s0 <signum> [excl] [this]          iv_signal interest (owner = declaring thread)
 *   sigreg s0 / sigunreg s0 [free]
 *   deliver <signum> [T<k>]                    the environment sends a signal (to thread k / to any thread)
 *   obj wait w0                                iv_wait interest (owner = declaring thread)
 *   wspawn w0                                  iv_wait_interest_register_spawn: forks virtual child, pid recorded
 *   stranger c<N>                              a child nobody has an interest in (c<N> names it)
 *   wreg w0 c<N>                               iv_wait_interest_register for the pid of child c<N>
 *   wunreg w0 [free] / wkill w0 <sig>
 *   child <w0|c<N>> exit <code> | killed <sig> | stop | cont     the child changes state (status queued, SIGCHLD sent)
 *   cfg pidreuse                               a reaped pid is handed to the next fork
 *   cfg termpolicy=exit|ignore                 what children do when sent SIGTERM by kill()
 */
#include "mt_core.h"
#include <iv_signal.h>
#include <iv_wait.h>
#include <sys/wait.h>
#include <sys/resource.h>

/* ------------------------------------------------------------------ virtual children */
#define MAXCH 64
struct child { int used; int pid; int alive; int reaped; int stopped; };
static struct child CH[MAXCH];
struct qstat { int pid; int status; };
static struct qstat Q[1024];
static int qh, qt;
static int next_pid = 5000;
static int cfg_pidreuse, free_pid = -1;
static int term_policy = 1;	/* 1 = exit on SIGTERM, 0 = ignore */
static int vpid = 1;

static struct child *child_by_pid(int pid)
{
	int i;
	for (i = 0; i < MAXCH; i++)
		if (CH[i].used && CH[i].pid == pid && !CH[i].reaped)
			return &CH[i];
	return NULL;
}

static int alloc_child(int slot)
{
	int i = slot;
	if (i < 0)
		for (i = MAXCH - 1; i >= 32; i--)	/* anonymous children (spawned by the library) use the upper half */
			if (!CH[i].used)
				break;
	if (i < 0 || i >= MAXCH)
		mt_finish("HARNESS-ERROR children");
	memset(&CH[i], 0, sizeof(CH[i]));
	CH[i].used = 1;
	CH[i].alive = 1;
	if (cfg_pidreuse && free_pid > 0) {
		CH[i].pid = free_pid;
		free_pid = -1;
	} else {
		CH[i].pid = next_pid++;
	}
	return i;
}

static void queue_status(struct child *c, int status)
{
	Q[qt % 1024].pid = c->pid;
	Q[qt % 1024].status = status;
	qt++;
	if (WIFEXITED(status) || WIFSIGNALED(status))
		c->alive = 0;
	printf("T%d CHILD pid=%d status=0x%x %s\n", mt_me(), c->pid, status,
	       WIFEXITED(status) ? "exited" : WIFSIGNALED(status) ? "killed" : WIFSTOPPED(status) ? "stopped" : "continued");
	mt_send_signal(SIGCHLD, -1);
}

pid_t __wrap_getpid(void) { return vpid; }

int __wrap_sigaction(int signum, const struct sigaction *sa, struct sigaction *old)
{
	return mt_sigaction(signum, sa, old);
}

static int last_forked_slot = -1;
int mt_fork_fail_next;	/* set by an extension: the next fork() of the library fails with EAGAIN */
int mt_spawn_fate_next = -1;	/* set by an extension: wait status the next forked child reports before fork() returns to the parent */
static int spawn_fate = -1;	/* `wspawn w0 exit N|killed N|stop`: status the next forked child reports at once */

pid_t __wrap_fork(void)
{
	int i;
	if (mt_fork_fail_next) {
		mt_fork_fail_next = 0;
		mt_log("FORK failed\n");
		errno = EAGAIN;
		return -1;
	}
	i = alloc_child(-1);
	last_forked_slot = i;
	mt_log("FORK pid=%d\n", CH[i].pid);
	if (spawn_fate < 0 && mt_spawn_fate_next >= 0) {
		spawn_fate = mt_spawn_fate_next;
		mt_spawn_fate_next = -1;
	}
	if (spawn_fate >= 0) {	/* C11: the child changes state before fork() has even returned to the parent */
		int st = spawn_fate;
		spawn_fate = -1;
		if (WIFSTOPPED(st)) CH[i].stopped = 1;
		queue_status(&CH[i], st);
	}
	return CH[i].pid;
}

pid_t __wrap_wait4(pid_t pid, int *status, int options, struct rusage *ru)
{
	(void)pid; (void)options;
	if (ru != NULL)
		memset(ru, 0, sizeof(*ru));
	if (qh == qt) {
		int i, any = 0;
		for (i = 0; i < MAXCH; i++)
			if (CH[i].used && !CH[i].reaped)
				any = 1;
		mt_log("WAIT4 none\n");
		if (!any) { errno = ECHILD; return -1; }
		return 0;
	}
	{
		struct qstat q = Q[qh % 1024];
		struct child *c = child_by_pid(q.pid);
		qh++;
		*status = q.status;
		mt_log("REAP pid=%d status=0x%x\n", q.pid, q.status);
		if (c != NULL && (WIFEXITED(q.status) || WIFSIGNALED(q.status))) {
			c->reaped = 1;
			if (cfg_pidreuse)
				free_pid = q.pid;
		}
		return q.pid;
	}
}

int __wrap_kill(pid_t pid, int sig)
{
	struct child *c = child_by_pid(pid);
	if (c == NULL) {
		mt_log("KILL-AFTER-REAP pid=%d sig=%d\n", pid, sig);
		errno = ESRCH;
		return -1;
	}
	mt_log("KILL pid=%d sig=%d alive=%d\n", pid, sig, c->alive);
	if (c->alive) {
		if (sig == SIGKILL)
			queue_status(c, SIGKILL);		/* WIFSIGNALED */
		else if (sig == SIGTERM && term_policy)
			queue_status(c, SIGTERM);
	}
	return 0;
}

/* ------------------------------------------------------------------ iv_signal / iv_wait objects */
struct sgo { struct iv_signal *o; int exists; int isreg; int owner; };
struct wto { struct iv_wait_interest *o; int exists; int isreg; int owner; int child; };
static struct sgo S[MT_MAXO];
static struct wto W[MT_MAXO];

static void h_sig(void *c)
{
	int i = (int)((long)c - 0x60000);
	mt_log("CB s%d owner=T%d\n", i, S[i].owner);
	mt_react("s", i);
	mt_log("END\n");
}

static void h_wait(void *c, int status, const struct rusage *ru)
{
	int i = (int)((long)c - 0x70000);
	(void)ru;
	mt_log("CB w%d owner=T%d pid=%d status=0x%x\n", i, W[i].owner, W[i].o->pid, status);
	mt_react("w", i);
	mt_log("END\n");
}

static void spawn_fn(void *cookie) { (void)cookie; }

/* for white-box extensions (mt_wait.c): the iv_wait_interest behind `obj wait w<i>` */
struct iv_wait_interest *mt_proc_wait_obj(int i);
struct iv_wait_interest *mt_proc_wait_obj(int i)
{
	return (i >= 0 && i < MT_MAXO && W[i].exists == 1) ? W[i].o : NULL;
}

static int p_declare(char *kind, char *name, char *rest, int owner)
{
	int i = atoi(name + 1) % MT_MAXO;
	if (!strcmp(kind, "sig")) {
		char *save = NULL, *tok;
		S[i].exists = 1; S[i].owner = owner; S[i].isreg = 0;
		S[i].o = calloc(1, sizeof(struct iv_signal));
		IV_SIGNAL_INIT(S[i].o);
		S[i].o->cookie = (void *)(long)(0x60000 + i);
		S[i].o->handler = h_sig;
		tok = strtok_r(rest, " \t\n", &save);
		S[i].o->signum = tok ? atoi(tok) : SIGUSR1;
		while ((tok = strtok_r(NULL, " \t\n", &save)) != NULL) {
			if (!strcmp(tok, "excl")) S[i].o->flags |= IV_SIGNAL_FLAG_EXCLUSIVE;
			if (!strcmp(tok, "this")) S[i].o->flags |= IV_SIGNAL_FLAG_THIS_THREAD;
		}
		return 1;
	}
	if (!strcmp(kind, "wait")) {
		W[i].exists = 1; W[i].owner = owner; W[i].isreg = 0; W[i].child = -1;
		W[i].o = calloc(1, sizeof(struct iv_wait_interest));
		IV_WAIT_INTEREST_INIT(W[i].o);
		W[i].o->cookie = (void *)(long)(0x70000 + i);
		W[i].o->handler = h_wait;
		return 1;
	}
	return 0;
}

static struct child *child_ref(const char *ref)
{
	if (ref == NULL)
		return NULL;
	if (ref[0] == 'w') {
		int i = atoi(ref + 1) % MT_MAXO;
		if (W[i].child < 0) return NULL;
		return &CH[W[i].child];
	}
	if (ref[0] == 'c') {
		int i = atoi(ref + 1) % 32;
		return CH[i].used ? &CH[i] : NULL;
	}
	if (ref[0] == 'p')	/* p<pid>: a child spawned by the library on behalf of an extension's object */
		return child_by_pid(atoi(ref + 1));
	return NULL;
}

static int p_action(char *op, int guard, char *a1, char *a2, char *rest)
{
	int i;
	(void)guard;
	if (!strcmp(op, "procfork")) {
		/* the whole program fork()s and the scenario goes on in the CHILD: getpid() answers differently from now on (what the
		 * parent had registered with iv_signal is inherited and must be reset by the first registration in the child) */
		vpid = a1 ? atoi(a1) : vpid + 1;
		mt_log("PID %d\n", vpid);
		return 1;
	}
	if (!strcmp(op, "sigreg")) {
		i = mt_objnum(a1, 's');
		if (S[i].exists != 1 || S[i].owner != mt_me() || S[i].isreg) return 1;
		mt_log("API sigRegister s%d signum=%d excl=%d this=%d\n", i, S[i].o->signum,
		       !!(S[i].o->flags & IV_SIGNAL_FLAG_EXCLUSIVE), !!(S[i].o->flags & IV_SIGNAL_FLAG_THIS_THREAD));
		S[i].isreg = (iv_signal_register(S[i].o) == 0);
		mt_log("RET %d\n", S[i].isreg ? 0 : -1);
		return 1;
	}
	if (!strcmp(op, "sigunreg")) {
		i = mt_objnum(a1, 's');
		if (S[i].exists != 1 || S[i].owner != mt_me() || !S[i].isreg) return 1;
		mt_log("API sigUnregister s%d\n", i);
		S[i].isreg = 0;
		iv_signal_unregister(S[i].o);
		mt_log("RET 0\n");
		if (a2 != NULL && !strcmp(a2, "free")) {
			struct iv_signal *n = calloc(1, sizeof(*n));
			*n = *S[i].o;
			mt_log("FREE s%d\n", i);
			free(S[i].o);
			S[i].o = n;	/* a fresh struct with the same user fields, for a later re-registration */
		}
		return 1;
	}
	if (!strcmp(op, "deliver")) {
		int signum = atoi(a1);
		int t = (a2 != NULL && a2[0] == 'T') ? atoi(a2 + 1) : -1;
		mt_send_signal(signum, t);
		return 1;
	}
	if (!strcmp(op, "wspawn")) {
		int r;
		i = mt_objnum(a1, 'w');
		if (W[i].exists != 1 || W[i].owner != mt_me() || W[i].isreg) return 1;
		mt_log("API waitSpawn w%d\n", i);
		last_forked_slot = -1;
		spawn_fate = -1;
		if (a2 != NULL) {	/* `wspawn w0 exit <code> | killed <sig> | stop` */
			char *save = NULL;
			char *arg = rest ? strtok_r(rest, " \t\n", &save) : NULL;
			if (!strcmp(a2, "exit")) spawn_fate = (arg ? atoi(arg) & 0xff : 0) << 8;
			else if (!strcmp(a2, "killed")) spawn_fate = arg ? atoi(arg) & 0x7f : SIGKILL;
			else if (!strcmp(a2, "stop")) spawn_fate = (SIGSTOP << 8) | 0x7f;
		}
		r = iv_wait_interest_register_spawn(W[i].o, spawn_fn, NULL);
		spawn_fate = -1;
		W[i].isreg = (r == 0);
		W[i].child = -1;
		if (r == 0) {
			int j;
			for (j = 0; j < MAXCH; j++)
				if (CH[j].used && !CH[j].reaped && CH[j].pid == W[i].o->pid)
					W[i].child = j;
		}
		mt_log("RET %d pid=%d\n", r ? -1 : 0, r ? -1 : W[i].o->pid);
		return 1;
	}
	if (!strcmp(op, "stranger")) {
		i = atoi(a1 + 1) % 32;
		if (CH[i].used && !CH[i].reaped) return 1;
		alloc_child(i);
		printf("T%d STRANGER c%d pid=%d\n", mt_me(), i, CH[i].pid);
		return 1;
	}
	if (!strcmp(op, "wreg")) {
		struct child *c = child_ref(a2);
		i = mt_objnum(a1, 'w');
		if (W[i].exists != 1 || W[i].owner != mt_me() || W[i].isreg || c == NULL || c->reaped) return 1;
		W[i].o->pid = c->pid;
		W[i].child = (int)(c - CH);
		mt_log("API waitRegister w%d pid=%d\n", i, c->pid);
		iv_wait_interest_register(W[i].o);
		W[i].isreg = 1;
		mt_log("RET 0\n");
		return 1;
	}
	if (!strcmp(op, "wunreg")) {
		i = mt_objnum(a1, 'w');
		if (W[i].exists != 1 || W[i].owner != mt_me() || !W[i].isreg) return 1;
		mt_log("API waitUnregister w%d\n", i);
		W[i].isreg = 0;
		iv_wait_interest_unregister(W[i].o);
		mt_log("RET 0\n");
		if (a2 != NULL && !strcmp(a2, "free")) {
			mt_log("FREE w%d\n", i);
			free(W[i].o);
			W[i].o = calloc(1, sizeof(struct iv_wait_interest));
			W[i].o->cookie = (void *)(long)(0x70000 + i);
			W[i].o->handler = h_wait;
		}
		return 1;
	}
	if (!strcmp(op, "wkill")) {
		int r;
		i = mt_objnum(a1, 'w');
		if (W[i].exists != 1 || !W[i].isreg) return 1;
		mt_log("API waitKill w%d sig=%d\n", i, a2 ? atoi(a2) : SIGTERM);
		r = iv_wait_interest_kill(W[i].o, a2 ? atoi(a2) : SIGTERM);
		mt_log("RET %d\n", r);
		return 1;
	}
	if (!strcmp(op, "child")) {
		struct child *c = child_ref(a1);
		char *save = NULL;
		char *arg = rest ? strtok_r(rest, " \t\n", &save) : NULL;
		if (c == NULL || !c->alive || a2 == NULL) return 1;
		if (!strcmp(a2, "exit")) queue_status(c, (arg ? atoi(arg) & 0xff : 0) << 8);
		else if (!strcmp(a2, "killed")) queue_status(c, arg ? atoi(arg) & 0x7f : SIGKILL);
		else if (!strcmp(a2, "stop")) { c->stopped = 1; queue_status(c, (SIGSTOP << 8) | 0x7f); }
		else if (!strcmp(a2, "cont")) { c->stopped = 0; queue_status(c, 0xffff); }
		return 1;
	}
	return 0;
}

static int p_cfg(const char *tok)
{
	if (!strcmp(tok, "pidreuse")) { cfg_pidreuse = 1; return 1; }
	if (!strcmp(tok, "termpolicy=exit")) { term_policy = 1; return 1; }
	if (!strcmp(tok, "termpolicy=ignore")) { term_policy = 0; return 1; }
	return 0;
}

static void p_at_end(void)
{
	int i, zombies = 0, sz = 0, unreaped = qt - qh;
	for (i = 0; i < MAXCH; i++)
		if (CH[i].used && !CH[i].alive && !CH[i].reaped) {
			zombies++;
			if (i < 32)	/* slots below 32 are children the application forked itself (`stranger`): reaping them after
					 * the library has no interest left is the application's business */
				sz++;
		}
	printf("T%d PROC-END zombies=%d unreaped_statuses=%d stranger_zombies=%d\n", mt_me(), zombies, unreaped, sz);
}

static struct mt_ext proc_ext = {
	.name = "proc",
	.cfg = p_cfg,
	.declare = p_declare,
	.action = p_action,
	.at_end = p_at_end,
};

static void reg(void) __attribute__((constructor));
static void reg(void) { mt_register_ext(&proc_ext); }
