/*
 * T-diff harness for the intrusive list of /repo/src/include/iv_list.h and
 * __iv_list_steal_elements of /repo/src/iv_private.h.  Reads the same op lines as the Lean
 * driver (`ivyreplay listptr`, lean/Ivy/Drv/ListPtr.lean) on stdin and prints the same result
 * lines, produced by the REAL inline functions / macros on a static array of 64
 * `struct iv_list_head` (ids 0..3 used as heads, the rest as elements; zeroed = NULL fields).
 *
 * `st[]` is the same trivial bookkeeping as in the driver (a function of the op history only),
 * used to refuse (`skip`) uses the list API does not allow:
 *   heads:    0 = uninitialised / stale, 1 = live
 *   elements: 0 = unlinked with NULL fields, 1 = self-linked, 2+h = linked in list h
 * Every traversal is bounded by the universe size, so a corrupt ring prints instead of looping.
 */
#include <stdio.h>
#include <stdlib.h>
#include <string.h>
#include <sys/time.h>
#include <unistd.h>
#include <iv_list.h>
#include "iv_private.h"

#define N	64
#define NH	4

static struct iv_list_head nodes[N];
static int st[N];

static void verif_watchdog(int cpu_s)
{
	/* nothing here ever sleeps; list code that spins is cut by the CPU-time limit (SIGPROF), which is independent of how
	 * loaded the machine is.  No wall-clock alarm. */
	struct itimerval it = { { 0, 0 }, { cpu_s, 0 } };
	setitimer(ITIMER_PROF, &it, NULL);
}

static void pr_ptr(struct iv_list_head *p)
{
	if (p == NULL)
		printf("N");
	else if (p < nodes || p >= nodes + N)
		printf("?");
	else
		printf("%d", (int)(p - nodes));
}

/* follow one field from a's neighbour until back at a (`.`), NULL (`N`) or N ids printed (`!`) */
static void follow(int a, int backward)
{
	struct iv_list_head *cur = backward ? nodes[a].prev : nodes[a].next;
	int steps;

	for (steps = 0; ; steps++) {
		if (cur == NULL) { printf("N"); return; }
		if (cur == &nodes[a]) { printf("."); return; }
		if (steps >= N) { printf("!"); return; }
		if (cur < nodes || cur >= nodes + N) { printf("?"); return; }
		printf("%d ", (int)(cur - nodes));
		cur = backward ? cur->prev : cur->next;
	}
}

static void ring(int a)
{
	printf("F ");
	follow(a, 0);
	printf(" B ");
	follow(a, 1);
}

static void fields(int a)
{
	printf("n=");
	pr_ptr(nodes[a].next);
	printf(" p=");
	pr_ptr(nodes[a].prev);
}

static int cnt(int h)
{
	int i, c = 0;
	for (i = 0; i < N; i++)
		if (st[i] == 2 + h)
			c++;
	return c;
}

static void move_all(int a, int b)
{
	int i;
	for (i = 0; i < N; i++)
		if (st[i] == 2 + a)
			st[i] = 2 + b;
}

/* parse a decimal id; -1 = not a number */
static long long num(const char *tok, int is_mask, unsigned long long *mask)
{
	char *end;
	unsigned long long v;

	if (tok == NULL || *tok == 0)
		return -1;
	for (end = (char *)tok; *end; end++)
		if (*end < '0' || *end > '9')
			return -1;
	v = strtoull(tok, &end, 10);
	if (is_mask) {
		*mask = v;
		return 0;
	}
	return (v > 1000000) ? 1000000 : (long long)v;
}

static void splice_op(const char *name, int kind, int a, int b)
{
	int nonempty, reinit = kind & 1;

	if (!(a < NH && b < NH && a != b && st[a] == 1 && st[b] == 1)) {
		printf("skip\n");
		return;
	}
	nonempty = cnt(a) > 0;
	switch (kind) {
	case 0: iv_list_splice(&nodes[a], &nodes[b]); break;
	case 1: iv_list_splice_init(&nodes[a], &nodes[b]); break;
	case 2: iv_list_splice_tail(&nodes[a], &nodes[b]); break;
	case 3: iv_list_splice_tail_init(&nodes[a], &nodes[b]); break;
	}
	move_all(a, b);
	if (nonempty && !reinit)
		st[a] = 0;
	printf("%s ", name);
	fields(a);
	printf(" ");
	ring(b);
	if (reinit) {
		printf(" | ");
		ring(a);
	}
	printf("\n");
}

int main(void)
{
	static char line[4096];

	verif_watchdog(120);
	while (fgets(line, sizeof(line), stdin) != NULL) {
		char *op = strtok(line, " \n");
		char *t1, *t2, *t3;
		long long a = -2, b = -2;
		unsigned long long mask = 0;
		int nargs = 0, bad = 0;

		if (op == NULL)
			continue;
		t1 = strtok(NULL, " \n");
		t2 = strtok(NULL, " \n");
		t3 = strtok(NULL, " \n");
		if (t1 != NULL) { nargs = 1; a = num(t1, 0, NULL); if (a < 0) bad = 1; }
		if (t2 != NULL) {
			nargs = 2;
			if (!strcmp(op, "walksafe")) { if (num(t2, 1, &mask) < 0) bad = 1; }
			else { b = num(t2, 0, NULL); if (b < 0) bad = 1; }
		}
		if (t3 != NULL)
			nargs = 3;
		if (!bad && nargs >= 1 && a >= N) bad = 1;
		if (!bad && nargs >= 2 && strcmp(op, "walksafe") && b >= N) bad = 1;
		if (bad) {
			printf("bad-op\n");
		} else if (!strcmp(op, "init") && nargs == 1) {
			int ok = (a < NH) ? (st[a] == 0 || cnt(a) == 0) : (st[a] <= 1);
			if (ok) {
				INIT_IV_LIST_HEAD(&nodes[a]);
				st[a] = 1;
				printf("init ");
				ring(a);
				printf("\n");
			} else {
				printf("skip\n");
			}
		} else if ((!strcmp(op, "add") || !strcmp(op, "addtail")) && nargs == 2) {
			if (a >= NH && b < NH && st[b] == 1 && st[a] <= 1) {
				if (!strcmp(op, "add"))
					iv_list_add(&nodes[a], &nodes[b]);
				else
					iv_list_add_tail(&nodes[a], &nodes[b]);
				st[a] = 2 + b;
				printf("%s ", op);
				ring(b);
				printf("\n");
			} else {
				printf("skip\n");
			}
		} else if ((!strcmp(op, "del") || !strcmp(op, "delinit")) && nargs == 1) {
			if (a >= NH && st[a] >= 1) {
				int o = st[a];
				if (!strcmp(op, "del")) {
					iv_list_del(&nodes[a]);
					st[a] = 0;
				} else {
					iv_list_del_init(&nodes[a]);
					st[a] = 1;
				}
				printf("%s ", op);
				fields(a);
				if (o >= 2) {
					printf(" ");
					ring(o - 2);
				}
				printf("\n");
			} else {
				printf("skip\n");
			}
		} else if (!strcmp(op, "empty") && nargs == 1) {
			printf("empty %d\n", iv_list_empty(&nodes[a]) ? 1 : 0);
		} else if (!strcmp(op, "splice") && nargs == 2) {
			splice_op(op, 0, a, b);
		} else if (!strcmp(op, "spliceinit") && nargs == 2) {
			splice_op(op, 1, a, b);
		} else if (!strcmp(op, "splicetail") && nargs == 2) {
			splice_op(op, 2, a, b);
		} else if (!strcmp(op, "splicetailinit") && nargs == 2) {
			splice_op(op, 3, a, b);
		} else if (!strcmp(op, "steal") && nargs == 2) {
			if (a < NH && b < NH && a != b && st[a] == 1 && (st[b] == 0 || cnt(b) == 0)) {
				__iv_list_steal_elements(&nodes[a], &nodes[b]);
				move_all(a, b);
				st[b] = 1;
				printf("steal ");
				ring(a);
				printf(" | ");
				ring(b);
				printf("\n");
			} else {
				printf("skip\n");
			}
		} else if (!strcmp(op, "walk") && nargs == 1) {
			if (a < NH && st[a] == 1) {
				struct iv_list_head *ilh;
				int c = 0, cut = 0;
				printf("walk");
				iv_list_for_each (ilh, &nodes[a]) {
					if (c++ > N || ilh == NULL) { cut = 1; break; }
					printf(" ");
					pr_ptr(ilh);
				}
				printf(cut ? " !\n" : " .\n");
			} else {
				printf("skip\n");
			}
		} else if (!strcmp(op, "walksafe") && nargs == 2) {
			if (a < NH && st[a] == 1) {
				struct iv_list_head *ilh, *ilh2;
				int pos = 0, cut = 0;
				printf("walksafe");
				iv_list_for_each_safe (ilh, ilh2, &nodes[a]) {
					if (pos > N || ilh < nodes || ilh >= nodes + N) { cut = 1; break; }
					printf(" ");
					pr_ptr(ilh);
					if (pos < 64 && ((mask >> pos) & 1)) {
						iv_list_del(ilh);
						st[ilh - nodes] = 0;
					}
					pos++;
				}
				printf(cut ? " ! | " : " . | ");
				ring(a);
				printf("\n");
			} else {
				printf("skip\n");
			}
		} else if (!strcmp(op, "dump") && nargs == 1) {
			printf("dump ");
			ring(a);
			printf("\n");
		} else {
			printf("bad-op\n");
		}
		fflush(stdout);
	}
	return 0;
}
