/*
 * T-diff harness for the poll/ppoll back end of /repo/src/iv_fd_poll.c, driven through the REAL
 * public API of /repo/src/iv_fd.c on real descriptors.  Reads the same op lines as the Lean driver
 * (`ivyreplay fdpoll`, lean/Ivy/Drv/FdPoll.lean) on stdin and prints the same result lines.
 *
 *   fdpoll_h poll    IV_EXCLUDE_POLL_METHOD="epoll-timerfd epoll ppoll"  -> method "poll"
 *   fdpoll_h ppoll   IV_EXCLUDE_POLL_METHOD="epoll-timerfd epoll"        -> method "ppoll"
 *
 * Linked against the library objects compiled from the current tree (vlib/common.py
 * build_wrapped); the only redirected symbol is iv_fd_make_ready as referenced by the back ends
 * (logged, then passed on to the real function), so that the calls made by
 * iv_fd_poll_activate_fds are observed directly.  White-box reads (never writes) of
 * st->u.poll.{pfds,fds,num_regd_fds} and fd->u.index / wanted_bands / registered.
 *
 * Objects 0..NOBJ-1 are `struct iv_fd`s on descriptors created once at start: even ids a
 * socketpair end (peer = other end), odd ids the read end of a pipe (peer = write end).
 *
 *   consts              CONST MASKIN=.. MASKOUT=.. MASKERR=.. POLLIN=.. POLLOUT=.. POLLERR=.. POLLHUP=.. MAXFD=..
 *   reg o | regtry o    iv_fd_register / iv_fd_register_try (skip when registered)
 *   regtrybad o         iv_fd_register_try with fd->fd temporarily a closed descriptor (must return -1)
 *   unreg o             iv_fd_unregister (skip when not registered)
 *   setin|setout|seterr o 0|1   registered: iv_fd_set_handler_*(fd, v ? h : NULL); else plain store
 *   dump
 *        -> NUM n SLOTS o:idx:events:fdok ... OBJS o:idx:wanted ...
 *           slots 0..n-1: object found by pointer in fds[i] (`?` unknown), its u.index,
 *           pfds[i].events, pfds[i].fd == fd->fd; then every registered object
 *   wr o | closepeer o  make o's descriptor readable / hung up                       -> io
 *   poll                ONE iv_fd_poll_and_run with a zero timeout
 *        -> POLL REV r0 .. r(n-1) READY o:band ... RAN o:band ...
 *           revents as left in pfds[], iv_fd_make_ready calls in order, handlers run in order
 */
#include <stdio.h>
#include <stdlib.h>
#include <string.h>
#include <unistd.h>
#include <poll.h>
#include <sys/socket.h>
#include <sys/time.h>
#include <iv.h>
#include "iv_private.h"

#define NOBJ	8
#define MAXLOG	256

static struct iv_fd obj[NOBJ];
static int peer[NOBJ];
static int badfd;
static int logging;
static int nready, nran;
static int ready_o[MAXLOG], ready_b[MAXLOG], ran_o[MAXLOG], ran_b[MAXLOG];

static void fatal_handler(const char *msg)
{
	printf("FATAL %s\n", msg);
	fflush(stdout);
	_exit(5);
}

static int id_of(struct iv_fd_ *fd)
{
	struct iv_fd *p = (struct iv_fd *)fd;

	if (p < obj || p >= obj + NOBJ)
		return -1;
	return (int)(p - obj);
}

/* every back end's reference to iv_fd_make_ready lands here (ld -r --wrap) */
void __wrap_iv_fd_make_ready(struct iv_list_head *active, struct iv_fd_ *fd, int bands)
{
	if (logging && nready < MAXLOG) {
		ready_o[nready] = id_of(fd);
		ready_b[nready] = bands;
		nready++;
	}
	iv_fd_make_ready(active, fd, bands);
}

static void ran(void *cookie, int band)
{
	if (nran < MAXLOG) {
		ran_o[nran] = (int)(long)cookie;
		ran_b[nran] = band;
		nran++;
	}
}

static void h_in(void *cookie) { ran(cookie, MASKIN); }
static void h_out(void *cookie) { ran(cookie, MASKOUT); }
static void h_err(void *cookie) { ran(cookie, MASKERR); }

static void state_line(void)
{
	struct iv_state *st = iv_get_state();
	int n = st->u.poll.num_regd_fds;
	int i;

	printf("NUM %d SLOTS", n);
	for (i = 0; i < n && i < 4 * NOBJ; i++) {
		struct iv_fd_ *fd = st->u.poll.fds[i];
		int o = id_of(fd);

		if (o < 0) {
			printf(" ?:?:%d:0", (int)st->u.poll.pfds[i].events);
			continue;
		}
		printf(" %d:%d:%d:%d", o, fd->u.index, (int)st->u.poll.pfds[i].events,
		       st->u.poll.pfds[i].fd == fd->fd);
	}
	printf(" OBJS");
	for (i = 0; i < NOBJ; i++) {
		struct iv_fd_ *fd = (struct iv_fd_ *)&obj[i];

		if (iv_fd_registered(&obj[i]))
			printf(" %d:%d:%d", i, fd->u.index, (int)fd->wanted_bands);
	}
	printf("\n");
}

static int parse_id(const char *tok)
{
	const char *p;

	if (tok == NULL || *tok == 0 || strlen(tok) > 6)
		return -1;
	for (p = tok; *p; p++)
		if (*p < '0' || *p > '9')
			return -1;
	return atoi(tok);
}

int main(int argc, char **argv)
{
	static char line[4096];
	const char *want = argc > 1 ? argv[1] : "poll";
	struct itimerval it = { { 0, 0 }, { 120, 0 } };
	int i;

	setitimer(ITIMER_PROF, &it, NULL);
	setvbuf(stdout, NULL, _IOFBF, 1 << 16);

	for (i = 0; i < NOBJ; i++) {
		int p[2];

		if (i % 2 == 0) {
			if (socketpair(AF_UNIX, SOCK_STREAM, 0, p) < 0) { perror("socketpair"); return 4; }
		} else {
			if (pipe(p) < 0) { perror("pipe"); return 4; }
		}
		IV_FD_INIT(&obj[i]);
		obj[i].fd = p[0];
		obj[i].cookie = (void *)(long)i;
		peer[i] = p[1];
	}

	if (!strcmp(want, "ppoll"))
		setenv("IV_EXCLUDE_POLL_METHOD", "epoll-timerfd epoll", 1);
	else
		setenv("IV_EXCLUDE_POLL_METHOD", "epoll-timerfd epoll ppoll", 1);
	iv_set_fatal_msg_handler(fatal_handler);
	iv_init();
	if (iv_poll_method_name() == NULL || strcmp(iv_poll_method_name(), want)) {
		printf("BADMETHOD %s\n", iv_poll_method_name() ? iv_poll_method_name() : "(null)");
		return 3;
	}
	{
		/* a descriptor number that stays closed: nothing is opened after this point */
		int p[2];
		if (pipe(p) < 0) { perror("pipe"); return 4; }
		close(p[0]);
		close(p[1]);
		badfd = p[1];
	}

	while (fgets(line, sizeof(line), stdin) != NULL) {
		char *op = strtok(line, " \n");
		char *t1, *t2, *t3;
		int o, v;

		if (op == NULL)
			continue;
		t1 = strtok(NULL, " \n");
		t2 = strtok(NULL, " \n");
		t3 = strtok(NULL, " \n");

		if (!strcmp(op, "consts") && t1 == NULL) {
			printf("CONST MASKIN=%d MASKOUT=%d MASKERR=%d POLLIN=%d POLLOUT=%d POLLERR=%d POLLHUP=%d MAXFD=%d\n",
			       MASKIN, MASKOUT, MASKERR, POLLIN, POLLOUT, POLLERR, POLLHUP, 65536);
		} else if (!strcmp(op, "dump") && t1 == NULL) {
			state_line();
		} else if (!strcmp(op, "poll") && t1 == NULL) {
			struct iv_state *st = iv_get_state();
			struct timespec zero = { 0, 0 };
			int n;

			nready = nran = 0;
			logging = 1;
			iv_fd_poll_and_run(st, &zero);
			logging = 0;
			n = st->u.poll.num_regd_fds;
			printf("POLL REV");
			for (i = 0; i < n && i < 4 * NOBJ; i++)
				printf(" %d", (int)st->u.poll.pfds[i].revents);
			printf(" READY");
			for (i = 0; i < nready; i++)
				printf(" %d:%d", ready_o[i], ready_b[i]);
			printf(" RAN");
			for (i = 0; i < nran; i++)
				printf(" %d:%d", ran_o[i], ran_b[i]);
			printf("\n");
		} else if ((o = parse_id(t1)) < 0 || o >= NOBJ) {
			printf("bad-op\n");
		} else if ((!strcmp(op, "reg") || !strcmp(op, "regtry") || !strcmp(op, "regtrybad")) && t2 == NULL) {
			if (iv_fd_registered(&obj[o])) {
				printf("skip\n");
			} else if (!strcmp(op, "reg")) {
				iv_fd_register(&obj[o]);
				state_line();
			} else if (!strcmp(op, "regtry")) {
				int ret = iv_fd_register_try(&obj[o]);
				if (ret)
					printf("RET %d ", ret);
				state_line();
			} else {
				int keep = obj[o].fd;
				int ret;

				obj[o].fd = badfd;
				ret = iv_fd_register_try(&obj[o]);
				obj[o].fd = keep;
				if (ret != -1 || iv_fd_registered(&obj[o]))
					printf("RET %d ", ret);
				state_line();
			}
		} else if (!strcmp(op, "unreg") && t2 == NULL) {
			if (!iv_fd_registered(&obj[o])) {
				printf("skip\n");
			} else {
				iv_fd_unregister(&obj[o]);
				state_line();
			}
		} else if ((!strcmp(op, "setin") || !strcmp(op, "setout") || !strcmp(op, "seterr")) &&
			   t2 != NULL && t3 == NULL && (v = parse_id(t2)) >= 0 && v <= 1) {
			int regd = iv_fd_registered(&obj[o]);

			if (!strcmp(op, "setin")) {
				if (regd) iv_fd_set_handler_in(&obj[o], v ? h_in : NULL);
				else obj[o].handler_in = v ? h_in : NULL;
			} else if (!strcmp(op, "setout")) {
				if (regd) iv_fd_set_handler_out(&obj[o], v ? h_out : NULL);
				else obj[o].handler_out = v ? h_out : NULL;
			} else {
				if (regd) iv_fd_set_handler_err(&obj[o], v ? h_err : NULL);
				else obj[o].handler_err = v ? h_err : NULL;
			}
			state_line();
		} else if (!strcmp(op, "wr") && t2 == NULL) {
			if (peer[o] >= 0) {
				ssize_t r = write(peer[o], "x", 1);
				(void)r;
			}
			printf("io\n");
		} else if (!strcmp(op, "closepeer") && t2 == NULL) {
			if (peer[o] >= 0) {
				close(peer[o]);
				peer[o] = -1;
			}
			printf("io\n");
		} else {
			printf("bad-op\n");
		}
	}
	fflush(stdout);
	return 0;
}
