/* C14 / ThreadSanitizer program 1: iv_event ping-pong between 2..4 loop threads with
 * (un)registration churn.   usage: tsan_event <seed> <threads> <ms>
 *
 * Every thread i owns
 *   ping[i]  registered for the whole run, posted by thread i-1 (ring) and by random peers;
 *   B[i]     registered for the whole run, posted in bursts by every other thread;
 *   A[i]     a private event that only its owner ever touches: on a tick the owner registers it,
 *            posts it TO ITSELF, does a little unrelated posting, and unregisters it again
 *            (sometimes before, sometimes after its handler has run).
 * All of this is valid use: A is registered, posted and unregistered by one thread; ping/B are
 * posted by peers only between the start barrier (after registration) and the stop barrier
 * (before unregistration).
 */
#include <iv.h>
#include <iv_event.h>
#include "tsan_util.h"

struct thr {
	int idx;
	pthread_t tid;
	uint64_t rng;
	struct iv_event ping, B, A;
	int a_registered;
	struct iv_timer tick, stop;
	int stopping;
	long n_ping, n_b, n_a, n_churn, n_posts;
};

static struct thr T[MAXT];
static pthread_barrier_t start_bar, stop_bar;

static void ping_handler(void *_t)
{
	struct thr *t = _t;

	t->n_ping++;
	if (!t->stopping) {
		iv_event_post(&T[(t->idx + 1) % g_nthr].ping);
		t->n_posts++;
	}
}

static void b_handler(void *_t)
{
	((struct thr *)_t)->n_b++;
}

static void a_handler(void *_t)
{
	((struct thr *)_t)->n_a++;
}

static void post_burst(struct thr *t)
{
	int k = 1 + tsu_rand(&t->rng) % 6;

	while (k--) {
		int j = tsu_rand(&t->rng) % g_nthr;

		if (j == t->idx && g_nthr > 1)
			j = (j + 1) % g_nthr;
		iv_event_post(&T[j].B);
		t->n_posts++;
	}
}

static void a_unregister(struct thr *t)
{
	if (t->a_registered) {
		iv_event_unregister(&t->A);
		t->a_registered = 0;
	}
}

static void tick_handler(void *_t)
{
	struct thr *t = _t;
	int i;

	if (t->stopping)
		return;

	for (i = 0; i < 4; i++) {
		switch (tsu_rand(&t->rng) % 5) {
		case 0:
		case 1:
			post_burst(t);
			break;
		case 2:
			/* register, post to self, unregister while still pending */
			a_unregister(t);
			IV_EVENT_INIT(&t->A);
			t->A.cookie = t;
			t->A.handler = a_handler;
			iv_event_register(&t->A);
			t->a_registered = 1;
			iv_event_post(&t->A);
			if (tsu_rand(&t->rng) & 1)
				post_burst(t);
			a_unregister(t);
			t->n_churn++;
			break;
		case 3:
			/* register and post to self; unregistered on a later tick (handler may have run) */
			a_unregister(t);
			IV_EVENT_INIT(&t->A);
			t->A.cookie = t;
			t->A.handler = a_handler;
			iv_event_register(&t->A);
			t->a_registered = 1;
			iv_event_post(&t->A);
			t->n_churn++;
			break;
		case 4:
			iv_event_post(&T[(t->idx + 1) % g_nthr].ping);
			t->n_posts++;
			break;
		}
	}

	iv_validate_now();
	t->tick.expires = iv_now;
	if (tsu_rand(&t->rng) % 4 == 0)
		t->tick.expires.tv_nsec += 50000;
	if (t->tick.expires.tv_nsec >= 1000000000) {
		t->tick.expires.tv_sec++;
		t->tick.expires.tv_nsec -= 1000000000;
	}
	iv_timer_register(&t->tick);
}

static void stop_handler(void *_t)
{
	struct thr *t = _t;

	t->stopping = 1;
	if (iv_timer_registered(&t->tick))
		iv_timer_unregister(&t->tick);

	/* after this barrier nobody posts to anybody any more */
	pthread_barrier_wait(&stop_bar);

	a_unregister(t);
	iv_event_unregister(&t->ping);
	iv_event_unregister(&t->B);
}

static void *thread_main(void *_t)
{
	struct thr *t = _t;

	if (t->idx != 0)
		iv_init();

	IV_EVENT_INIT(&t->ping);
	t->ping.cookie = t;
	t->ping.handler = ping_handler;
	iv_event_register(&t->ping);

	IV_EVENT_INIT(&t->B);
	t->B.cookie = t;
	t->B.handler = b_handler;
	iv_event_register(&t->B);

	IV_TIMER_INIT(&t->tick);
	t->tick.cookie = t;
	t->tick.handler = tick_handler;
	iv_validate_now();
	t->tick.expires = iv_now;
	iv_timer_register(&t->tick);

	IV_TIMER_INIT(&t->stop);
	t->stop.cookie = t;
	t->stop.handler = stop_handler;
	t->stop.expires = iv_now;
	t->stop.expires.tv_sec += g_dur_ms / 1000;
	t->stop.expires.tv_nsec += (g_dur_ms % 1000) * 1000000L;
	if (t->stop.expires.tv_nsec >= 1000000000) {
		t->stop.expires.tv_sec++;
		t->stop.expires.tv_nsec -= 1000000000;
	}
	iv_timer_register(&t->stop);

	/* everybody's ping and B are registered before anybody posts */
	pthread_barrier_wait(&start_bar);

	if (t->idx == 0)
		iv_event_post(&T[1 % g_nthr].ping);

	iv_main();
	iv_deinit();

	return NULL;
}

int main(int argc, char **argv)
{
	int i;
	long ping = 0, b = 0, a = 0, churn = 0, posts = 0;

	tsu_args(argc, argv, 2, 800);
	pthread_barrier_init(&start_bar, NULL, g_nthr);
	pthread_barrier_init(&stop_bar, NULL, g_nthr);

	/* the first iv_init() completes before any other thread exists */
	iv_init();

	for (i = 0; i < g_nthr; i++) {
		T[i].idx = i;
		T[i].rng = tsu_seed(i);
	}
	for (i = 1; i < g_nthr; i++)
		pthread_create(&T[i].tid, NULL, thread_main, &T[i]);
	thread_main(&T[0]);
	for (i = 1; i < g_nthr; i++)
		pthread_join(T[i].tid, NULL);

	for (i = 0; i < g_nthr; i++) {
		ping += T[i].n_ping; b += T[i].n_b; a += T[i].n_a;
		churn += T[i].n_churn; posts += T[i].n_posts;
	}
	printf("STATS prog=event threads=%d method=%s posts=%ld ping=%ld b=%ld a=%ld churn=%ld\n",
	       g_nthr, iv_poll_method_name() ? iv_poll_method_name() : "?", posts, ping, b, a, churn);

	return 0;
}
