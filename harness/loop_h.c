/*
 * T-replay harness for the per-thread loop of ivykis ("vos-lite").
 *
 * The library is compiled unmodified from /repo and partially linked with `ld -r --wrap=…`, so that
 * only the LIBRARY's references to the symbols below reach these wrappers; the harness itself uses
 * plain libc.  Kernel objects are real (epoll, poll, socketpairs, eventfd, timerfd); what is
 * virtual is TIME: clock_gettime returns a virtual clock, every kernel wait is executed with a zero
 * timeout, and if nothing is ready the virtual clock jumps to the requested deadline (or to the
 * armed kernel timer, which is then made to fire).  A scenario file drives the run: set-up actions,
 * reaction tables for every handler invocation, stimuli keyed to wait numbers, injected failures.
 * Every observation point is written to the log on stdout (see DESIGN.md Appendix A and
 * lean/Ivy/Drv/Loop.lean, which replays it against the Lean machine).
 */
#include <stdio.h>
#include <sys/time.h>
#include <stdlib.h>
#include <string.h>
#include <stdarg.h>
#include <errno.h>
#include <fcntl.h>
#include <poll.h>
#include <pthread.h>
#include <signal.h>
#include <unistd.h>
#include <sys/epoll.h>
#include <sys/eventfd.h>
#include <sys/socket.h>
#include <sys/syscall.h>
#include <sys/timerfd.h>
#include <iv.h>
#include <iv_event.h>
#include <iv_event_raw.h>
#include "iv_private.h"

#define MAXO 64
#define MAXLINE 4096
#define MAXREACT 4096
#define MAXSTIM 1024

/* ------------------------------------------------------------------ log */
static void logf_(const char *fmt, ...)
{
	va_list ap;
	va_start(ap, fmt);
	vprintf(fmt, ap);
	va_end(ap);
}

#ifdef IVY_COVERAGE
extern void __gcov_dump(void);
#endif

static void finish(const char *why)
{
#ifdef IVY_COVERAGE
	__gcov_dump();
#endif
	if (why != NULL)
		logf_("%s\n", why);
	fflush(stdout);
	_exit(0);
}

/* ------------------------------------------------------------------ objects */
struct fdo { struct iv_fd *o; int fd, peer; int exists; int isreg; int bad; int fresh; int alias; char kind[8]; };
struct tmo { struct iv_timer *o; int exists; };
struct tko { struct iv_task *o; int exists; };
struct evo { struct iv_event *o; int exists; int isreg; };
struct rwo { struct iv_event_raw *o; int exists; int isreg; };
static struct fdo F[MAXO];
#define MAXTM 1024
static struct tmo T[MAXTM];
static struct tko K[MAXO];
static struct evo E[MAXO];
static struct rwo R[MAXO];

static long long vclock = 1000000000LL;	/* virtual CLOCK_MONOTONIC, ns */
static int in_library;			/* inside iv_main */
static int cb_count, wait_done, wait_calls;
static int cb_limit = 4000, wait_limit = 300;

/* ------------------------------------------------------------------ scenario storage */
struct react { char kind; int id; int band; int nth; char *actions; };
static struct react RE[MAXREACT];
static int nre;
static int cbseen[5][MAXO][3];
struct stim { int waitno; char *actions; };
static struct stim ST[MAXSTIM];
static int nst;

/* failures */
/* the library's malloc() calls: the block comes back filled with the scenario's byte pattern (cfg fill=N), so that a field the library
 * forgets to initialise reads as all-ones / 1 / ... instead of whatever the allocator left there */
static int cfg_fill = -1;
static int cfg_probe_eintr, probe_calls;
static long long cfg_epoch0 = -1;
void *__wrap_malloc(size_t n)
{
	void *p = malloc(n);	/* only the library's references are redirected here */
	if (p != NULL && cfg_fill >= 0)
		memset(p, cfg_fill, n);
	return p;
}

static int cfg_nopwait2, cfg_notimerfd, cfg_noppoll, cfg_noeventfd2, cfg_noeventfd, cfg_noepollcreate1;
static int eintr_at[64], neintr;	/* wait-call indices (1-based, counting every call) that return EINTR */
static int fail_eventfd_errno;		/* eventfd syscalls fail with this errno (e.g. EMFILE) */
static int fail_pipe;
static int cfg_noepoll;

/* ------------------------------------------------------------------ kernel interest mirror (epoll) */
#define MAXFD 4096
static int kint_present[MAXFD];
static uint32_t kint_events[MAXFD];
static void *kint_data[MAXFD];
static int ktimer_fd = -1;
static int ktimer_armed;
static long long ktimer_val;

static struct iv_state *the_state(void) { return iv_get_state(); }

static const char *name_of_fdnum(int fd, char *buf)
{
	int i;
	struct iv_state *st = the_state();
	for (i = 0; i < MAXO; i++)
		if (F[i].exists && F[i].fd == fd) { sprintf(buf, "f%d", i); return buf; }
	if (st != NULL && ((struct iv_fd_ *)&st->events_kick.event_rfd)->registered && st->events_kick.event_rfd.fd == fd) {
		sprintf(buf, "r0");
		return buf;
	}
	for (i = 1; i < MAXO; i++)
		if (R[i].exists && R[i].isreg && R[i].o->event_rfd.fd == fd) { sprintf(buf, "r%d", i); return buf; }
	return NULL;
}

/* several struct iv_fd may name ONE descriptor number ("=f<k>" objects): prefer the object the library itself attached to the kernel
 * entry (epoll: data.ptr; poll: the slot's iv_fd), as long as that object really has this descriptor number */
static const char *name_of_fdobj(const void *obj, int fd, char *buf)
{
	int i;
	for (i = 0; obj != NULL && i < MAXO; i++)
		if (F[i].exists && (const void *)F[i].o == obj && F[i].fd == fd) { sprintf(buf, "f%d", i); return buf; }
	return name_of_fdnum(fd, buf);
}

static const char *name_of_slot(struct pollfd *pfds, int i, char *buf)
{
	struct iv_state *st = the_state();
	const char *m = iv_poll_method_name();
	if (st != NULL && m != NULL && (!strcmp(m, "poll") || !strcmp(m, "ppoll")) && pfds == st->u.poll.pfds && i < st->u.poll.num_regd_fds)
		return name_of_fdobj(st->u.poll.fds[i], pfds[i].fd, buf);
	return name_of_fdnum(pfds[i].fd, buf);
}

static int cmp_names(const void *a, const void *b)
{
	const char *x = *(const char * const *)a, *y = *(const char * const *)b;
	if (x[0] != y[0]) return x[0] - y[0];	/* f before r */
	return atoi(x + 1) - atoi(y + 1);
}

/* ------------------------------------------------------------------ ground truth */
static void gt_string(char *out)
{
	int i;
	char *p = out;
	*p = 0;
	for (i = 0; i < MAXO; i++) {
		struct pollfd pfd;
		if (!F[i].exists || F[i].fd < 0 || F[i].fd >= 900)
			continue;
		pfd.fd = F[i].fd;
		pfd.events = POLLIN | POLLOUT;
		pfd.revents = 0;
		if (poll(&pfd, 1, 0) < 0)
			continue;
		p += sprintf(p, "%sf%d:%s%s%s%s", p == out ? "" : ",", i,
			     (pfd.revents & POLLIN) ? "i" : "", (pfd.revents & POLLOUT) ? "o" : "",
			     (pfd.revents & POLLERR) ? "e" : "", (pfd.revents & POLLHUP) ? "h" : "");
	}
}

/* ------------------------------------------------------------------ actions */
static void run_actions(const char *actions);
static void h_in(void *c);
static void h_out(void *c);
static void h_err(void *c);
static void h_timer(void *c);
static void h_task(void *c);
static void h_event(void *c);
static void h_raw(void *c);

static void fatal_handler(const char *msg)
{
	char buf[200];
	snprintf(buf, sizeof(buf), "FATAL %s", msg);
	finish(buf);
}

static void ts_of(long long ns, struct timespec *ts)
{
	ts->tv_sec = ns / 1000000000LL;
	ts->tv_nsec = ns % 1000000000LL;
}

/* the application's objects come from memory full of garbage: IV_*_INIT is all that initialises the library's fields */
static void *umalloc(size_t n)
{
	void *p = malloc(n);
	if (p == NULL) abort();
	memset(p, 0xa5, n);
	return p;
}

static void mk_fd(int i, const char *kind)
{
	int sv[2];
	F[i].exists = 1;
	F[i].isreg = 0;
	snprintf(F[i].kind, sizeof(F[i].kind), "%s", kind);
	F[i].o = umalloc(sizeof(struct iv_fd));
	IV_FD_INIT(F[i].o);
	F[i].fresh = 1;
	if (kind[0] == '=') {
		/* "=f<k>": a second struct iv_fd for the SAME descriptor number as f<k> (an application may hand one descriptor to two
		 * objects; whether the second registration attempt succeeds depends on the poll method) */
		int k = atoi(kind + 2) % MAXO;
		F[i].fd = F[k].fd;
		F[i].peer = -1;
		F[i].alias = 1;
		snprintf(F[i].kind, sizeof(F[i].kind), "alias");
	} else if (!strcmp(kind, "bad")) {
		F[i].fd = 900 + i;	/* never opened: EBADF / POLLNVAL */
		F[i].peer = -1;
		F[i].bad = 1;
	} else if (!strcmp(kind, "pipe-r") || !strcmp(kind, "pipe-w")) {
		if (pipe(sv) < 0) finish("HARNESS-ERROR pipe");
		if (!strcmp(kind, "pipe-r")) { F[i].fd = sv[0]; F[i].peer = sv[1]; }
		else { F[i].fd = sv[1]; F[i].peer = sv[0]; }
	} else {
		if (socketpair(AF_UNIX, SOCK_STREAM, 0, sv) < 0) finish("HARNESS-ERROR socketpair");
		F[i].fd = sv[0];
		F[i].peer = sv[1];
	}
	F[i].o->fd = F[i].fd;
	F[i].o->cookie = (void *)(long)(0x10000 + i);
}

static int objnum(const char *tok, char kind)
{
	if (tok == NULL || tok[0] != kind) { logf_("HARNESS-ERROR bad object %s\n", tok ? tok : "(null)"); finish(NULL); }
	return atoi(tok + 1) % MAXO;
}

static void fill_fd(int fd)
{
	char buf[4096];
	int fl = fcntl(fd, F_GETFL);
	memset(buf, 'x', sizeof(buf));
	fcntl(fd, F_SETFL, fl | O_NONBLOCK);
	while (write(fd, buf, sizeof(buf)) > 0)
		;
	fcntl(fd, F_SETFL, fl);
}

static void drain_fd(int fd)
{
	char buf[4096];
	int fl = fcntl(fd, F_GETFL);
	fcntl(fd, F_SETFL, fl | O_NONBLOCK);
	while (read(fd, buf, sizeof(buf)) > 0)
		;
	fcntl(fd, F_SETFL, fl);
}

static void *xpost_thread(void *arg)
{
	errno = EINTR;	/* errno holds whatever an earlier call left there */
	iv_event_post(arg);
	return NULL;
}

static void *xrawpost_thread(void *arg)
{
	errno = EINTR;	/* errno holds whatever an earlier call left there */
	iv_event_raw_post(arg);
	return NULL;
}

static void fire_ktimer_if_due(void);
static void one_action(char *act)
{
	char *save = NULL;
	char *op = strtok_r(act, " \t\n", &save);
	char *a1, *a2;
	int guard = 0;
	int i;

	if (op == NULL)
		return;
	if (op[0] == '?') { guard = 1; op++; }
	a1 = strtok_r(NULL, " \t\n", &save);
	a2 = strtok_r(NULL, " \t\n", &save);
	/* using freed object memory is invalid use: library calls on a freed struct are skipped */
	if (a1 != NULL && strcmp(op, "init") && strcmp(op, "free") && strcmp(op, "clk") && strncmp(op, "tburst", 6)) {
		int n = atoi(a1 + 1) % MAXO;
		int live = 1;
		switch (a1[0]) {
		case 'f': live = F[n].exists == 1; break;
		case 't': live = T[n].exists == 1; break;
		case 'k': live = K[n].exists == 1; break;
		case 'e': live = E[n].exists == 1; break;
		case 'r': live = R[n].exists == 1; break;
		}
		if (!live && strcmp(op, "wr") && strcmp(op, "rd") && strcmp(op, "fill") && strcmp(op, "unfill") &&
		    strcmp(op, "closepeer") && strcmp(op, "shutpeer"))
			return;
	}

	if (!strcmp(op, "reg") || !strcmp(op, "try")) {
		i = objnum(a1, 'f');
		if (guard && (!F[i].exists || iv_fd_registered(F[i].o))) return;
		if (F[i].fresh) {
			/* first registration after IV_FD_INIT: an application only assigns the handlers it wants, the rest is what INIT left */
			if (a2 && a2[0] == '1') F[i].o->handler_in = h_in;
			if (a2 && a2[1] == '1') F[i].o->handler_out = h_out;
			if (a2 && a2[2] == '1') F[i].o->handler_err = h_err;
			F[i].fresh = 0;
		} else {
			F[i].o->handler_in = (a2 && a2[0] == '1') ? h_in : NULL;
			F[i].o->handler_out = (a2 && a2[1] == '1') ? h_out : NULL;
			F[i].o->handler_err = (a2 && a2[2] == '1') ? h_err : NULL;
		}
		errno = EINTR;	/* errno holds whatever an earlier call left there */
		logf_("API %s f%d %d %d %d\n", op[0] == 'r' ? "fdRegister" : "fdRegisterTry", i,
		      F[i].o->handler_in != NULL, F[i].o->handler_out != NULL, F[i].o->handler_err != NULL);
		if (!F[i].bad && !F[i].alias) {	/* start from a blocking, inheritable descriptor so that the library has to change it */
			fcntl(F[i].fd, F_SETFL, fcntl(F[i].fd, F_GETFL) & ~O_NONBLOCK);
			fcntl(F[i].fd, F_SETFD, 0);
		}
		if (op[0] == 'r') {
			iv_fd_register(F[i].o);
			F[i].isreg = 1;
			logf_("RET 0\n");
		} else {
			int r = iv_fd_register_try(F[i].o);
			if (r != 0 && !F[i].bad && !F[i].alias && fcntl(F[i].fd, F_GETFD) >= 0)
				logf_("TRY-FAILED-ON-OPEN-FD f%d\n", i);	/* the attempt may only fail for a descriptor that is not open */
			F[i].isreg = (r == 0);
			logf_("RET %d\n", r ? -1 : 0);
		}
		if (F[i].isreg && !F[i].bad)
			logf_("FDFLAGS f%d nonblock=%d cloexec=%d kind=%s\n", i, !!(fcntl(F[i].fd, F_GETFL) & O_NONBLOCK), !!(fcntl(F[i].fd, F_GETFD) & FD_CLOEXEC), F[i].kind);
	} else if (!strcmp(op, "unreg")) {
		i = objnum(a1, 'f');
		if (guard && (!F[i].exists || !iv_fd_registered(F[i].o))) return;
		logf_("API fdUnregister f%d\n", i);
		iv_fd_unregister(F[i].o);
		F[i].isreg = 0;
		logf_("RET 0\n");
	} else if (!strcmp(op, "setin") || !strcmp(op, "setout") || !strcmp(op, "seterr")) {
		int v = a2 && a2[0] == '1';
		i = objnum(a1, 'f');
		if (guard && (!F[i].exists || !iv_fd_registered(F[i].o))) return;
		logf_("API %s f%d %d\n", !strcmp(op, "setin") ? "fdSetIn" : !strcmp(op, "setout") ? "fdSetOut" : "fdSetErr", i, v);
		if (!strcmp(op, "setin")) iv_fd_set_handler_in(F[i].o, v ? h_in : NULL);
		else if (!strcmp(op, "setout")) iv_fd_set_handler_out(F[i].o, v ? h_out : NULL);
		else iv_fd_set_handler_err(F[i].o, v ? h_err : NULL);
		logf_("RET 0\n");
	} else if (!strcmp(op, "tburst") || !strcmp(op, "tburstoff")) {
		/* tburst <from> <to>: register timers t<from>..t<to-1> (created on demand) far in the future; tburstoff: unregister them */
		int from = atoi(a1), to = a2 ? atoi(a2) : from, j;
		for (j = from; j < to && j < MAXTM; j++) {
			if (!T[j].exists) {
				T[j].exists = 1; T[j].o = umalloc(sizeof(struct iv_timer)); IV_TIMER_INIT(T[j].o);
				T[j].o->cookie = (void *)(long)(0x20000 + j); T[j].o->handler = h_timer;
			}
			if (T[j].exists != 1) continue;
			if (!strcmp(op, "tburst") && !iv_timer_registered(T[j].o)) {
				ts_of(vclock + 3600000000000LL + (long long)j * 1000, &T[j].o->expires);
				logf_("API timerRegister t%d %lld %lld\n", j, (long long)T[j].o->expires.tv_sec, (long long)T[j].o->expires.tv_nsec);
				iv_timer_register(T[j].o);
				logf_("RET 0\n");
			} else if (!strcmp(op, "tburstoff") && iv_timer_registered(T[j].o)) {
				logf_("API timerUnregister t%d\n", j);
				iv_timer_unregister(T[j].o);
				logf_("RET 0\n");
			}
		}
	} else if (!strcmp(op, "treg") || !strcmp(op, "trel")) {
		long long ns = a2 ? atoll(a2) : 0;
		i = objnum(a1, 't');
		if (guard && (!T[i].exists || iv_timer_registered(T[i].o))) return;
		/* the harness keeps virtual time as nanoseconds in a long long: a relative expiry that would carry it past about 290 years is
		 * skipped (the library itself has no such limit; repeated decades-ahead re-arming is what gets here) */
		if (!strcmp(op, "trel") && ns > 0 && vclock > 9000000000000000000LL - ns) return;
		if (!strcmp(op, "trel")) ns += vclock;
		if (!iv_timer_registered(T[i].o))
			ts_of(ns, &T[i].o->expires);
		logf_("API timerRegister t%d %lld %lld\n", i, (long long)T[i].o->expires.tv_sec, (long long)T[i].o->expires.tv_nsec);
		iv_timer_register(T[i].o);
		logf_("RET 0\n");
	} else if (!strcmp(op, "tunreg")) {
		i = objnum(a1, 't');
		if (guard && (!T[i].exists || !iv_timer_registered(T[i].o))) return;
		logf_("API timerUnregister t%d\n", i);
		iv_timer_unregister(T[i].o);
		logf_("RET 0\n");
	} else if (!strcmp(op, "kreg")) {
		i = objnum(a1, 'k');
		if (guard && (!K[i].exists || iv_task_registered(K[i].o))) return;
		logf_("API taskRegister k%d\n", i);
		iv_task_register(K[i].o);
		logf_("RET 0\n");
	} else if (!strcmp(op, "kunreg")) {
		i = objnum(a1, 'k');
		if (guard && (!K[i].exists || !iv_task_registered(K[i].o))) return;
		logf_("API taskUnregister k%d\n", i);
		iv_task_unregister(K[i].o);
		logf_("RET 0\n");
	} else if (!strcmp(op, "evreg")) {
		int r;
		i = objnum(a1, 'e');
		if (guard && (!E[i].exists || E[i].isreg)) return;
		logf_("API evRegister e%d\n", i);
		r = iv_event_register(E[i].o);
		E[i].isreg = (r == 0);
		logf_("RET %d\n", r ? -1 : 0);
	} else if (!strcmp(op, "evunreg")) {
		i = objnum(a1, 'e');
		if (guard && (!E[i].exists || !E[i].isreg)) return;
		logf_("API evUnregister e%d\n", i);
		iv_event_unregister(E[i].o);
		E[i].isreg = 0;
		logf_("RET 0\n");
	} else if (!strcmp(op, "evpost")) {
		i = objnum(a1, 'e');
		if (!E[i].exists || !E[i].isreg) return;	/* posting to an unregistered event is invalid use */
		logf_("API evPost e%d\n", i);
		errno = EINTR;	/* errno holds whatever an earlier call left there */
		iv_event_post(E[i].o);
	} else if (!strcmp(op, "xpost")) {
		pthread_t th;
		i = objnum(a1, 'e');
		if (!E[i].exists || !E[i].isreg) return;
		logf_("XPOST e%d\n", i);
		pthread_create(&th, NULL, xpost_thread, E[i].o);
		pthread_join(th, NULL);
	} else if (!strcmp(op, "rawreg")) {
		int r;
		i = objnum(a1, 'r');
		if (guard && (!R[i].exists || R[i].isreg)) return;
		logf_("API rawRegister r%d\n", i);
		r = iv_event_raw_register(R[i].o);
		R[i].isreg = (r == 0);
		logf_("RET %d\n", r ? -1 : 0);
	} else if (!strcmp(op, "rawunreg")) {
		i = objnum(a1, 'r');
		if (guard && (!R[i].exists || !R[i].isreg)) return;
		logf_("API rawUnregister r%d\n", i);
		R[i].isreg = 0;
		iv_event_raw_unregister(R[i].o);
	} else if (!strcmp(op, "rawpost")) {
		i = objnum(a1, 'r');
		if (!R[i].exists || !R[i].isreg) return;
		logf_("RAWPOST r%d self\n", i);
		errno = EINTR;	/* errno holds whatever an earlier call left there */
		iv_event_raw_post(R[i].o);
	} else if (!strcmp(op, "xrawpost")) {
		pthread_t th;
		i = objnum(a1, 'r');
		if (!R[i].exists || !R[i].isreg) return;
		logf_("RAWPOST r%d thread\n", i);
		pthread_create(&th, NULL, xrawpost_thread, R[i].o);
		pthread_join(th, NULL);
	} else if (!strcmp(op, "quit")) {
		logf_("API quit\n");
		iv_quit();
	} else if (!strcmp(op, "inval")) {
		logf_("API invalidateNow\n");
		iv_invalidate_now();
	} else if (!strcmp(op, "valid")) {
		logf_("API validateNow\n");
		{ struct timespec now = iv_now; (void)now; }	/* iv_validate_now() is an empty macro; iv_now validates */
		logf_("RET 0\n");
	} else if (!strcmp(op, "clk")) {
		vclock += atoll(a1);
		logf_("CLK %lld\n", vclock);
		fire_ktimer_if_due();	/* time passing is what makes a kernel timer expire: it is queued in the kernel now, ahead of later events */
	} else if (!strcmp(op, "free")) {
		char kd = a1[0];
		i = atoi(a1 + 1) % MAXO;
		/* freeing a registered object is invalid use: only do it when unregistered */
		if (kd == 'f' && F[i].exists == 1 && !iv_fd_registered(F[i].o)) { logf_("FREE f%d\n", i); free(F[i].o); F[i].o = NULL; F[i].exists = 2; }
		else if (kd == 't' && T[i].exists == 1 && !iv_timer_registered(T[i].o)) { logf_("FREE t%d\n", i); free(T[i].o); T[i].o = NULL; T[i].exists = 2; }
		else if (kd == 'k' && K[i].exists == 1 && !iv_task_registered(K[i].o)) { logf_("FREE k%d\n", i); free(K[i].o); K[i].o = NULL; K[i].exists = 2; }
		else if (kd == 'e' && E[i].exists == 1 && !E[i].isreg) { logf_("FREE e%d\n", i); free(E[i].o); E[i].o = NULL; E[i].exists = 2; }
		else if (kd == 'r' && R[i].exists == 1 && !R[i].isreg) { logf_("FREE r%d\n", i); free(R[i].o); R[i].o = NULL; R[i].exists = 2; }
	} else if (!strcmp(op, "init")) {
		char kd = a1[0];
		i = atoi(a1 + 1) % MAXO;
		if (kd == 'f' && F[i].exists == 2) {
			F[i].o = umalloc(sizeof(struct iv_fd)); IV_FD_INIT(F[i].o); F[i].fresh = 1; F[i].o->fd = F[i].fd;
			F[i].o->cookie = (void *)(long)(0x10000 + i); F[i].exists = 1; logf_("INIT f%d\n", i);
		} else if (kd == 't' && T[i].exists == 2) {
			T[i].o = umalloc(sizeof(struct iv_timer)); IV_TIMER_INIT(T[i].o); T[i].o->cookie = (void *)(long)(0x20000 + i);
			T[i].o->handler = h_timer; T[i].exists = 1; logf_("INIT t%d\n", i);
		} else if (kd == 'k' && (K[i].exists == 2 || (K[i].exists == 1 && !iv_task_registered(K[i].o)))) {
			if (K[i].exists == 2) K[i].o = umalloc(sizeof(struct iv_task));
			IV_TASK_INIT(K[i].o); K[i].o->cookie = (void *)(long)(0x30000 + i);
			K[i].o->handler = h_task; K[i].exists = 1; logf_("INIT k%d\n", i);
		} else if (kd == 'e' && E[i].exists == 2) {
			E[i].o = umalloc(sizeof(struct iv_event)); IV_EVENT_INIT(E[i].o); E[i].o->cookie = (void *)(long)(0x40000 + i);
			E[i].o->handler = h_event; E[i].exists = 1; logf_("INIT e%d\n", i);
		} else if (kd == 'r' && R[i].exists == 2) {
			R[i].o = umalloc(sizeof(struct iv_event_raw)); IV_EVENT_RAW_INIT(R[i].o); R[i].o->cookie = (void *)(long)(0x50000 + i);
			R[i].o->handler = h_raw; R[i].exists = 1; logf_("INIT r%d\n", i);
		}
	/* ---- stimuli on the kernel objects behind the descriptors (not library calls) */
	} else if (!strcmp(op, "wr")) {
		i = objnum(a1, 'f');
		if (F[i].peer >= 0) { char b[64]; int n = a2 ? atoi(a2) : 1; memset(b, 'y', sizeof(b)); if (write(F[i].peer, b, n > 64 ? 64 : n) < 0) {} }
	} else if (!strcmp(op, "rd")) {
		i = objnum(a1, 'f');
		if (F[i].exists && !F[i].bad) drain_fd(F[i].fd);
	} else if (!strcmp(op, "fill")) {
		i = objnum(a1, 'f');
		if (F[i].exists && !F[i].bad) fill_fd(F[i].fd);
	} else if (!strcmp(op, "unfill")) {
		i = objnum(a1, 'f');
		if (F[i].peer >= 0) drain_fd(F[i].peer);
	} else if (!strcmp(op, "closepeer")) {
		i = objnum(a1, 'f');
		if (F[i].peer >= 0) { close(F[i].peer); F[i].peer = -1; }
	} else if (!strcmp(op, "shutpeer")) {
		i = objnum(a1, 'f');
		if (F[i].peer >= 0) shutdown(F[i].peer, SHUT_WR);
	} else if (!strcmp(op, "heal")) {
		/* the descriptor number a failed registration was attempted on becomes a valid descriptor (the application opened
		 * something that landed on that number); the iv_fd struct is NOT re-initialised */
		i = objnum(a1, 'f');
		if (F[i].exists == 1 && F[i].bad && !iv_fd_registered(F[i].o)) {
			int sv[2];
			if (socketpair(AF_UNIX, SOCK_STREAM, 0, sv) == 0 && dup2(sv[0], F[i].fd) == F[i].fd) {
				close(sv[0]);
				F[i].peer = sv[1];
				F[i].bad = 0;
				snprintf(F[i].kind, sizeof(F[i].kind), "healed");
			}
		}
	} else if (!strcmp(op, "nop")) {
	} else {
		logf_("HARNESS-ERROR unknown action %s\n", op);
		finish(NULL);
	}
}

static void run_actions(const char *actions)
{
	char *copy = strdup(actions), *save = NULL, *a;
	for (a = strtok_r(copy, ";", &save); a != NULL; a = strtok_r(NULL, ";", &save)) {
		char buf[256];
		snprintf(buf, sizeof(buf), "%s", a);
		one_action(buf);
	}
	free(copy);
}

/* ------------------------------------------------------------------ handlers */
static void react(char kind, int id, int band)
{
	int k = kind == 'f' ? 0 : kind == 't' ? 1 : kind == 'k' ? 2 : kind == 'e' ? 3 : 4;
	int n = (id >= 0 && id < MAXO) ? ++cbseen[k][id][band] : 1;	/* burst timers (ids beyond the reaction table) have no reactions */
	int i;

	if (++cb_count > cb_limit)
		finish("CBLIMIT");
	for (i = 0; i < nre; i++)
		if (RE[i].kind == kind && RE[i].id == id && RE[i].band == band && (RE[i].nth == 0 || RE[i].nth == n))
			run_actions(RE[i].actions);
	logf_("END\n");
}

static int cookie_id(void *c, long base)
{
	long v = (long)c;
	if (v < base || v >= base + MAXO)
		return -1;
	return (int)(v - base);
}

static void fd_cb(void *c, int band, const char *bn)
{
	int i = cookie_id(c, 0x10000);
	if (i < 0 || !F[i].exists) { logf_("CB bad-cookie %s\n", bn); finish(NULL); }
	logf_("CB f%d %s\n", i, bn);
	react('f', i, band);
}
static void h_err(void *c) { fd_cb(c, 0, "err"); }
static void h_in(void *c) { fd_cb(c, 1, "in"); }
static void h_out(void *c) { fd_cb(c, 2, "out"); }

static void h_timer(void *c)
{
	int i = ((long)c >= 0x20000 && (long)c < 0x20000 + MAXTM) ? (int)((long)c - 0x20000) : -1;
	if (i < 0) { logf_("CB bad-cookie timer\n"); finish(NULL); }
	logf_("CB t%d reg=%d\n", i, iv_timer_registered(T[i].o));
	{
		/* "at the moment of invocation the loop's clock is at or past the timer's expiry": the loop's clock is what iv_now yields;
		 * looked at without forcing a clock reading (when the cached time is not valid a handler that asks gets a fresh one) */
		struct iv_state *st = iv_get_state();
		if (st->time_valid && timespec_gt(&T[i].o->expires, &st->time))
			logf_("EARLY t%d now=%lld expires=%lld\n", i,
			      (long long)st->time.tv_sec * 1000000000LL + st->time.tv_nsec,
			      (long long)T[i].o->expires.tv_sec * 1000000000LL + T[i].o->expires.tv_nsec);
	}
	react('t', i, 0);
}

static void h_task(void *c)
{
	int i = cookie_id(c, 0x30000);
	if (i < 0) { logf_("CB bad-cookie task\n"); finish(NULL); }
	logf_("CB k%d reg=%d\n", i, iv_task_registered(K[i].o));
	react('k', i, 0);
}

static void h_event(void *c)
{
	int i = cookie_id(c, 0x40000);
	if (i < 0) { logf_("CB bad-cookie event\n"); finish(NULL); }
	logf_("CB e%d\n", i);
	react('e', i, 0);
}

static void h_raw(void *c)
{
	int i = cookie_id(c, 0x50000);
	if (i < 0) { logf_("CB bad-cookie raw\n"); finish(NULL); }
	logf_("CB r%d\n", i);
	react('r', i, 0);
}

/* ------------------------------------------------------------------ wrappers (library references only) */
int __wrap_clock_gettime(clockid_t id, struct timespec *ts)
{
	(void)id;
	ts_of(vclock, ts);
	logf_("TIME %lld\n", vclock);
	return 0;
}

long __wrap_syscall(long nr, long a, long b, long c, long d, long e, long f)
{
	if (nr == __NR_eventfd2 || nr == __NR_eventfd) {
		if (fail_eventfd_errno) { errno = fail_eventfd_errno; return -1; }
		if (nr == __NR_eventfd2 && (cfg_noeventfd2 || cfg_noeventfd)) { errno = ENOSYS; return -1; }
		if (nr == __NR_eventfd && cfg_noeventfd) { errno = ENOSYS; return -1; }
	}
#ifdef __NR_epoll_create1
	if (nr == __NR_epoll_create1 && (cfg_noepollcreate1 || cfg_noepoll)) { errno = ENOSYS; return -1; }
#endif
	return syscall(nr, a, b, c, d, e, f);
}

int __wrap_epoll_create(int size)
{
	if (cfg_noepoll) { errno = ENOSYS; return -1; }
	return epoll_create(size);
}

int __wrap_pipe(int fd[2])
{
	if (fail_pipe) { errno = EMFILE; return -1; }
	return pipe(fd);
}

int __wrap_timerfd_create(int clockid, int flags)
{
	int r;
	if (cfg_notimerfd) { errno = ENOSYS; return -1; }
	r = timerfd_create(clockid, flags);
	ktimer_fd = r;
	return r;
}

int __wrap_timerfd_settime(int fd, int flags, const struct itimerspec *nv, struct itimerspec *ov)
{
	struct itimerspec off;
	(void)flags; (void)ov;
	memset(&off, 0, sizeof(off));
	if (nv->it_value.tv_sec == 0 && nv->it_value.tv_nsec == 0) {
		ktimer_armed = 0;
	} else {
		ktimer_armed = 1;
		ktimer_val = nv->it_value.tv_sec * 1000000000LL + nv->it_value.tv_nsec;
	}
	return timerfd_settime(fd, 0, &off, NULL);	/* the real timer stays disarmed until virtual time says otherwise */
}

int __wrap_epoll_ctl(int epfd, int op, int fd, struct epoll_event *ev)
{
	int r = epoll_ctl(epfd, op, fd, ev);
	if (r == 0 && fd >= 0 && fd < MAXFD) {
		if (op == EPOLL_CTL_DEL) {
			kint_present[fd] = 0;
		} else {
			kint_present[fd] = 1;
			kint_events[fd] = ev->events;
			kint_data[fd] = ev->data.ptr;
		}
	}
	return r;
}

ssize_t __wrap_read(int fd, void *buf, size_t count)
{
	ssize_t r = read(fd, buf, count);
	char nb[16];
	if (fd == ktimer_fd && fd >= 0) {
		ktimer_armed = 0;
		return r;
	}
	if (name_of_fdnum(fd, nb) != NULL && nb[0] == 'r')
		logf_("RAWREAD %s %s\n", nb, r > 0 ? "ok" : "eagain");
	return r;
}

static void apply_stimuli(void)
{
	int i;
	for (i = 0; i < nst; i++)
		if (ST[i].waitno == wait_done && ST[i].actions != NULL) {
			char *a = ST[i].actions;
			ST[i].actions = NULL;
			run_actions(a);
			free(a);
		}
}

static int more_stimuli(void)
{
	int i;
	for (i = 0; i < nst; i++)
		if (ST[i].actions != NULL && ST[i].waitno > wait_done)
			return 1;
	return 0;
}

static void fire_ktimer_if_due(void)
{
	if (ktimer_armed && ktimer_fd >= 0 && vclock >= ktimer_val) {
		struct itimerspec it;
		memset(&it, 0, sizeof(it));
		it.it_value.tv_nsec = 1;
		timerfd_settime(ktimer_fd, TFD_TIMER_ABSTIME, &it, NULL);
	}
}

/* to: -1 = infinite, else ns */
static void log_wait_epoll(const char *prim, long long to_ns, int is_ms, long long raw)
{
	const char *names[2 * MAXO];
	static char nb[2 * MAXO][16];
	int n = 0, fd, kick = -1, i;
	char gt[1024];
	struct iv_state *st = the_state();

	for (fd = 0; fd < MAXFD; fd++) {
		if (!kint_present[fd])
			continue;
		if (kint_data[fd] == (void *)st) { kick = !!(kint_events[fd] & EPOLLIN); continue; }
		if (kint_data[fd] == (void *)&st->time) continue;
		if (name_of_fdobj(kint_data[fd], fd, nb[n]) != NULL) {
			sprintf(nb[n] + strlen(nb[n]), ":%s%s", (kint_events[fd] & EPOLLIN) ? "i" : "", (kint_events[fd] & EPOLLOUT) ? "o" : "");
			names[n] = nb[n];
			n++;
		}
	}
	qsort(names, n, sizeof(names[0]), cmp_names);
	logf_("WAIT prim=%s to=", prim);
	if (to_ns < 0) logf_("inf"); else if (is_ms) logf_("%lldms", raw); else logf_("%lldns", raw);
	logf_(" int=");
	for (i = 0; i < n; i++) logf_("%s%s", i ? "," : "", names[i]);
	if (ktimer_fd < 0) logf_(" ktimer=none"); else if (!ktimer_armed) logf_(" ktimer=off"); else logf_(" ktimer=%lld", ktimer_val);
	logf_(" kick=%s", kick < 0 ? "none" : kick ? "armed" : "idle");
	logf_("\n");
	(void)gt;
}

static void log_gt(void)
{
	char gt[1024];
	gt_string(gt);
	logf_("GT %s\n", gt);
}

static int eintr_now(void)
{
	int i;
	for (i = 0; i < neintr; i++)
		if (eintr_at[i] == wait_calls)
			return 1;
	return 0;
}

static int do_epoll(const char *prim, int epfd, struct epoll_event *events, int max, long long to_ns, int is_ms, long long raw)
{
	int r, i;
	struct iv_state *st = the_state();

	wait_calls++;
	vclock += 1000;	/* a system call takes time: the clock never stands still across a wait */
	log_wait_epoll(prim, to_ns, is_ms, raw);
	if (!strcmp(prim, "epoll_pwait2") && cfg_nopwait2) {
		logf_("WRET ENOSYS\n");
		errno = (cfg_nopwait2 == 2) ? EPERM : ENOSYS;
		return -1;
	}
	if (eintr_now()) {
		/* the signal arrives after part of the sleep has elapsed */
		if (to_ns > 0) vclock += to_ns / 2;
		logf_("WRET EINTR\n");
		wait_done++;
		errno = EINTR;
		return -1;
	}
	if (wait_done >= wait_limit)
		finish("WAITLIMIT");
	fire_ktimer_if_due();	/* already due when the wait starts: it is ahead of whatever arrives during the wait */
	apply_stimuli();
	log_gt();
	fire_ktimer_if_due();
	r = epoll_wait(epfd, events, max, 0);
	if (r == 0 && to_ns != 0) {
		long long target = -1;
		if (to_ns > 0) target = vclock + to_ns;
		if (ktimer_armed && (target < 0 || ktimer_val < target)) target = ktimer_val;
		if (target < 0) {
			if (more_stimuli()) {
				/* an external stimulus will arrive "later": jump to it */
				wait_done++;
				apply_stimuli();
				wait_done--;
				r = epoll_wait(epfd, events, max, 0);
			}
			if (r == 0)
				finish("BLOCKED");
		} else {
			if (target > vclock) vclock = target;
			fire_ktimer_if_due();
			r = epoll_wait(epfd, events, max, 0);
		}
	}
	wait_done++;
	logf_("WRET ev=");
	for (i = 0; i < r; i++) {
		char nb[16];
		if (events[i].data.ptr == (void *)st) {
			int fdn;
			logf_("%sKICK", i ? "," : "");
			for (fdn = 0; fdn < MAXFD; fdn++)	/* one-shot: the kernel disabled the entry */
				if (kint_present[fdn] && kint_data[fdn] == (void *)st && (kint_events[fdn] & EPOLLONESHOT))
					kint_events[fdn] &= ~EPOLLIN;
			continue;
		}
		if (events[i].data.ptr == (void *)&st->time) { logf_("%sKTIMER", i ? "," : ""); continue; }
		{
			struct iv_fd_ *fd = events[i].data.ptr;
			const char *nm = NULL;
			int j;
			/* identify by pointer first (never dereference: it may be stale) */
			for (j = 0; j < MAXO && nm == NULL; j++)
				if (F[j].exists == 1 && (void *)F[j].o == (void *)fd) { sprintf(nb, "f%d", j); nm = nb; }
			if (nm == NULL && (void *)fd == (void *)&st->events_kick.event_rfd) { sprintf(nb, "r0"); nm = nb; }
			for (j = 1; j < MAXO && nm == NULL; j++)
				if (R[j].exists == 1 && (void *)&R[j].o->event_rfd == (void *)fd) { sprintf(nb, "r%d", j); nm = nb; }
			if (nm == NULL) { logf_("%sSTALE", i ? "," : ""); continue; }
			logf_("%s%s:%s%s%s%s", i ? "," : "", nm, (events[i].events & EPOLLIN) ? "i" : "", (events[i].events & EPOLLOUT) ? "o" : "",
			      (events[i].events & EPOLLERR) ? "e" : "", (events[i].events & EPOLLHUP) ? "h" : "");
		}
	}
	logf_("\n");
	return r;
}

int __wrap_epoll_pwait2(int epfd, struct epoll_event *events, int max, const struct timespec *to, const sigset_t *ss)
{
	long long ns = to ? to->tv_sec * 1000000000LL + to->tv_nsec : -1;
	(void)ss;
	return do_epoll("epoll_pwait2", epfd, events, max, ns, 0, ns);
}

int __wrap_epoll_wait(int epfd, struct epoll_event *events, int max, int to_ms)
{
	return do_epoll("epoll_wait", epfd, events, max, to_ms < 0 ? -1 : (long long)to_ms * 1000000LL, 1, to_ms);
}

static int do_poll(const char *prim, struct pollfd *pfds, nfds_t n, long long to_ns, int is_ms, long long raw)
{
	int r;
	nfds_t i;
	char gt[1024];
	int first = 1;

	wait_calls++;
	vclock += 1000;
	logf_("WAIT prim=%s to=", prim);
	if (to_ns < 0) logf_("inf"); else if (is_ms) logf_("%lldms", raw); else logf_("%lldns", raw);
	logf_(" int=");
	for (i = 0; i < n; i++) {
		char nb[16];
		const char *nm = name_of_slot(pfds, i, nb);
		logf_("%s%s:%s%s%s", i ? "," : "", nm ? nm : "?", (pfds[i].events & POLLIN) ? "i" : "", (pfds[i].events & POLLOUT) ? "o" : "",
		      (pfds[i].events & POLLHUP) ? "h" : "");
	}
	(void)gt;
	logf_(" ktimer=none kick=none\n");
	if (!strcmp(prim, "ppoll") && cfg_noppoll) {
		logf_("WRET ENOSYS\n");
		errno = ENOSYS;
		return -1;
	}
	if (eintr_now()) {
		if (to_ns > 0) vclock += to_ns / 2;
		logf_("WRET EINTR\n");
		wait_done++;
		errno = EINTR;
		return -1;
	}
	if (wait_done >= wait_limit)
		finish("WAITLIMIT");
	apply_stimuli();
	log_gt();
	r = poll(pfds, n, 0);
	if (r == 0 && to_ns != 0) {
		if (to_ns < 0) {
			if (more_stimuli()) {
				wait_done++;
				apply_stimuli();
				wait_done--;
				r = poll(pfds, n, 0);
			}
			if (r == 0)
				finish("BLOCKED");
		} else {
			vclock += to_ns;
			r = poll(pfds, n, 0);
		}
	}
	wait_done++;
	logf_("WRET ev=");
	for (i = 0; i < n; i++) {
		char nb[16];
		const char *nm;
		if (!pfds[i].revents)
			continue;
		nm = name_of_slot(pfds, i, nb);
		logf_("%s%s:%s%s%s%s", first ? "" : ",", nm ? nm : "?", (pfds[i].revents & POLLIN) ? "i" : "", (pfds[i].revents & POLLOUT) ? "o" : "",
		      (pfds[i].revents & POLLERR) ? "e" : "", (pfds[i].revents & (POLLHUP | POLLNVAL)) ? "h" : "");
		first = 0;
	}
	logf_("\n");
	return r;
}

int __wrap_ppoll(struct pollfd *pfds, nfds_t n, const struct timespec *to, const sigset_t *ss)
{
	long long ns = to ? to->tv_sec * 1000000000LL + to->tv_nsec : -1;
	(void)ss;
	return do_poll("ppoll", pfds, n, ns, 0, ns);
}

int __wrap_poll(struct pollfd *pfds, nfds_t n, int to_ms)
{
	if (!in_library || n == 1 && to_ms == 0 && pfds != the_state()->u.poll.pfds) {
		/* iv_fd_poll_notify_fd_sync's probe; `cfg probe-eintr=k`: the k-th probe is interrupted by a signal once */
		if (in_library && cfg_probe_eintr > 0 && ++probe_calls == cfg_probe_eintr) {
			logf_("PROBE-EINTR\n");
			errno = EINTR;
			return -1;
		}
		return poll(pfds, n, to_ms);
	}
	return do_poll("poll", pfds, n, to_ms < 0 ? -1 : (long long)to_ms * 1000000LL, 1, to_ms);
}

/* ------------------------------------------------------------------ resource ledger (C18) */
#include <dirent.h>
extern size_t __sanitizer_get_current_allocated_bytes(void);
extern int __lsan_do_recoverable_leak_check(void);
static void ledger(const char *tag)
{
	DIR *d = opendir("/proc/self/fd");
	struct dirent *de;
	int n = 0;
	if (d != NULL) {
		while ((de = readdir(d)) != NULL)
			if (de->d_name[0] != '.')
				n++;
		closedir(d);
		n--;	/* the directory handle itself */
	}
	logf_("%s fds=%d heap=%zu timerfd=%d leaks=%d\n", tag, n, __sanitizer_get_current_allocated_bytes(), ktimer_fd >= 0,
	      !strcmp(tag, "LEDGER") ? __lsan_do_recoverable_leak_check() : 0);
}

/* ------------------------------------------------------------------ scenario */
extern void __sanitizer_set_death_callback(void (*cb)(void));
static void flush_on_death(void) { fflush(stdout); }

static void verif_watchdog(int cpu_s, int wall_s)
{
	/* a library call that spins is cut by the CPU-time limit (independent of how loaded the machine is); one that sleeps for
	 * ever by the generous wall-clock limit */
	struct itimerval it = { { 0, 0 }, { cpu_s, 0 } };
	setitimer(ITIMER_PROF, &it, NULL);
	alarm(wall_s);
}

int main(int argc, char **argv)
{
	static char line[MAXLINE];
	FILE *f = argc > 1 ? fopen(argv[1], "r") : stdin;
	int inited = 0;
	const char *excl = NULL;
	static char exclbuf[256];

	if (f == NULL) { perror("scenario"); return 2; }
	setvbuf(stdout, NULL, _IOLBF, 0);
	__sanitizer_set_death_callback(flush_on_death);
	signal(SIGPIPE, SIG_IGN);
	verif_watchdog(6, 40);
	iv_set_fatal_msg_handler(fatal_handler);

	while (fgets(line, sizeof(line), f) != NULL) {
		char *save = NULL;
		char work[MAXLINE];
		char *op;

		strcpy(work, line);
		op = strtok_r(work, " \t\n", &save);
		if (op == NULL || op[0] == '#')
			continue;
		if (!strcmp(op, "exclude")) {
			char *rest = save;
			while (*rest == ' ') rest++;
			snprintf(exclbuf, sizeof(exclbuf), "%s", rest);
			exclbuf[strcspn(exclbuf, "\n")] = 0;
			excl = exclbuf;
			continue;
		}
		if (!strcmp(op, "cfg")) {
			char *c;
			while ((c = strtok_r(NULL, " \t\n", &save)) != NULL) {
				if (!strcmp(c, "nopwait2")) cfg_nopwait2 = 1;
				else if (!strcmp(c, "pwait2eperm")) cfg_nopwait2 = 2;
				else if (!strcmp(c, "notimerfd")) cfg_notimerfd = 1;
				else if (!strcmp(c, "noppoll")) cfg_noppoll = 1;
				else if (!strcmp(c, "noeventfd2")) cfg_noeventfd2 = 1;
				else if (!strcmp(c, "noeventfd")) cfg_noeventfd = 1;
				else if (!strcmp(c, "noepollcreate1")) cfg_noepollcreate1 = 1;
				else if (!strcmp(c, "noepoll")) cfg_noepoll = 1;
				else if (!strcmp(c, "eventfd-emfile")) fail_eventfd_errno = EMFILE;
				else if (!strcmp(c, "pipe-emfile")) fail_pipe = 1;
				else if (!strncmp(c, "eintr=", 6)) { if (neintr < 64) eintr_at[neintr++] = atoi(c + 6); }
				else if (!strncmp(c, "fill=", 5)) cfg_fill = atoi(c + 5) & 0xff;
				else if (!strncmp(c, "probe-eintr=", 12)) cfg_probe_eintr = atoi(c + 12);
				else if (!strncmp(c, "epoch0=", 7)) cfg_epoch0 = atoll(c + 7);
				else if (!strncmp(c, "waitlimit=", 10)) wait_limit = atoi(c + 10);
				else if (!strncmp(c, "cblimit=", 8)) cb_limit = atoi(c + 8);
				else { logf_("HARNESS-ERROR cfg %s\n", c); finish(NULL); }
			}
			continue;
		}
		if (!inited) {
			if (excl != NULL) setenv("IV_EXCLUDE_POLL_METHOD", excl, 1);
			else unsetenv("IV_EXCLUDE_POLL_METHOD");
			in_library = 1;
			iv_init();
			if (cfg_epoch0 >= 0) iv_get_state()->task_epoch = (uint32_t)cfg_epoch0;	/* a loop that has been running for that many rounds */
			inited = 1;
			logf_("CFG method=%s timerfd=%d pwait2=%d\n", iv_poll_method_name(), !cfg_notimerfd, 1);
		}
		if (!strcmp(op, "obj")) {
			char *kind = strtok_r(NULL, " \t\n", &save);
			char *name = strtok_r(NULL, " \t\n", &save);
			char *arg = strtok_r(NULL, " \t\n", &save);
			int i = atoi(name + 1) % MAXO;
			if (!strcmp(kind, "fd")) mk_fd(i, arg ? arg : "sock");
			else if (!strcmp(kind, "timer")) {
				T[i].exists = 1; T[i].o = umalloc(sizeof(struct iv_timer)); IV_TIMER_INIT(T[i].o);
				T[i].o->cookie = (void *)(long)(0x20000 + i); T[i].o->handler = h_timer;
			} else if (!strcmp(kind, "task")) {
				K[i].exists = 1; K[i].o = umalloc(sizeof(struct iv_task)); IV_TASK_INIT(K[i].o);
				K[i].o->cookie = (void *)(long)(0x30000 + i); K[i].o->handler = h_task;
			} else if (!strcmp(kind, "event")) {
				E[i].exists = 1; E[i].o = umalloc(sizeof(struct iv_event)); IV_EVENT_INIT(E[i].o);
				E[i].o->cookie = (void *)(long)(0x40000 + i); E[i].o->handler = h_event;
			} else if (!strcmp(kind, "raw")) {
				R[i].exists = 1; R[i].o = umalloc(sizeof(struct iv_event_raw)); IV_EVENT_RAW_INIT(R[i].o);
				R[i].o->cookie = (void *)(long)(0x50000 + i); R[i].o->handler = h_raw;
			}
		} else if (!strcmp(op, "do")) {
			char *rest = save;
			run_actions(rest);
		} else if (!strcmp(op, "on")) {
			/* on <obj>[.band] <nth|*> : actions */
			char *who = strtok_r(NULL, " \t\n", &save);
			char *nth = strtok_r(NULL, " \t\n", &save);
			char *colon = strchr(save, ':');
			char *dot = strchr(who, '.');
			struct react *r = &RE[nre++];
			r->kind = who[0];
			r->id = atoi(who + 1) % MAXO;
			r->band = 0;
			if (dot != NULL) r->band = !strcmp(dot + 1, "err") ? 0 : !strcmp(dot + 1, "in") ? 1 : 2;
			r->nth = nth[0] == '*' ? 0 : atoi(nth);
			r->actions = strdup(colon ? colon + 1 : "");
		} else if (!strcmp(op, "at")) {
			char *wn = strtok_r(NULL, " \t\n", &save);
			char *colon = strchr(save, ':');
			ST[nst].waitno = atoi(wn);
			ST[nst].actions = strdup(colon ? colon + 1 : "");
			nst++;
		} else if (!strcmp(op, "main")) {
			logf_("API main\n");
			iv_main();
			logf_("MAINRET\n");
		} else if (!strcmp(op, "cycle")) {
			/* tear the loop down and bring it up again; everything must be unregistered (the scenario's job) */
			int i, busy = 0;
			for (i = 0; i < MAXO; i++) {
				busy |= F[i].exists == 1 && iv_fd_registered(F[i].o);

				busy |= K[i].exists == 1 && iv_task_registered(K[i].o);
				busy |= E[i].exists == 1 && E[i].isreg;
				busy |= R[i].exists == 1 && R[i].isreg;
			}
			/* timers may stay registered across iv_deinit (nothing the library holds refers to them afterwards, and whatever the
			 * timer store allocated for them must be released by the tear-down): their structs are re-initialised below */
			if (busy) {
				logf_("CYCLE-SKIPPED objects still registered\n");
			} else {
				ledger("LEDGER-LIVE");
				iv_deinit();
				ledger("LEDGER");
				for (i = 0; i < MAXTM; i++)
					if (T[i].exists == 1)
						IV_TIMER_INIT(T[i].o);
				memset(kint_present, 0, sizeof(kint_present));
				ktimer_fd = -1;
				ktimer_armed = 0;
				iv_init();
				if (cfg_epoch0 >= 0) iv_get_state()->task_epoch = (uint32_t)cfg_epoch0;
				logf_("CFG method=%s timerfd=%d pwait2=%d\n", iv_poll_method_name(), !cfg_notimerfd, 1);
			}
		} else {
			logf_("HARNESS-ERROR unknown line %s\n", op);
			finish(NULL);
		}
	}
	finish("EOF");
	return 0;
}
