/* D10: a work pool released (iv_work_pool_put) while a continuation submitted by a worker of ANOTHER pool is queued and the pool has
 * no thread left is freed with the item still queued: the item never runs.  Public API only; takes ~13 s (10 s idle timeout). */
#include <stdio.h>
#include <stdlib.h>
#include <unistd.h>
#include <iv.h>
#include <iv_work.h>
static struct iv_work_pool p0, p1;
static struct iv_work_item x0, x1, x2;
static struct iv_timer t0, watchdog;
static volatile int x2_ran, x2_done, x1_ran;
static void nop_work(void *c) { }
static void nop_done(void *c) { }
static void x2_work(void *c) { x2_ran = 1; }
static void x2_compl(void *c) { x2_done = 1; }
static void x1_work(void *c) { iv_work_pool_submit_continuation(&p1, &x2); x1_ran = 1; }
static void x1_compl(void *c) { iv_work_pool_put(&p0); }
static void t0_handler(void *c)
{
	iv_work_pool_submit_work(&p1, &x0);
	sleep(11);			/* owner busy: x0 completes (ev:p1 pending), p1's worker idles out and exits */
	iv_work_pool_submit_work(&p0, &x1);
	while (!x1_ran) usleep(1000);	/* the continuation into p1 has been submitted */
	iv_work_pool_put(&p1);		/* valid: submission finished before the release */
}
static void wd(void *c) { }
int main(void)
{
	iv_init();
	IV_WORK_POOL_INIT(&p0); p0.max_threads = 2; iv_work_pool_create(&p0);
	IV_WORK_POOL_INIT(&p1); p1.max_threads = 1; iv_work_pool_create(&p1);
	IV_WORK_ITEM_INIT(&x0); x0.work = nop_work; x0.completion = nop_done;
	IV_WORK_ITEM_INIT(&x1); x1.work = x1_work; x1.completion = x1_compl;
	IV_WORK_ITEM_INIT(&x2); x2.work = x2_work; x2.completion = x2_compl;
	IV_TIMER_INIT(&t0); t0.handler = t0_handler; iv_validate_now(); t0.expires = iv_now; iv_timer_register(&t0);
	iv_main();
	printf("iv_main returned: x2 work ran=%d completion ran=%d\n", x2_ran, x2_done);
	iv_deinit();
	if (!x2_ran || !x2_done) { printf("FAIL: item submitted before iv_work_pool_put never ran\n"); return 1; }
	printf("PASS\n");
	return 0;
}
