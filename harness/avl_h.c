/*
 * T-diff harness for /repo/src/iv_avl.c.  Reads the same op lines as the Lean driver
 * (`ivyreplay avl`) on stdin and prints the same result lines.  Also checks, after every
 * operation, what the functional model cannot express: parent pointers, and that
 * iv_avl_tree_min/next and max/prev traverse exactly the in-order sequence.
 */
#include <stdio.h>
#include <sys/time.h>
#include <unistd.h>
#include <stdlib.h>
#include <string.h>
#include <iv_avl.h>

struct n {
	struct iv_avl_node an;
	long key;
};

#define MAXK 60000
static struct n stale = { { NULL, NULL, NULL, 9 }, 424242 };	/* what an uninitialised node's links point at */
static struct n *bykey[2 * MAXK + 1];
static struct iv_avl_tree tree;

static int cmp(const struct iv_avl_node *a, const struct iv_avl_node *b)
{
	long ka = ((const struct n *)a)->key, kb = ((const struct n *)b)->key;
	/* the contract is "negative / zero / positive" (strcmp-like, key differences, ...): magnitudes other than 1 are ordinary */
	if (ka < kb) return -(int)(1 + (kb - ka) % 7);
	if (ka > kb) return (int)(1 + (ka - kb) % 7);
	return 0;
}

static int lo_used = 2 * MAXK + 1, hi_used = -1;
static struct n **slot(long k)
{
	if (k < -MAXK || k > MAXK) { printf("bad-op\n"); exit(3); }
	if (k + MAXK < lo_used) lo_used = (int)(k + MAXK);
	if (k + MAXK > hi_used) hi_used = (int)(k + MAXK);
	return &bykey[k + MAXK];
}

static void dump(struct iv_avl_node *an)
{
	if (an == NULL) { printf("."); return; }
	printf("( ");
	dump(an->left);
	printf(" %ld:%d ", ((struct n *)an)->key, (int)an->height);
	dump(an->right);
	printf(" )");
}

static int nnodes;
static void check_parents(struct iv_avl_node *an, struct iv_avl_node *parent)
{
	if (an == NULL) return;
	nnodes++;
	if (an->parent != parent) { printf("PARENT-MISMATCH at %ld\n", ((struct n *)an)->key); fflush(stdout); exit(4); }
	check_parents(an->left, an);
	check_parents(an->right, an);
}

static void free_tree(void)
{
	int i;
	/* only the slots between the lowest and the highest key seen since the last reset can be in use */
	for (i = lo_used; i <= hi_used; i++) { free(bykey[i]); bykey[i] = NULL; }
	lo_used = 2 * MAXK + 1; hi_used = -1;
	tree.root = NULL;
}

/* parse "( L k:h R )" / "." from strtok stream */
static struct iv_avl_node *parse(struct iv_avl_node *parent)
{
	char *tok = strtok(NULL, " \n");
	struct n *nn;
	long k; int h;
	if (tok == NULL) { printf("bad-op\n"); exit(3); }
	if (!strcmp(tok, ".")) return NULL;
	if (strcmp(tok, "(")) { printf("bad-op\n"); exit(3); }
	nn = calloc(1, sizeof(*nn));
	nn->an.parent = parent;
	nn->an.left = parse(&nn->an);
	tok = strtok(NULL, " \n");
	if (tok == NULL || sscanf(tok, "%ld:%d", &k, &h) != 2) { printf("bad-op\n"); exit(3); }
	nn->key = k;
	nn->an.height = h;
	*slot(k) = nn;
	nn->an.right = parse(&nn->an);
	tok = strtok(NULL, " \n");
	if (tok == NULL || strcmp(tok, ")")) { printf("bad-op\n"); exit(3); }
	return &nn->an;
}

static void verif_watchdog(int cpu_s, int wall_s)
{
	/* a library call that spins is cut by the CPU-time limit (independent of how loaded the machine is); one that sleeps for
	 * ever by the generous wall-clock limit */
	struct itimerval it = { { 0, 0 }, { cpu_s, 0 } };
	setitimer(ITIMER_PROF, &it, NULL);
	alarm(wall_s);
}

int main(void)
{
	static char line[1 << 23];	/* a `load` of a 30 000-node tree is one line */

	tree.compare = cmp;
	tree.root = NULL;
	verif_watchdog(120, 300);
	while (fgets(line, sizeof(line), stdin) != NULL) {
		char *op = strtok(line, " \n");
		if (op == NULL) continue;
		if (!strcmp(op, "reset")) {
			free_tree();
			printf("OK\n");
		} else if (!strcmp(op, "load")) {
			free_tree();
			tree.root = parse(NULL);
			printf("OK\n");
		} else if (!strcmp(op, "ins") || !strcmp(op, "insh")) {
			/* insh <h> <k>: the node object still carries height h (1 = it was a leaf when it was deleted from a tree earlier) */
			int stale_h = !strcmp(op, "insh") ? atoi(strtok(NULL, " \n")) : 77;
			long k = atol(strtok(NULL, " \n"));
			struct n *nn = calloc(1, sizeof(*nn));
			int rc;
			nn->key = k;
			/* the API takes an uninitialised node (e.g. one that was deleted from a tree earlier and still carries its old links):
			 * every link field holds garbage that insert must overwrite — a valid but foreign node, so that a dump or a
			 * traversal that follows a forgotten link shows up as extra keys instead of crashing */
			nn->an.left = nn->an.right = nn->an.parent = &stale.an;
			nn->an.height = stale_h;
			rc = iv_avl_tree_insert(&tree, &nn->an);
			if (rc == 0) *slot(k) = nn; else free(nn);
			printf("RES %d DUMP ", rc);
			dump(tree.root);
			printf("\n");
		} else if (!strcmp(op, "reins")) {
			/* the node object that is already linked in the tree is passed to insert again: its key is present, so the call must
			 * fail and change nothing (in particular not the object's own links) */
			long k = atol(strtok(NULL, " \n"));
			struct n *nn = *slot(k);
			int rc;
			if (nn == NULL) { printf("bad-op\n"); exit(3); }
			rc = iv_avl_tree_insert(&tree, &nn->an);
			printf("RES %d DUMP ", rc);
			dump(tree.root);
			printf("\n");
		} else if (!strcmp(op, "del")) {
			long k = atol(strtok(NULL, " \n"));
			struct n *nn = *slot(k);
			if (nn == NULL) { printf("bad-op\n"); exit(3); }
			iv_avl_tree_delete(&tree, &nn->an);
			*slot(k) = NULL;
			free(nn);	/* under ASan: any later touch of the deleted node aborts */
			printf("RES ok DUMP ");
			dump(tree.root);
			printf("\n");
		} else if (!strcmp(op, "trav")) {
			struct iv_avl_node *an;
			int c = 0, lim;
			/* a traversal of n nodes that takes more than n steps does not terminate: cut it and say so */
			nnodes = 0;
			check_parents(tree.root, NULL);
			lim = nnodes + 1;
			printf("TRAV");
			iv_avl_tree_for_each (an, &tree) {
				if (c++ >= lim) { printf(" NONTERMINATING"); break; }
				printf(" %ld", ((struct n *)an)->key);
			}
			printf("\nRTRAV");
			c = 0;
			for (an = iv_avl_tree_max(&tree); an != NULL; an = iv_avl_tree_prev(an)) {
				if (c++ >= lim) { printf(" NONTERMINATING"); break; }
				printf(" %ld", ((struct n *)an)->key);
			}
			printf("\n");
		} else {
			printf("bad-op\n");
		}
		nnodes = 0;
		check_parents(tree.root, NULL);
	}
	free_tree();
	return 0;
}
