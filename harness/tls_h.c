/*
 * T-diff harness for /repo/src/iv_tls.c (white-box #include; iv_fatal and iv_get_state provided here so that
 * no other library module registers itself first).  Op lines on stdin, result lines on stdout:
 *   base <n>            (ignored value: prints BASE <sizeof(struct iv_state)>, resets the registry to its static initial state)
 *   reg <size> <hasInit> <hasDeinit>
 *   total | tinit | tdeinit | ptr <i> | ptr-unreg
 * The hooks record the pointer they were called with (as an offset into a real calloc'ed block of
 * iv_tls_total_state_size() bytes, written to under ASan, so an out-of-bounds region aborts the run).
 */
#include <stdio.h>
#include <sys/time.h>
#include <stdlib.h>
#include <string.h>
#include <unistd.h>
#include <setjmp.h>
#include <stdarg.h>

static jmp_buf fatal_jmp;
static int fatal_armed;
void iv_fatal(const char *fmt, ...) __attribute__((noreturn));
void iv_fatal(const char *fmt, ...)
{
	(void)fmt;
	if (fatal_armed)
		longjmp(fatal_jmp, 1);
	printf("UNEXPECTED-FATAL\n");
	exit(5);
}

#include TLS_SRC

static struct iv_state *cur_st;
pthr_key_t iv_state_key;	/* iv_get_state() reads the thread's block through this key, as in the library */
static void set_st(struct iv_state *st) { cur_st = st; pthr_setspecific(&iv_state_key, st); }

#define MAXU 256
static struct iv_tls_user U[MAXU];
static int nu;
static char outbuf[1 << 16];
static int outlen;

static void rec(void *p)
{
	outlen += snprintf(outbuf + outlen, sizeof(outbuf) - outlen, " %ld", (long)((char *)p - (char *)cur_st));
}
static void h_init(void *p)
{
	int i;
	rec(p);
	/* the region belongs to the module: fill it (ASan checks the bounds of the block) */
	for (i = 0; i < nu; i++)
		if ((char *)cur_st + U[i].state_offset == (char *)p && U[i].init_thread == h_init) {
			memset(p, 0xA0 + (i & 15), U[i].sizeof_state);	/* zero-sized modules share their offset with the next one: no break */
		}
}
static void h_deinit(void *p)
{
	int i;
	rec(p);
	/* whoever owns this region must find its own fill pattern intact (nobody else wrote into it) */
	for (i = 0; i < nu; i++)
		if ((char *)cur_st + U[i].state_offset == (char *)p && U[i].deinit_thread == h_deinit && U[i].init_thread == h_init) {
			size_t k;
			for (k = 0; k < (size_t)U[i].sizeof_state; k++)
				if (((unsigned char *)p)[k] != (unsigned char)(0xA0 + (i & 15))) { printf("REGION-CLOBBERED user %d\n", i); exit(6); }
		}
}

static void verif_watchdog(int cpu_s, int wall_s)
{
	/* a library call that spins is cut by the CPU-time limit (independent of how loaded the machine is); one that sleeps for
	 * ever by the generous wall-clock limit */
	struct itimerval it = { { 0, 0 }, { cpu_s, 0 } };
	setitimer(ITIMER_PROF, &it, NULL);
	alarm(wall_s);
}

int main(void)
{
	static char line[256];

	verif_watchdog(60, 300);
	pthr_key_create(&iv_state_key, NULL);
	while (fgets(line, sizeof(line), stdin) != NULL) {
		char *op = strtok(line, " \n");
		if (op == NULL) continue;
		if (!strcmp(op, "base")) {
			inited = 0;
			last_offset = (sizeof(struct iv_state) + 15) & ~15;
			INIT_IV_LIST_HEAD(&iv_tls_users);
			nu = 0;
			free(cur_st); set_st(NULL);
			printf("BASE %zu\n", sizeof(struct iv_state));
		} else if (!strcmp(op, "reg")) {
			int sz = atoi(strtok(NULL, " \n")), hi = atoi(strtok(NULL, " \n")), hd = atoi(strtok(NULL, " \n"));
			if (nu >= MAXU) { printf("bad-op\n"); continue; }
			memset(&U[nu], 0, sizeof(U[nu]));
			U[nu].sizeof_state = sz;
			U[nu].init_thread = hi ? h_init : NULL;
			U[nu].deinit_thread = hd ? h_deinit : NULL;
			fatal_armed = 1;
			if (setjmp(fatal_jmp) == 0) {
				iv_tls_user_register(&U[nu]);
				printf("REG %d\n", (int)U[nu].state_offset);
				nu++;
			} else {
				printf("FATAL\n");
			}
			fatal_armed = 0;
		} else if (!strcmp(op, "total")) {
			printf("TOTAL %d\n", iv_tls_total_state_size());
		} else if (!strcmp(op, "tinit")) {
			free(cur_st);
			set_st(calloc(1, iv_tls_total_state_size()));	/* what iv_init does */
			outlen = 0; outbuf[0] = 0;
			iv_tls_thread_init(cur_st);
			printf("INIT%s\n", outlen ? outbuf : " ");
		} else if (!strcmp(op, "tdeinit")) {
			if (cur_st == NULL) { printf("bad-op\n"); continue; }
			outlen = 0; outbuf[0] = 0;
			iv_tls_thread_deinit(cur_st);
			printf("DEINIT%s\n", outlen ? outbuf : " ");
		} else if (!strcmp(op, "ptr") || !strcmp(op, "ptr-unreg")) {
			static struct iv_tls_user stranger;
			struct iv_tls_user *u = &stranger;
			if (!strcmp(op, "ptr")) {
				int i = atoi(strtok(NULL, " \n"));
				if (i < 0 || i >= nu) { printf("bad-op\n"); continue; }
				u = &U[i];
			}
			if (cur_st == NULL) { printf("bad-op\n"); continue; }
			fatal_armed = 1;
			if (setjmp(fatal_jmp) == 0)
				printf("PTR %ld\n", (long)((char *)iv_tls_user_ptr(u) - (char *)cur_st));
			else
				printf("FATAL\n");
			fatal_armed = 0;
		} else {
			printf("bad-op\n");
		}
	}
	free(cur_st);
	return 0;
}
