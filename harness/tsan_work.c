/* C14 / ThreadSanitizer program 3: iv_work pools with continuations submitted from pool threads, and pool
 * shutdown.   usage: tsan_work <seed> <owner threads> <ms>
 *
 * Each owner thread runs rounds until the time is up.  A round: create a pool (1..3 threads), submit a batch
 * of work items from the owner; a work function (running in a pool thread) burns a little time and sometimes
 * submits a CONTINUATION item to the same pool from the pool thread; completions run in the owner, which
 * submits more work until the round's budget is used; when nothing is outstanding the owner calls
 * iv_work_pool_put() and iv_main() returns once the pool threads have died and the pool has freed itself.
 * Some rounds use the thread-less variant (pool == NULL).
 * Valid use: a continuation is counted as outstanding BEFORE the work function that submits it returns, so the
 * pool is never put while a work function can still submit; work is submitted only by the pool's owner.
 */
#include <iv.h>
#include <iv_work.h>
#include "tsan_util.h"

#define MAXITEMS 256

struct round;
struct item {
	struct iv_work_item wi;
	struct round *r;
	int is_cont;
	volatile unsigned sink;
};

struct round {
	struct owner *o;
	struct iv_work_pool pool;
	int use_pool;
	struct item items[MAXITEMS];
	atomic_int next_item;		/* allocation index (owner and pool threads) */
	atomic_int outstanding;		/* submitted, completion not yet run */
	int budget;			/* owner only: items the owner still wants to submit */
	int put_done;			/* owner only */
	uint64_t seed;
};

struct owner {
	int idx;
	pthread_t tid;
	uint64_t rng;
	struct round r;
	long rounds, done, conts;
};

static struct owner O[MAXT];
static atomic_int stop_all, thr_started, thr_stopped;
static atomic_long cont_total;

static void on_start(void *c) { (void)c; atomic_fetch_add(&thr_started, 1); }
static void on_stop(void *c) { (void)c; atomic_fetch_add(&thr_stopped, 1); }

static void work_fn(void *_it);
static void done_fn(void *_it);

static struct item *alloc_item(struct round *r, int is_cont)
{
	int i = atomic_fetch_add(&r->next_item, 1);
	struct item *it;

	if (i >= MAXITEMS)
		return NULL;
	it = &r->items[i];
	IV_WORK_ITEM_INIT(&it->wi);
	it->wi.cookie = it;
	it->wi.work = work_fn;
	it->wi.completion = done_fn;
	it->r = r;
	it->is_cont = is_cont;
	return it;
}

static void work_fn(void *_it)
{
	struct item *it = _it;
	struct round *r = it->r;
	uint64_t s = r->seed + (uint64_t)(it - r->items) * 7919;
	unsigned n = tsu_rand(&s) % 400, k;

	for (k = 0; k < n; k++)
		it->sink += k;

	/* a pool thread submits a continuation (only meaningful with a real pool) */
	if (r->use_pool && !it->is_cont && tsu_rand(&s) % 3 == 0) {
		struct item *c = alloc_item(r, 1);

		if (c != NULL) {
			atomic_fetch_add(&r->outstanding, 1);
			atomic_fetch_add(&cont_total, 1);
			iv_work_pool_submit_continuation(&r->pool, &c->wi);
		}
	}
}

static void owner_submit(struct round *r)
{
	struct owner *o = r->o;

	while (r->budget > 0 && atomic_load(&r->outstanding) < 8) {
		struct item *it = alloc_item(r, 0);

		if (it == NULL) {
			r->budget = 0;
			break;
		}
		r->budget--;
		atomic_fetch_add(&r->outstanding, 1);
		iv_work_pool_submit_work(r->use_pool ? &r->pool : NULL, &it->wi);
		if (tsu_rand(&o->rng) % 4 == 0)
			break;
	}
}

static void done_fn(void *_it)
{
	struct item *it = _it;
	struct round *r = it->r;

	r->o->done++;
	atomic_fetch_sub(&r->outstanding, 1);
	owner_submit(r);
	if (r->budget == 0 && atomic_load(&r->outstanding) == 0 && !r->put_done) {
		r->put_done = 1;
		if (r->use_pool)
			iv_work_pool_put(&r->pool);
	}
}

static void *owner_main(void *_o)
{
	struct owner *o = _o;

	if (o->idx != 0)
		iv_init();

	while (!atomic_load(&stop_all)) {
		struct round *r = &o->r;

		memset(r, 0, sizeof(*r));
		r->o = o;
		r->seed = tsu_rand(&o->rng);
		r->use_pool = tsu_rand(&o->rng) % 5 != 0;
		r->budget = 4 + tsu_rand(&o->rng) % 40;
		if (r->use_pool) {
			IV_WORK_POOL_INIT(&r->pool);
			r->pool.max_threads = 1 + tsu_rand(&o->rng) % 3;
			r->pool.cookie = r;
			r->pool.thread_start = (tsu_rand(&o->rng) & 1) ? on_start : NULL;
			r->pool.thread_stop = r->pool.thread_start ? on_stop : NULL;
			if (iv_work_pool_create(&r->pool) < 0)
				abort();
		}
		owner_submit(r);
		iv_main();		/* returns when the pool has torn itself down / local work is done */
		o->rounds++;
	}

	iv_deinit();
	return NULL;
}

static void *stopper(void *x)
{
	(void)x;
	tsu_sleep_us(g_dur_ms * 1000);
	atomic_store(&stop_all, 1);
	return NULL;
}

int main(int argc, char **argv)
{
	pthread_t st;
	int i;
	long rounds = 0, done = 0;

	tsu_args(argc, argv, 2, 800);
	iv_init();
	for (i = 0; i < g_nthr; i++) {
		O[i].idx = i;
		O[i].rng = tsu_seed(i);
	}
	pthread_create(&st, NULL, stopper, NULL);
	for (i = 1; i < g_nthr; i++)
		pthread_create(&O[i].tid, NULL, owner_main, &O[i]);
	owner_main(&O[0]);
	for (i = 1; i < g_nthr; i++)
		pthread_join(O[i].tid, NULL);
	pthread_join(st, NULL);

	for (i = 0; i < g_nthr; i++) {
		rounds += O[i].rounds; done += O[i].done;
	}
	printf("STATS prog=work owners=%d rounds=%ld completions=%ld continuations=%ld pool_threads_started=%d stopped=%d\n",
	       g_nthr, rounds, done, atomic_load(&cont_total), atomic_load(&thr_started), atomic_load(&thr_stopped));
	return 0;
}
