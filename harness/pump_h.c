/*
 * T-replay harness for /repo/src/iv_fd_pump.c.  The source file is included white-box with
 * read/write/splice/ioctl/shutdown redirected to scripted virtual versions, so every
 * partial count, EAGAIN, EINTR, EOF and error can be injected at any point, in both
 * transfer modes; malloc/free/pipe2/close are counted (and passed through), so the per-thread
 * buffer cache is observable.  Writes a log (see /verif/lean/Ivy/Drv/Pump.lean) on stdout.
 *
 * Several pumps live at the same time on the one thread (slots 0..MAXSLOT-1):
 *
 *   new <slot> <0|1|probe-ok|probe-fail> <relay 0|1>      (old form "new <mode> <relay>" = slot 0)
 *   pump <slot> R <ev>... W <ev>... F <v>...               R: d<n> a i e x   W: n<k> a i x z   F: fionread values
 *   destroy <slot>                                         (old forms "pump R ..." / "destroy" = slot 0)
 *   deinit-purge                                           the thread-deinit hook (buf_purge) without ending the run
 *
 * The buffer cache is NOT purged between pumps: what one pump leaves in the cache is what the next
 * one gets.  Only when a `new` asks for another transfer mode than the current value of
 * splice_available (cached buffers of the other kind would be a harness artefact) all live pumps are
 * destroyed and the cache is purged first; this is logged (DESTROY.., PURGE, MODE).
 *
 * Every slot has its own source stream; byte values depend on the pump's serial number, so bytes of
 * one stream showing up in another are visible in both modes.  In splice mode the content of every
 * REAL pipe the code creates is tracked, keyed by the pipe's inode (fstat on whichever end is used):
 * splice-in appends to the pipe the pump actually holds, splice-out delivers from the head of that
 * pipe, whatever put those bytes there.  `CONTENT bad` = the bytes delivered to a sink are not the
 * next bytes of that slot's own source.
 */
#include <stdio.h>
#include <sys/time.h>
#include <stdlib.h>
#include <string.h>
#include <errno.h>
#include <fcntl.h>
#include <unistd.h>
#include <signal.h>
#include <pthread.h>
#include <sys/ioctl.h>
#include <sys/socket.h>
#include <sys/stat.h>
#include <sys/syscall.h>
#include <iv.h>
#include <iv_fd_pump.h>
#include <iv_list.h>
#include <iv_tls.h>

#define MAXSLOT 32
#define FROM_FD(s) (1000 + 2 * (s))
#define TO_FD(s)   (1001 + 2 * (s))

static ssize_t v_read(int fd, void *buf, size_t count);
static ssize_t v_write(int fd, const void *buf, size_t count);
static ssize_t v_splice(int fdin, void *offin, int fdout, void *offout, size_t len, unsigned int flags);
static int v_ioctl(int fd, unsigned long req, int *arg);
static int v_shutdown(int fd, int how);
static void *v_malloc(size_t n);
static void v_free(void *p);
static int v_close(int fd);
static long v_syscall(long nr, int *fd, int flags);
static int v_pipe(int *fd);

#define read v_read
#define write v_write
#define splice v_splice
#define ioctl v_ioctl
#define shutdown v_shutdown
#define malloc v_malloc
#define free v_free
#define close v_close
#define syscall v_syscall
#define pipe v_pipe
#include PUMP_SRC
#undef read
#undef write
#undef splice
#undef ioctl
#undef shutdown
#undef malloc
#undef free
#undef close
#undef syscall
#undef pipe

struct slot {
	struct iv_fd_pump pump;
	int live, broken;
	unsigned long uid;		/* serial number of the pump: selects the byte values of its stream */
	unsigned long src_pos, sink_pos;	/* bytes taken from the source / given to the sink */
};
static struct slot slots[MAXSLOT];
static int cur = -1;			/* slot whose pump call is running */
static unsigned long next_uid = 1;

#define MAXQ 64
static char rq[MAXQ][16], wq[MAXQ][16];
static long fq[MAXQ];
static int rqn, rqi, wqn, wqi, fqn, fqi;
static int probe_result;	/* 1: probe says splice works */

static long n_alloc, n_free;	/* malloc/free calls made by iv_fd_pump.c */
static long fds_open;		/* pipe descriptors created by iv_fd_pump.c and not yet closed */

/* content of the real pipes */
#define MAXPIPE 256
struct vpipe {
	int used, ends;
	ino_t ino;
	unsigned char *data;
	size_t head, len, cap;
};
static struct vpipe pipes[MAXPIPE];

static unsigned char src_byte(unsigned long uid, unsigned long i)
{
	return (unsigned char)(((i + uid * 1000003UL) * 2654435761UL) >> 13);
}

static struct vpipe *pipe_of(int fd)
{
	struct stat st;
	int i;
	if (fd < 0 || fd >= 1000 || fstat(fd, &st) < 0 || !S_ISFIFO(st.st_mode))
		return NULL;
	for (i = 0; i < MAXPIPE; i++)
		if (pipes[i].used && pipes[i].ino == st.st_ino)
			return &pipes[i];
	return NULL;
}

static void pipe_register(int *fd)
{
	struct stat st;
	int i;
	fds_open += 2;
	if (fstat(fd[0], &st) < 0)
		return;
	for (i = 0; i < MAXPIPE; i++)
		if (!pipes[i].used) {
			memset(&pipes[i], 0, sizeof(pipes[i]));
			pipes[i].used = 1;
			pipes[i].ends = 2;
			pipes[i].ino = st.st_ino;
			return;
		}
	printf("HARNESS pipe table full\n");
}

static void pipe_append(struct vpipe *p, unsigned long uid, unsigned long pos, size_t n)
{
	size_t i;
	if (p->head + p->len + n > p->cap) {
		if (p->len > 0)
			memmove(p->data, p->data + p->head, p->len);
		p->head = 0;
		if (p->len + n > p->cap) {
			p->cap = (p->len + n) * 2 + 64;
			p->data = realloc(p->data, p->cap);
		}
	}
	for (i = 0; i < n; i++)
		p->data[p->head + p->len + i] = src_byte(uid, pos + i);
	p->len += n;
}

static long v_syscall(long nr, int *fd, int flags)
{
	int r;
	if (nr != __NR_pipe2) { printf("HARNESS unexpected syscall %ld\n", nr); errno = ENOSYS; return -1; }
	r = pipe2(fd, flags);
	if (r == 0)
		pipe_register(fd);
	return r;
}

static int v_pipe(int *fd)
{
	int r = pipe(fd);
	if (r == 0)
		pipe_register(fd);
	return r;
}

static int v_close(int fd)
{
	struct vpipe *p = pipe_of(fd);
	int r;
	if (p != NULL && --p->ends == 0) {
		free(p->data);
		p->used = 0;
	}
	r = close(fd);
	if (r == 0)
		fds_open--;
	else
		printf("BADFD close %d\n", fd);
	return r;
}

static void *v_malloc(size_t n)
{
	void *p = malloc(n);
	if (p != NULL) {
		memset(p, 0xa5, n);	/* whatever the allocator left there */
		n_alloc++;
	}
	return p;
}

static void v_free(void *p)
{
	if (p != NULL)
		n_free++;
	free(p);
}

static int in_result(size_t count, size_t *n)
{
	const char *e = (rqi < rqn) ? rq[rqi++] : "a";
	printf("OUT read %zu\n", count);
	switch (e[0]) {
	case 'd':
		*n = strtoul(e + 1, NULL, 10);
		if (*n < 1) *n = 1;
		if (*n > count) *n = count;
		printf("EV rd data %zu\n", *n);
		return 0;
	case 'e': printf("EV rd eof\n"); *n = 0; return 0;
	case 'i': printf("EV rd eintr\n"); errno = EINTR; return -1;
	case 'x': printf("EV rd err\n"); errno = ECONNRESET; return -1;
	default: printf("EV rd eagain\n"); errno = EAGAIN; return -1;
	}
}

/* avail: what a successful call can deliver at most (splice mode: what the pipe holds) */
static int out_result(size_t count, size_t avail, size_t *n)
{
	const char *e = (wqi < wqn) ? wq[wqi++] : "a";
	printf("OUT write %zu\n", count);
	switch (e[0]) {
	case 'n':
		*n = strtoul(e + 1, NULL, 10);
		if (*n < 1) *n = 1;
		if (*n > count) *n = count;
		if (avail == 0) {
			/* splice(pipe -> fd) without SPLICE_F_NONBLOCK on an empty pipe whose write end the caller holds */
			printf("HANG splice from an empty pipe\n");
			printf("EV wr eagain\n");
			errno = EAGAIN;
			return -1;
		}
		if (*n > avail) *n = avail;
		printf("EV wr n %zu\n", *n);
		return 0;
	case 'z': printf("EV wr zero\n"); *n = 0; return 0;
	case 'i': printf("EV wr eintr\n"); errno = EINTR; return -1;
	case 'x': printf("EV wr err\n"); errno = EPIPE; return -1;
	default: printf("EV wr eagain\n"); errno = EAGAIN; return -1;
	}
}

static ssize_t v_read(int fd, void *buf, size_t count)
{
	size_t n, i;
	struct slot *s;
	if (cur < 0 || fd != FROM_FD(cur)) { printf("BADFD read %d\n", fd); errno = EBADF; return -1; }
	s = &slots[cur];
	if (in_result(count, &n) < 0)
		return -1;
	for (i = 0; i < n; i++)
		((unsigned char *)buf)[i] = src_byte(s->uid, s->src_pos + i);
	s->src_pos += n;
	return n;
}

static ssize_t v_write(int fd, const void *buf, size_t count)
{
	size_t n, i;
	int bad = 0;
	struct slot *s;
	if (cur < 0 || fd != TO_FD(cur)) { printf("BADFD write %d\n", fd); errno = EBADF; return -1; }
	s = &slots[cur];
	/* the bytes offered must be the next bytes of this slot's own stream, whatever the result will be */
	for (i = 0; i < count; i++)
		if (((const unsigned char *)buf)[i] != src_byte(s->uid, s->sink_pos + i)) { bad = 1; break; }
	if (s->sink_pos + count > s->src_pos) bad = 1;
	if (out_result(count, count, &n) < 0)
		return -1;
	if (n > 0)
		printf("CONTENT %s\n", bad ? "bad" : "ok");
	s->sink_pos += n;
	return n;
}

static ssize_t v_splice(int fdin, void *offin, int fdout, void *offout, size_t len, unsigned int flags)
{
	size_t n, i;
	struct slot *s;
	struct vpipe *p;
	(void)offin; (void)offout; (void)flags;
	if (fdin < 1000 && fdout < 1000) {
		/* the availability probe: pipe to pipe */
		if (probe_result) { errno = EAGAIN; return -1; }
		errno = EINVAL;
		return -1;
	}
	if (cur >= 0 && fdin == FROM_FD(cur)) {
		s = &slots[cur];
		p = pipe_of(fdout);
		if (p == NULL) { printf("BADFD splice-in to %d\n", fdout); errno = EBADF; return -1; }
		if (in_result(len, &n) < 0) {
			/* ground truth for the band oracle, whether or not the code asks (FIONREAD): the splice refused although the pipe
			 * holds data; the script's next FIONREAD answer says how much input is pending, and pending input means the
			 * refusal was for lack of pipe space (a pipe has 16 slots, however few bytes each holds) */
			if (errno == EAGAIN && p->len > 0) {
				long v = (fqi < fqn) ? fq[fqi] : 0;
				if (v != -999)
					printf("TRUTH pending %ld\n", v);
			}
			return -1;
		}
		pipe_append(p, s->uid, s->src_pos, n);
		s->src_pos += n;
		return n;
	}
	if (cur >= 0 && fdout == TO_FD(cur)) {
		int bad;
		const char *why = "";
		s = &slots[cur];
		p = pipe_of(fdin);
		if (p == NULL) { printf("BADFD splice-out from %d\n", fdin); errno = EBADF; return -1; }
		bad = 0;
		if (len != p->len) { bad = 1; why = " pipe-holds-other-amount-than-the-pump-accounts-for"; }
		if (out_result(len, p->len, &n) < 0)
			return -1;
		if (n > 0) {
			for (i = 0; i < n; i++)
				if (p->data[p->head + i] != src_byte(s->uid, s->sink_pos + i)) { bad = 1; why = " foreign-or-reordered-bytes"; break; }
			if (s->sink_pos + n > s->src_pos) { bad = 1; why = " more-delivered-than-read"; }
			printf("CONTENT %s%s\n", bad ? "bad" : "ok", why);
		}
		p->head += n;
		p->len -= n;
		s->sink_pos += n;
		return n;
	}
	printf("BADFD splice %d %d\n", fdin, fdout);
	errno = EBADF;
	return -1;
}

static int v_ioctl(int fd, unsigned long req, int *arg)
{
	long v = (fqi < fqn) ? fq[fqi++] : 0;
	(void)req;
	if (cur < 0 || fd != FROM_FD(cur)) printf("BADFD ioctl %d\n", fd);
	printf("OUT fionread\n");
	if (v == -999) {	/* ioctl fails: *arg untouched (the code preset it to 1) */
		printf("EV fion %d\n", *arg);
		errno = ENOTTY;
		return -1;
	}
	*arg = (int)v;
	printf("EV fion %ld\n", v);
	return 0;
}

static int v_shutdown(int fd, int how)
{
	printf("OUT shutdown%s\n", (cur >= 0 && fd == TO_FD(cur) && how == SHUT_WR) ? "" : " BADARGS");
	return 0;
}

static void set_bands(void *cookie, int pollin, int pollout)
{
	if (cookie != (void *)&slots[cur])
		printf("OUT BADCOOKIE\n");
	printf("OUT setBands %d %d\n", !!pollin, !!pollout);
}

static struct iv_fd_pump_thr_info *tinfo(void)
{
	return iv_tls_user_ptr(&iv_fd_pump_tls_user);
}

/* after every operation: cache length, buffers / pipe descriptors in existence, cumulative malloc/free
 * counts, and (white-box) how many CACHED pipes still hold bytes */
static void stat_line(void)
{
	struct iv_fd_pump_thr_info *t = tinfo();
	struct iv_list_head *lh;
	int dirty = 0;
	if (splice_available) {
		for (lh = t->bufs.next; lh != &t->bufs; lh = lh->next) {
			struct iv_fd_pump_buf *b = iv_container_of(lh, struct iv_fd_pump_buf, list);
			struct vpipe *p = pipe_of(b->u.pfd[0]);
			if (p != NULL && p->len > 0)
				dirty++;
		}
	}
	printf("CACHED %d ALIVE %ld %ld ALLOCS %ld FREES %ld DIRTY %d\n", t->num_bufs, n_alloc - n_free, fds_open, n_alloc, n_free, dirty);
}

static void destroy(int k)
{
	if (slots[k].live) {
		printf("DESTROY %d\n", k);
		cur = k;
		iv_fd_pump_destroy(&slots[k].pump);
		cur = -1;
		printf("ENDDESTROY BUF %d\n", slots[k].pump.buf != NULL);
		slots[k].live = 0;
		stat_line();
	}
}

static void purge(void)
{
	/* the thread-deinit hook */
	iv_fd_pump_tls_deinit_thread(tinfo());
	printf("PURGE\n");
	stat_line();
}

static int is_num(const char *s)
{
	return s != NULL && s[0] >= '0' && s[0] <= '9';
}

static void verif_watchdog(int cpu_s, int wall_s)
{
	/* a library call that spins is cut by the CPU-time limit (independent of how loaded the machine is); one that sleeps for
	 * ever by the generous wall-clock limit */
	struct itimerval it = { { 0, 0 }, { cpu_s, 0 } };
	setitimer(ITIMER_PROF, &it, NULL);
	alarm(wall_s);
}

int main(void)
{
	static char line[8192];
	int k;

	setvbuf(stdout, NULL, _IOFBF, 1 << 16);
	verif_watchdog(120, 300);
	iv_init();
	while (fgets(line, sizeof(line), stdin) != NULL) {
		char *save = NULL;
		char *op = strtok_r(line, " \n", &save);
		if (op == NULL)
			continue;
		if (!strcmp(op, "new")) {
			char *a = strtok_r(NULL, " \n", &save);
			char *b = strtok_r(NULL, " \n", &save);
			char *c = strtok_r(NULL, " \n", &save);
			char *mode;
			int relay, want;
			struct slot *s;
			if (a == NULL || b == NULL) { printf("bad-op\n"); continue; }
			if (c == NULL) { k = 0; mode = a; relay = atoi(b); }	/* old form */
			else { k = atoi(a); mode = b; relay = atoi(c); }
			if (k < 0 || k >= MAXSLOT) { printf("bad-op\n"); continue; }
			destroy(k);
			want = !strcmp(mode, "0") ? 0 : !strcmp(mode, "1") ? 1 : -1;
			if (want == -1 || want != splice_available) {
				int j;
				for (j = 0; j < MAXSLOT; j++)
					destroy(j);
				purge();
				splice_available = want;
				printf("MODE %d\n", want);
			}
			probe_result = !strcmp(mode, "probe-ok");
			s = &slots[k];
			memset(s, 0, sizeof(*s));
			s->uid = next_uid++;
			memset(&s->pump, 0xa5, sizeof(s->pump));	/* the application's struct is full of garbage: only its public members are assigned */
			s->pump.from_fd = FROM_FD(k);
			s->pump.to_fd = TO_FD(k);
			s->pump.cookie = s;
			s->pump.set_bands = set_bands;
			s->pump.flags = relay ? IV_FD_PUMP_FLAG_RELAY_EOF : 0;
			printf("NEW %d relay %d probe %d\n", k, relay, probe_result);
			cur = k;
			IV_FD_PUMP_INIT(&s->pump);
			iv_fd_pump_init(&s->pump);
			cur = -1;
			printf("ENDNEW splice %d\n", splice_available);
			s->live = 1;
			stat_line();
		} else if (!strcmp(op, "pump")) {
			char *tok;
			int which = 0, r, first = 1;
			struct slot *s;
			k = 0;
			rqn = rqi = wqn = wqi = fqn = fqi = 0;
			while ((tok = strtok_r(NULL, " \n", &save)) != NULL) {
				if (first && is_num(tok)) { k = atoi(tok); first = 0; continue; }
				first = 0;
				if (!strcmp(tok, "R")) which = 0;
				else if (!strcmp(tok, "W")) which = 1;
				else if (!strcmp(tok, "F")) which = 2;
				else if (which == 0 && rqn < MAXQ) snprintf(rq[rqn++], 16, "%s", tok);
				else if (which == 1 && wqn < MAXQ) snprintf(wq[wqn++], 16, "%s", tok);
				else if (which == 2 && fqn < MAXQ) fq[fqn++] = atol(tok);
			}
			if (k < 0 || k >= MAXSLOT) { printf("bad-op\n"); continue; }
			s = &slots[k];
			if (!s->live || s->broken) {	/* after -1 the only valid call is destroy */
				printf("SKIP\n");
				continue;
			}
			printf("PUMP %d\n", k);
			cur = k;
			r = iv_fd_pump_pump(&s->pump);
			cur = -1;
			if (r < 0)
				s->broken = 1;
			printf("RET %d BUF %d DONE %d\n", r, s->pump.buf != NULL, iv_fd_pump_is_done(&s->pump));
			stat_line();
		} else if (!strcmp(op, "destroy")) {
			char *a = strtok_r(NULL, " \n", &save);
			k = is_num(a) ? atoi(a) : 0;
			if (k < 0 || k >= MAXSLOT) { printf("bad-op\n"); continue; }
			if (slots[k].live)
				destroy(k);
			else
				printf("SKIP\n");
		} else if (!strcmp(op, "deinit-purge")) {
			purge();
		} else {
			printf("bad-op\n");
		}
	}
	for (k = 0; k < MAXSLOT; k++)
		destroy(k);
	iv_deinit();
	printf("FINAL ALIVE %ld %ld\n", n_alloc - n_free, fds_open);
	fflush(stdout);
	return 0;
}
