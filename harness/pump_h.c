/*
 * T-replay harness for /repo/src/iv_fd_pump.c.  The source file is included white-box with
 * read/write/splice/ioctl/shutdown redirected to scripted virtual versions, so every
 * partial count, EAGAIN, EINTR, EOF and error can be injected at any point, in both
 * transfer modes.  Writes a log (see /verif/lean/Ivy/Drv/Pump.lean) on stdout.
 *
 *   new <0|1|probe-ok|probe-fail> <relay 0|1>
 *   pump R <ev>... W <ev>... F <v>...      R: d<n> a i e x   W: n<k> a i x z   F: fionread values
 *   destroy
 */
#include <stdio.h>
#include <stdlib.h>
#include <string.h>
#include <errno.h>
#include <fcntl.h>
#include <unistd.h>
#include <sys/ioctl.h>
#include <sys/socket.h>
#include <sys/syscall.h>
#include <iv.h>
#include <iv_fd_pump.h>
#include <iv_list.h>
#include <iv_tls.h>

#define FROM_FD 1000
#define TO_FD   1001

static ssize_t v_read(int fd, void *buf, size_t count);
static ssize_t v_write(int fd, const void *buf, size_t count);
static ssize_t v_splice(int fdin, void *offin, int fdout, void *offout, size_t len, unsigned int flags);
static int v_ioctl(int fd, unsigned long req, int *arg);
static int v_shutdown(int fd, int how);

#define read v_read
#define write v_write
#define splice v_splice
#define ioctl v_ioctl
#define shutdown v_shutdown
#include PUMP_SRC
#undef read
#undef write
#undef splice
#undef ioctl
#undef shutdown

#define MAXQ 64
static char rq[MAXQ][16], wq[MAXQ][16];
static long fq[MAXQ];
static int rqn, rqi, wqn, wqi, fqn, fqi;
static int probe_result;	/* 1: probe says splice works */
static unsigned long src_pos, sink_pos;	/* bytes taken from the source / given to the sink */
static unsigned long pipe_in, pipe_out;	/* splice mode: virtual pipe content is source bytes [pipe_out, pipe_in) */

static unsigned char src_byte(unsigned long i)
{
	return (unsigned char)((i * 2654435761UL) >> 13);
}

static int in_result(size_t count, size_t *n)
{
	const char *e = (rqi < rqn) ? rq[rqi++] : "a";
	printf("OUT read %zu\n", count);
	switch (e[0]) {
	case 'd':
		*n = strtoul(e + 1, NULL, 10);
		if (*n < 1) *n = 1;
		if (*n > count) *n = count;
		printf("EV rd data %zu\n", *n);
		return 0;
	case 'e': printf("EV rd eof\n"); *n = 0; return 0;
	case 'i': printf("EV rd eintr\n"); errno = EINTR; return -1;
	case 'x': printf("EV rd err\n"); errno = ECONNRESET; return -1;
	default: printf("EV rd eagain\n"); errno = EAGAIN; return -1;
	}
}

static int out_result(size_t count, size_t *n)
{
	const char *e = (wqi < wqn) ? wq[wqi++] : "a";
	printf("OUT write %zu\n", count);
	switch (e[0]) {
	case 'n':
		*n = strtoul(e + 1, NULL, 10);
		if (*n < 1) *n = 1;
		if (*n > count) *n = count;
		printf("EV wr n %zu\n", *n);
		return 0;
	case 'z': printf("EV wr zero\n"); *n = 0; return 0;
	case 'i': printf("EV wr eintr\n"); errno = EINTR; return -1;
	case 'x': printf("EV wr err\n"); errno = EPIPE; return -1;
	default: printf("EV wr eagain\n"); errno = EAGAIN; return -1;
	}
}

static ssize_t v_read(int fd, void *buf, size_t count)
{
	size_t n, i;
	if (fd != FROM_FD) { printf("BADFD read %d\n", fd); return -1; }
	if (in_result(count, &n) < 0)
		return -1;
	for (i = 0; i < n; i++)
		((unsigned char *)buf)[i] = src_byte(src_pos + i);
	src_pos += n;
	return n;
}

static ssize_t v_write(int fd, const void *buf, size_t count)
{
	size_t n, i;
	int bad = 0;
	if (fd != TO_FD) { printf("BADFD write %d\n", fd); return -1; }
	/* the bytes offered must be the next bytes of the stream, whatever the result will be */
	for (i = 0; i < count; i++)
		if (((const unsigned char *)buf)[i] != src_byte(sink_pos + i)) { bad = 1; break; }
	if (sink_pos + count > src_pos) bad = 1;
	if (out_result(count, &n) < 0)
		return -1;
	printf("CONTENT %s\n", bad ? "bad" : "ok");
	sink_pos += n;
	return n;
}

static ssize_t v_splice(int fdin, void *offin, int fdout, void *offout, size_t len, unsigned int flags)
{
	size_t n;
	if (fdin == FROM_FD) {
		if (in_result(len, &n) < 0)
			return -1;
		src_pos += n;
		pipe_in += n;
		return n;
	}
	if (fdout == TO_FD) {
		int bad = (len != pipe_in - pipe_out) || (pipe_out != sink_pos);
		if (out_result(len, &n) < 0)
			return -1;
		printf("CONTENT %s\n", bad ? "bad" : "ok");
		pipe_out += n;
		sink_pos += n;
		return n;
	}
	/* the availability probe: pipe to pipe */
	if (probe_result) { errno = EAGAIN; return -1; }
	errno = EINVAL;
	return -1;
}

static int v_ioctl(int fd, unsigned long req, int *arg)
{
	long v = (fqi < fqn) ? fq[fqi++] : 0;
	(void)fd; (void)req;
	printf("OUT fionread\n");
	if (v == -999) {	/* ioctl fails: *arg untouched (the code preset it to 1) */
		printf("EV fion %d\n", *arg);
		errno = ENOTTY;
		return -1;
	}
	*arg = (int)v;
	printf("EV fion %ld\n", v);
	return 0;
}

static int v_shutdown(int fd, int how)
{
	printf("OUT shutdown%s\n", (fd == TO_FD && how == SHUT_WR) ? "" : " BADARGS");
	return 0;
}

static void set_bands(void *cookie, int pollin, int pollout)
{
	(void)cookie;
	printf("OUT setBands %d %d\n", !!pollin, !!pollout);
}

static struct iv_fd_pump pump;
static int have_pump;
static int broken;

static void destroy(void)
{
	if (have_pump) {
		printf("DESTROY\n");
		iv_fd_pump_destroy(&pump);
		printf("ENDDESTROY BUF %d\n", pump.buf != NULL);
		have_pump = 0;
	}
}

int main(void)
{
	static char line[8192];

	setvbuf(stdout, NULL, _IOFBF, 1 << 16);
	alarm(60);	/* watchdog: a library call that does not return ends the run with SIGALRM */
	iv_init();
	while (fgets(line, sizeof(line), stdin) != NULL) {
		char *save = NULL;
		char *op = strtok_r(line, " \n", &save);
		if (op == NULL)
			continue;
		if (!strcmp(op, "new")) {
			char *mode = strtok_r(NULL, " \n", &save);
			int relay = atoi(strtok_r(NULL, " \n", &save));
			struct iv_fd_pump_thr_info *tinfo = iv_tls_user_ptr(&iv_fd_pump_tls_user);
			destroy();
			buf_purge(tinfo);	/* cached buffers are of the previous mode's kind */
			if (!strcmp(mode, "0")) splice_available = 0;
			else if (!strcmp(mode, "1")) splice_available = 1;
			else { splice_available = -1; probe_result = !strcmp(mode, "probe-ok"); }
			memset(&pump, 0, sizeof(pump));
			pump.from_fd = FROM_FD;
			pump.to_fd = TO_FD;
			pump.set_bands = set_bands;
			pump.flags = relay ? IV_FD_PUMP_FLAG_RELAY_EOF : 0;
			src_pos = sink_pos = pipe_in = pipe_out = 0;
			printf("NEW relay %d\n", relay);
			IV_FD_PUMP_INIT(&pump);
			iv_fd_pump_init(&pump);
			printf("ENDNEW splice %d\n", splice_available);
			have_pump = 1;
			broken = 0;
		} else if (!strcmp(op, "pump")) {
			char *tok;
			int which = 0, r;
			rqn = rqi = wqn = wqi = fqn = fqi = 0;
			while ((tok = strtok_r(NULL, " \n", &save)) != NULL) {
				if (!strcmp(tok, "R")) which = 0;
				else if (!strcmp(tok, "W")) which = 1;
				else if (!strcmp(tok, "F")) which = 2;
				else if (which == 0 && rqn < MAXQ) snprintf(rq[rqn++], 16, "%s", tok);
				else if (which == 1 && wqn < MAXQ) snprintf(wq[wqn++], 16, "%s", tok);
				else if (which == 2 && fqn < MAXQ) fq[fqn++] = atol(tok);
			}
			if (broken) {	/* after -1 the only valid call is destroy */
				printf("SKIP\n");
				continue;
			}
			printf("PUMP\n");
			r = iv_fd_pump_pump(&pump);
			if (r < 0)
				broken = 1;
			printf("RET %d BUF %d DONE %d\n", r, pump.buf != NULL, iv_fd_pump_is_done(&pump));
		} else if (!strcmp(op, "destroy")) {
			destroy();
		} else {
			printf("bad-op\n");
		}
	}
	destroy();
	{
		struct iv_fd_pump_thr_info *tinfo = iv_tls_user_ptr(&iv_fd_pump_tls_user);
		printf("CACHED %d\n", tinfo->num_bufs);
	}
	iv_deinit();
	fflush(stdout);
	return 0;
}
