/* C14 / ThreadSanitizer program 4: iv_thread create / exit / join churn with iv_init / iv_main /
 * iv_deinit in every thread, plus plain pthreads running independent loops.
 *   usage: tsan_thread <seed> <max live children> <ms> [flags]
 *   flags bit 0: the parent also calls iv_thread_list_children() (undocumented debug helper of iv_thread.h)
 *                right after creating a child
 *   flags bit 1: a child that has created a grandchild calls iv_quit() at once and tears its loop down without waiting for it
 *
 * The main loop creates children from a timer; a child initialises its own loop, runs a timer and a
 * self-posted event, sometimes creates a grandchild (and then keeps running until the grandchild has been
 * joined, because the `dead` event keeps its loop alive), and leaves either through iv_deinit() or by
 * just returning (the TLS destructor then tears the loop down).  Valid use throughout: the first
 * iv_init() is complete before any thread is created.
 */
#include <iv.h>
#include <iv_event.h>
#include <iv_thread.h>
#include "tsan_util.h"

static int g_flags;
static atomic_int live, created, finished, loops;
static atomic_int stop_all;

struct child {
	uint64_t rng;
	int depth;
	struct iv_timer t;
	struct iv_event ev;
	int ev_count;
	int abandon;
};

static void child_main(void *arg);

static void spawn(uint64_t *rng, int depth)
{
	struct child *c = calloc(1, sizeof(*c));
	char name[32];

	c->rng = tsu_rand(rng) * 2654435761ULL + 1;
	c->depth = depth;
	snprintf(name, sizeof(name), "c%d", atomic_fetch_add(&created, 1));
	atomic_fetch_add(&live, 1);
	if (iv_thread_create(name, child_main, c) < 0) {
		atomic_fetch_sub(&live, 1);
		free(c);
		return;
	}
	if (g_flags & 1)
		iv_thread_list_children();
}

static void child_ev(void *_c)
{
	struct child *c = _c;

	if (++c->ev_count < 3)
		iv_event_post(&c->ev);
	else
		iv_event_unregister(&c->ev);
}

static void child_timer(void *_c)
{
	struct child *c = _c;

	if (c->depth < 2 && !atomic_load(&stop_all) && tsu_rand(&c->rng) % 3 == 0 &&
	    atomic_load(&live) < g_nthr) {
		spawn(&c->rng, c->depth + 1);
		if (g_flags & 2) {
			/* flags bit 1: the creator does not wait for the thread it created: it leaves its loop at once (iv_quit) and tears it
			 * down while the new thread is starting, running or exiting */
			c->abandon = 1;
			/* stay busy for a while first (0-4 ms): the new thread may well have exited before this loop is torn down, with its
			 * `dead` event still undelivered */
			tsu_sleep_us((int)(tsu_rand(&c->rng) % 4000));
			iv_quit();
		}
	}
}

static void child_main(void *arg)
{
	struct child *c = arg;
	int leave_by_return;

	iv_init();

	IV_TIMER_INIT(&c->t);
	c->t.cookie = c;
	c->t.handler = child_timer;
	iv_validate_now();
	c->t.expires = iv_now;
	c->t.expires.tv_nsec += (tsu_rand(&c->rng) % 2000) * 1000;
	if (c->t.expires.tv_nsec >= 1000000000) {
		c->t.expires.tv_sec++;
		c->t.expires.tv_nsec -= 1000000000;
	}
	iv_timer_register(&c->t);

	IV_EVENT_INIT(&c->ev);
	c->ev.cookie = c;
	c->ev.handler = child_ev;
	iv_event_register(&c->ev);
	iv_event_post(&c->ev);

	iv_main();

	if (c->abandon && c->ev_count < 3)
		iv_event_unregister(&c->ev);
	leave_by_return = tsu_rand(&c->rng) & 1;
	free(c);
	atomic_fetch_add(&finished, 1);
	atomic_fetch_sub(&live, 1);
	if (!leave_by_return)
		iv_deinit();
}

/* a plain pthread (not an iv_thread) running its own short-lived loops concurrently */
static void nop(void *x) { (void)x; }

static void *plain_loop(void *arg)
{
	uint64_t rng = tsu_seed(100 + (int)(intptr_t)arg);

	while (!atomic_load(&stop_all)) {
		struct iv_timer t;
		struct iv_task k;

		iv_init();
		IV_TIMER_INIT(&t);
		t.handler = nop;
		iv_validate_now();
		t.expires = iv_now;
		t.expires.tv_nsec += (tsu_rand(&rng) % 500) * 1000;
		if (t.expires.tv_nsec >= 1000000000) {
			t.expires.tv_sec++;
			t.expires.tv_nsec -= 1000000000;
		}
		iv_timer_register(&t);
		IV_TASK_INIT(&k);
		k.handler = nop;
		iv_task_register(&k);
		iv_main();
		iv_deinit();
		atomic_fetch_add(&loops, 1);
	}
	return NULL;
}

static struct iv_timer tick, stop;
static uint64_t main_rng;

static void tick_handler(void *x)
{
	(void)x;
	if (atomic_load(&stop_all))
		return;
	while (atomic_load(&live) < g_nthr && tsu_rand(&main_rng) % 4 != 0)
		spawn(&main_rng, 1);
	iv_validate_now();
	tick.expires = iv_now;
	tick.expires.tv_nsec += 300000;
	if (tick.expires.tv_nsec >= 1000000000) {
		tick.expires.tv_sec++;
		tick.expires.tv_nsec -= 1000000000;
	}
	iv_timer_register(&tick);
}

static void stop_handler(void *x)
{
	(void)x;
	atomic_store(&stop_all, 1);
	if (iv_timer_registered(&tick))
		iv_timer_unregister(&tick);
	/* iv_main() returns once every child has been joined (their `dead` events keep it alive) */
}

int main(int argc, char **argv)
{
	pthread_t plain[2];
	int i;

	tsu_args(argc, argv, 4, 800);
	g_flags = argc > 4 ? atoi(argv[4]) : 0;
	main_rng = tsu_seed(0);

	iv_init();

	for (i = 0; i < 2; i++)
		pthread_create(&plain[i], NULL, plain_loop, (void *)(intptr_t)i);

	IV_TIMER_INIT(&tick);
	tick.handler = tick_handler;
	iv_validate_now();
	tick.expires = iv_now;
	iv_timer_register(&tick);

	IV_TIMER_INIT(&stop);
	stop.handler = stop_handler;
	stop.expires = iv_now;
	stop.expires.tv_sec += g_dur_ms / 1000;
	stop.expires.tv_nsec += (g_dur_ms % 1000) * 1000000L;
	if (stop.expires.tv_nsec >= 1000000000) {
		stop.expires.tv_sec++;
		stop.expires.tv_nsec -= 1000000000;
	}
	iv_timer_register(&stop);

	iv_main();
	iv_deinit();

	for (i = 0; i < 2; i++)
		pthread_join(plain[i], NULL);

	printf("STATS prog=thread created=%d finished=%d plain_loops=%d flags=%d\n",
	       atomic_load(&created), atomic_load(&finished), atomic_load(&loops), g_flags);
	return 0;
}
