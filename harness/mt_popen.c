/*
 * T-sched extension for C19 (iv_popen): the REAL /repo/src/iv_popen.c, included white-box, on top of the
 * engine's virtual child processes (mt_proc.c) and virtual time (mt_h.c).
 *
 *   obj popen q0 r|w|x                     an iv_popen_request owned by the declaring thread (x = invalid type string)
 *   psubmit q0                             iv_popen_request_submit; logs the returned descriptor and (white-box) which pipe end it is
 *   pclose q0                              the user closes the descriptor, then iv_popen_request_close
 *   pchild <q0|rec<N>> exit <code> | killed <sig> | stop | cont      the child of q0's current record / of record N changes state
 *   on q0.kill <n|*> : ...                 reaction run inside the signalling timer, after the n-th iv_wait_interest_kill of q0's records
 *   on q0.wait <n|*> : ...                 reaction run after the n-th status delivery to q0's records
 *   cfg vfds=0,1,2,7                       descriptors open in the (virtual) descriptor table when the run starts (default 0,1,2)
 *   cfg pipefail=<n> forkfail=<n>          the n-th pipe() / fork() made by iv_popen fails (1-based)
 *
 * Descriptors are VIRTUAL: open/dup2/close/pipe/execvp inside iv_popen.c are redirected to a table of abstract
 * files (null device, pipe read end, pipe write end, other).  The engine's fork() returns only in the parent, so
 * right after a successful iv_wait_interest_register_spawn the extension copies the table ("fork"), runs the real
 * iv_popen_child() on the copy ("child context": nothing it does can reach a real descriptor of the harness),
 * logs `EXEC <file>` and the final wiring, and drops the copy.
 *
 * The record (struct iv_popen_running_child) is tracked by address: PALLOC/PFREE; its wait-status handler and
 * its timer handler are called through logging trampolines (the handler pointers are patched after
 * submit/close; observation only).
 */
#include "mt_core.h"
#include <iv_wait.h>
#include <iv_popen.h>
#include <sys/wait.h>
#include <sys/resource.h>

/* ------------------------------------------------------------------ virtual descriptor table */
enum { VO_CLOSED = 0, VO_NULL, VO_PIPER, VO_PIPEW, VO_OTHER };
#define VFD_MAX 48
struct vtab { int kind[VFD_MAX]; int pipeid[VFD_MAX]; };
static struct vtab parent_tab, child_tab;
static struct vtab *cur_tab = &parent_tab;
static int in_child;
static int npipes, pipe_calls, fork_calls, cfg_pipefail, cfg_forkfail;
extern int mt_fork_fail_next __attribute__((weak));
extern int mt_spawn_fate_next __attribute__((weak));

static const char *kind_name(int k)
{
	switch (k) {
	case VO_NULL: return "null";
	case VO_PIPER: return "pipeR";
	case VO_PIPEW: return "pipeW";
	case VO_OTHER: return "other";
	}
	return "closed";
}

static void log_tab(const char *tag, struct vtab *t)
{
	int i;
	printf("T%d %s", mt_me(), tag);
	for (i = 0; i < VFD_MAX; i++)
		if (t->kind[i] != VO_CLOSED) {
			if (t->kind[i] == VO_PIPER || t->kind[i] == VO_PIPEW)
				printf(" %d=%s%d", i, kind_name(t->kind[i]), t->pipeid[i]);
			else
				printf(" %d=%s", i, kind_name(t->kind[i]));
		}
	printf("\n");
}

static int lowest_free(struct vtab *t)
{
	int i;
	for (i = 0; i < VFD_MAX; i++)
		if (t->kind[i] == VO_CLOSED)
			return i;
	return -1;
}

static int vp_pipe(int fds[2])
{
	int a, b;
	pipe_calls++;
	if (cfg_pipefail && pipe_calls == cfg_pipefail) {
		mt_log("VPIPE fail\n");
		errno = EMFILE;
		return -1;
	}
	a = lowest_free(cur_tab);
	if (a >= 0) cur_tab->kind[a] = VO_PIPER;
	b = lowest_free(cur_tab);
	if (a < 0 || b < 0) {
		if (a >= 0) cur_tab->kind[a] = VO_CLOSED;
		mt_log("VPIPE fail\n");
		errno = EMFILE;
		return -1;
	}
	cur_tab->kind[b] = VO_PIPEW;
	cur_tab->pipeid[a] = cur_tab->pipeid[b] = npipes++;
	fds[0] = a;
	fds[1] = b;
	mt_log("VPIPE r=%d w=%d id=%d\n", a, b, npipes - 1);
	return 0;
}

static int vp_open(const char *path, int flags, ...)
{
	int fd = lowest_free(cur_tab);
	(void)flags;
	if (fd < 0) { errno = EMFILE; return -1; }
	cur_tab->kind[fd] = !strcmp(path, "/dev/null") ? VO_NULL : VO_OTHER;
	cur_tab->pipeid[fd] = -1;
	mt_log("VOPEN %s fd=%d\n", path, fd);
	return fd;
}

static int vp_dup2(int oldfd, int newfd)
{
	if (oldfd < 0 || oldfd >= VFD_MAX || newfd < 0 || newfd >= VFD_MAX || cur_tab->kind[oldfd] == VO_CLOSED) {
		mt_log("VDUP2 %d %d EBADF\n", oldfd, newfd);
		errno = EBADF;
		return -1;
	}
	mt_log("VDUP2 %d %d\n", oldfd, newfd);
	if (oldfd != newfd) {
		cur_tab->kind[newfd] = cur_tab->kind[oldfd];
		cur_tab->pipeid[newfd] = cur_tab->pipeid[oldfd];
	}
	return newfd;
}

static int vp_close(int fd)
{
	if (fd < 0 || fd >= VFD_MAX || cur_tab->kind[fd] == VO_CLOSED) {
		mt_log("VCLOSE %d EBADF\n", fd);
		errno = EBADF;
		return -1;
	}
	mt_log("VCLOSE %d\n", fd);
	cur_tab->kind[fd] = VO_CLOSED;
	return 0;
}

static int vp_execvp(const char *file, char *const argv[])
{
	mt_log("EXEC %s argv0=%s %s\n", file, argv && argv[0] ? argv[0] : "-", in_child ? "in-child" : "IN-PARENT");
	errno = ENOENT;
	return -1;	/* "returns" so that the caller's error path is visible too */
}

static void vp_perror(const char *s)
{
	mt_log("PERROR %s\n", s);
}

/* ------------------------------------------------------------------ records */
#define MAXREC 256
struct rec { void *ptr; int live; int q; int pid; void (*wait_orig)(void *, int, const struct rusage *); void (*timer_orig)(void *); };
static struct rec RC[MAXREC];
static int nrec;

static int rec_of(const void *p)
{
	int i;
	for (i = nrec - 1; i >= 0; i--)
		if (RC[i].live && RC[i].ptr == p)
			return i;
	return -1;
}

static int submitting_q = -1;

static void *vp_malloc(size_t n)
{
	void *p = mt_malloc_filled(n);	/* filled with the scenario's byte pattern: see mt_h.c */
	if (nrec == MAXREC)
		mt_finish("HARNESS-ERROR records");
	RC[nrec].ptr = p;
	RC[nrec].live = 1;
	RC[nrec].q = submitting_q;
	RC[nrec].pid = -1;
	mt_log("PALLOC rec%d\n", nrec);
	nrec++;
	return p;
}

static void vp_free(void *p)
{
	int r = rec_of(p);
	if (r >= 0) {
		mt_log("PFREE rec%d\n", r);
		RC[r].live = 0;
	} else {
		mt_log("PFREE unknown\n");
	}
	free(p);
}

static int vp_spawn(struct iv_wait_interest *w, void (*fn)(void *), void *cookie);
static int vp_kill(const struct iv_wait_interest *w, int sig);
static void vp_wunreg(struct iv_wait_interest *w);
static void vp_treg(struct iv_timer *t);
static void vp_tunreg(struct iv_timer *t);

/* ------------------------------------------------------------------ the real source, white-box */
#define iv_popen_request_submit	wb_popen_submit
#define iv_popen_request_close	wb_popen_close
#define pipe(f)			vp_pipe(f)
#define open(...)		vp_open(__VA_ARGS__)
#define dup2(a, b)		vp_dup2(a, b)
#define close(f)		vp_close(f)
#define execvp(f, a)		vp_execvp(f, a)
#define perror(s)		vp_perror(s)
#define malloc(n)		vp_malloc(n)
#define free(p)			vp_free(p)
#define iv_wait_interest_register_spawn(w, f, c)	vp_spawn(w, f, c)
#define iv_wait_interest_kill(w, s)			vp_kill(w, s)
#define iv_wait_interest_unregister(w)			vp_wunreg(w)
#define iv_timer_register(t)				vp_treg(t)
#define iv_timer_unregister(t)				vp_tunreg(t)
#include "iv_popen.c"	/* found through -I<repo>/src: the tree under check */
#undef iv_popen_request_submit
#undef iv_popen_request_close
#undef pipe
#undef open
#undef dup2
#undef close
#undef execvp
#undef perror
#undef malloc
#undef free
#undef iv_wait_interest_register_spawn
#undef iv_wait_interest_kill
#undef iv_wait_interest_unregister
#undef iv_timer_register
#undef iv_timer_unregister

/* constants of the source as compiled (cross-checked by the plugin against its own extraction) */
#ifndef MAX_SIGTERM_COUNT
#define MAX_SIGTERM_COUNT -1
#endif
#ifndef SIGNAL_INTERVAL
#define SIGNAL_INTERVAL -1
#endif

static int rec_of_wait(const struct iv_wait_interest *w)
{
	return rec_of(iv_container_of(w, struct iv_popen_running_child, wait));
}

static int rec_of_timer(const struct iv_timer *t)
{
	return rec_of(iv_container_of(t, struct iv_popen_running_child, signal_timer));
}

static int vp_spawn(struct iv_wait_interest *w, void (*fn)(void *), void *cookie)
{
	int ret, r = rec_of_wait(w);

	fork_calls++;
	if (cfg_forkfail && fork_calls == cfg_forkfail) {
		if (&mt_fork_fail_next != NULL)
			mt_fork_fail_next = 1;
		else
			mt_log("FORKFAIL-UNSUPPORTED\n");
	}
	mt_log("PSPAWN rec%d\n", r);
	ret = iv_wait_interest_register_spawn(w, fn, cookie);
	mt_log("PSPAWNRET %d pid=%d\n", ret, ret == 0 ? w->pid : -1);
	if (ret == 0) {
		if (r >= 0)
			RC[r].pid = w->pid;
		/* the child: a copy of the descriptor table, the real child-side function, then the copy is dropped */
		child_tab = parent_tab;
		cur_tab = &child_tab;
		in_child = 1;
		mt_log("CHILD-BEGIN pid=%d\n", w->pid);
		fn(cookie);
		log_tab("CHILD-WIRING", &child_tab);
		mt_log("CHILD-END\n");
		in_child = 0;
		cur_tab = &parent_tab;
	}
	return ret;
}

static void qreact(const char *sub, int q)
{
	char kind[16];
	if (q < 0)
		return;
	snprintf(kind, sizeof(kind), "q.%s", sub);
	mt_react(kind, q);
}

static int vp_kill(const struct iv_wait_interest *w, int sig)
{
	int ret, r = rec_of_wait(w);
	int q = r >= 0 ? RC[r].q : -1;
	mt_log("PKILL rec%d sig=%d t=%lld\n", r, sig, mt_vclock);
	ret = iv_wait_interest_kill(w, sig);
	mt_log("PKILLRET %d\n", ret);
	qreact("kill", q);
	return ret;
}

static void vp_wunreg(struct iv_wait_interest *w)
{
	mt_log("PWUNREG rec%d\n", rec_of_wait(w));
	iv_wait_interest_unregister(w);
}

static void vp_treg(struct iv_timer *t)
{
	mt_log("PTREG rec%d at=%lld t=%lld\n", rec_of_timer(t),
	       (long long)t->expires.tv_sec * 1000000000LL + t->expires.tv_nsec, mt_vclock);
	iv_timer_register(t);
}

static void vp_tunreg(struct iv_timer *t)
{
	mt_log("PTUNREG rec%d\n", rec_of_timer(t));
	iv_timer_unregister(t);
}

/* ------------------------------------------------------------------ scenario objects */
struct pq { int exists, owner, open, fd, rec; struct iv_popen_request req; char type[4]; char *argv[3]; };
static struct pq Q[MT_MAXO];

static void wait_tramp(void *c, int status, const struct rusage *ru)
{
	int r = rec_of(c);
	int q = r >= 0 ? RC[r].q : -1;
	if (r < 0) {
		mt_log("CB qwait rec-1 q-1 status=0x%x t=%lld\n", status, mt_vclock);
		mt_log("HANDLER-ON-FREED-RECORD\n");
		mt_finish("FIN");
	}
	mt_log("CB qwait rec%d q%d status=0x%x t=%lld\n", r, q, status, mt_vclock);
	RC[r].wait_orig(c, status, ru);
	if (q >= 0)
		mt_log("REQCHILD q%d %s\n", q, Q[q].req.child == NULL ? "null" : Q[q].req.child == c ? "this" : "other");
	qreact("wait", q);
	mt_log("END\n");
}

static void timer_tramp(void *c)
{
	int r = rec_of(c);
	if (r < 0) {
		mt_log("CB qtimer rec-1 q-1 t=%lld\n", mt_vclock);
		mt_log("HANDLER-ON-FREED-RECORD\n");
		mt_finish("FIN");
	}
	mt_log("CB qtimer rec%d q%d t=%lld\n", r, RC[r].q, mt_vclock);
	RC[r].timer_orig(c);
	mt_log("END\n");
}

static int q_declare(char *kind, char *name, char *rest, int owner)
{
	int i;
	char *save = NULL, *tok;
	if (strcmp(kind, "popen"))
		return 0;
	i = atoi(name + 1) % MT_MAXO;
	memset(&Q[i], 0, sizeof(Q[i]));
	Q[i].exists = 1;
	Q[i].owner = owner;
	Q[i].rec = -1;
	tok = rest ? strtok_r(rest, " \t\n", &save) : NULL;
	snprintf(Q[i].type, sizeof(Q[i].type), "%s", tok ? tok : "r");
	IV_POPEN_REQUEST_INIT(&Q[i].req);
	Q[i].argv[0] = "prog";
	Q[i].argv[1] = "arg";
	Q[i].argv[2] = NULL;
	Q[i].req.file = "/virtual/prog";
	Q[i].req.argv = Q[i].argv;
	Q[i].req.type = Q[i].type;
	Q[i].req.child = NULL;
	return 1;
}

static int q_action(char *op, int guard, char *a1, char *a2, char *rest)
{
	int i;
	(void)guard;
	if (!strcmp(op, "psubmit")) {
		int fd, r;
		i = mt_objnum(a1, 'q');
		if (Q[i].exists != 1 || Q[i].owner != mt_me() || Q[i].open) return 1;
		if (a2 != NULL && !strcmp(a2, "instant") && &mt_spawn_fate_next != NULL) {
			/* `psubmit q0 instant [killed]`: the child is done before fork() has returned to the parent */
			mt_spawn_fate_next = (rest != NULL && strstr(rest, "killed") != NULL) ? SIGKILL : 0;
		}
		mt_log("API psubmit q%d type=%s t=%lld\n", i, Q[i].type, mt_vclock);
		log_tab("VFDS", &parent_tab);
		submitting_q = i;
		fd = wb_popen_submit(&Q[i].req);
		submitting_q = -1;
		if (fd >= 0) {
			struct iv_popen_running_child *ch = Q[i].req.child;
			r = rec_of(ch);
			Q[i].open = 1;
			Q[i].fd = fd;
			Q[i].rec = r;
			if (r >= 0) {
				RC[r].wait_orig = ch->wait.handler;
				ch->wait.handler = wait_tramp;
			}
			mt_log("RET fd=%d end=%s rec=%d pid=%d\n", fd, fd < VFD_MAX ? kind_name(parent_tab.kind[fd]) : "bad", r, r >= 0 ? RC[r].pid : -1);
		} else {
			mt_log("RET fd=-1 end=none rec=-1 pid=-1\n");
		}
		log_tab("VFDS", &parent_tab);
		return 1;
	}
	if (!strcmp(op, "pclose")) {
		i = mt_objnum(a1, 'q');
		if (Q[i].exists != 1 || Q[i].owner != mt_me() || !Q[i].open) return 1;
		mt_log("API pclose q%d rec=%d t=%lld\n", i, Q[i].rec, mt_vclock);
		vp_close(Q[i].fd);	/* the user closes the descriptor it was given */
		Q[i].open = 0;
		wb_popen_close(&Q[i].req);
		if (Q[i].req.child != NULL) {
			struct iv_popen_running_child *ch = Q[i].req.child;
			int r = rec_of(ch);
			if (r >= 0 && ch->signal_timer.handler != timer_tramp) {
				RC[r].timer_orig = ch->signal_timer.handler;
				ch->signal_timer.handler = timer_tramp;
			}
		}
		mt_log("RET 0 reqchild=%s\n", Q[i].req.child == NULL ? "null" : "set");
		return 1;
	}
	if (!strcmp(op, "pchild")) {
		int r = -1;
		char buf[128];
		if (a1 == NULL || a2 == NULL) return 1;
		if (!strncmp(a1, "rec", 3)) {
			r = atoi(a1 + 3);
		} else {
			i = mt_objnum(a1, 'q');
			if (Q[i].exists != 1) return 1;
			r = Q[i].rec;
		}
		if (r < 0 || r >= nrec || RC[r].pid < 0) return 1;
		snprintf(buf, sizeof(buf), "child p%d %s %s", RC[r].pid, a2, rest ? rest : "");
		buf[strcspn(buf, "\n")] = 0;
		mt_run_actions(buf);
		return 1;
	}
	return 0;
}

static int q_cfg(const char *tok)
{
	if (!strncmp(tok, "vfds=", 5)) {
		const char *p = tok + 5;
		memset(&parent_tab, 0, sizeof(parent_tab));
		while (*p) {
			int fd = atoi(p);
			if (fd >= 0 && fd < VFD_MAX) { parent_tab.kind[fd] = VO_OTHER; parent_tab.pipeid[fd] = -1; }
			while (*p && *p != ',') p++;
			if (*p == ',') p++;
		}
		return 1;
	}
	if (!strncmp(tok, "pipefail=", 9)) { cfg_pipefail = atoi(tok + 9); return 1; }
	if (!strncmp(tok, "forkfail=", 9)) { cfg_forkfail = atoi(tok + 9); return 1; }
	return 0;
}

static void q_at_end(void)
{
	int i, live = 0, open = 0;
	for (i = 0; i < nrec; i++)
		if (RC[i].live)
			live++;
	for (i = 0; i < MT_MAXO; i++)
		if (Q[i].exists == 1 && Q[i].open)
			open++;
	printf("T%d POPEN-END live_records=%d open_requests=%d consts=%d,%d\n", mt_me(), live, open,
	       (int)MAX_SIGTERM_COUNT, (int)SIGNAL_INTERVAL);
}

static struct mt_ext popen_ext = {
	.name = "popen",
	.cfg = q_cfg,
	.declare = q_declare,
	.action = q_action,
	.at_end = q_at_end,
};

static void reg(void) __attribute__((constructor));
static void reg(void)
{
	parent_tab.kind[0] = parent_tab.kind[1] = parent_tab.kind[2] = VO_OTHER;
	mt_register_ext(&popen_ext);
}
