/*
 * T-sched harness: the real ivykis library, unmodified, under a deterministic scheduler.
 *
 * Library references to pthread mutexes/spinlocks/thread creation, the kernel waits, the clock and a few
 * system calls are redirected (ld -r --wrap) to this file.  Threads are real pthreads, but exactly one
 * runs at any time ("baton"): every wrapped call is a scheduling point at which the next thread to run is
 * chosen by a PRNG seeded from the scenario, so a (scenario, seed) pair is one reproducible interleaving.
 * Time is virtual (as in loop_h.c): waits poll the real kernel with a zero timeout; a thread with nothing
 * ready blocks in the scheduler; when every thread is blocked the clock jumps to the earliest deadline,
 * or the next `idle` stimulus of the scenario is applied, or the run is QUIESCENT and ends.
 *
 * Extensions (signals, child processes, work pools, ...) register object kinds and actions through
 * mt_register_ext(); see mt_core.h.
 */
#include "mt_core.h"
#include <sys/time.h>

/* ------------------------------------------------------------------ log */
void mt_log(const char *fmt, ...)
{
	va_list ap;
	printf("T%d ", mt_me());
	va_start(ap, fmt);
	vprintf(fmt, ap);
	va_end(ap);
}

#include <dirent.h>
extern size_t __sanitizer_get_current_allocated_bytes(void);
extern int __lsan_do_recoverable_leak_check(void);
static int mt_unjoined(void);
static void mt_ledger(const char *tag)
{
	DIR *d = opendir("/proc/self/fd");
	struct dirent *de;
	int n = 0;
	if (d != NULL) {
		while ((de = readdir(d)) != NULL)
			if (de->d_name[0] != '.')
				n++;
		closedir(d);
		n--;
	}
	printf("T%d %s fds=%d heap=%zu leaks=%d unjoined=%d\n", mt_me(), tag, n, __sanitizer_get_current_allocated_bytes(),
	       !strncmp(tag, "LEDGER-", 7) ? __lsan_do_recoverable_leak_check() : 0, mt_unjoined());
}

void mt_finish(const char *why)
{
	if (why != NULL)
		printf("T%d %s\n", mt_me(), why);
	fflush(stdout);
	_exit(0);
}

/* ------------------------------------------------------------------ scheduler */
enum { ST_UNUSED, ST_RUNNABLE, ST_MUTEX, ST_WAIT, ST_JOIN, ST_DONE };

struct vthread {
	int		state;
	pthread_t	pt;
	void		*(*fn)(void *);
	void		*arg;
	const void	*blocked_on;	/* mutex address / joined vthread */
	long long	deadline;	/* ST_WAIT: virtual time at which the wait times out; -1 = never */
	unsigned long	seen_activity;	/* ST_WAIT: activity counter at the last fruitless poll */
	int		plain;		/* a thread of the program that has no ivykis state (`thread k plain`) */
	int		waits_done, wait_calls, cb_count;
	int		is_harness;	/* created by the scenario, not by the library */
	int		section;	/* scenario thread section it executes, or -1 */
	int		pending_sig[MT_MAXSIG];
	int		sigmask_all;	/* library blocked all signals */
	int		in_sighandler;
	int		reaped;		/* joined or detached: its pthread_t may be reused by a later thread */
};

static struct vthread VT[MT_MAXT];
static struct iv_state *states[MT_MAXT];
static pthread_mutex_t sched_mu = PTHREAD_MUTEX_INITIALIZER;
static pthread_cond_t sched_cv[MT_MAXT];
static int cur;
static __thread int me_;
static unsigned long activity;
static unsigned long long rng_state = 88172645463325252ULL;
static int stay_pct = 55;
static int idle_count;
long long mt_vclock = 1000000000LL;
static int wait_limit = 200, cb_limit = 3000, step_limit = 200000;
static long steps;
static pthread_key_t done_key;

int mt_me(void) { return me_; }

/* threads the LIBRARY created that have exited and were neither joined nor detached: each keeps its stack and TCB allocated */
static int mt_unjoined(void)
{
	int t, n = 0;
	for (t = 0; t < MT_MAXT; t++)
		if (VT[t].state == ST_DONE && !VT[t].is_harness && !VT[t].reaped)
			n++;
	return n;
}
void mt_activity(void) { activity++; }

/* ---- explicit schedules (systematic exploration): `cfg sched=a.b.c` gives the choice taken at the 1st, 2nd, ... choice point that
 * has more than one option; once the list is used up every choice is option 0 (= keep running the current thread when that is
 * possible, else the runnable thread with the lowest id: the non-preemptive default). With IVY_SCHED_TRACE=<file> every such choice
 * point is recorded as "<options> <taken> <kind>" (kind p = the current thread could have continued, b = it could not, s = which
 * thread receives a process-directed signal), which is what vlib/sched.py needs to enumerate the alternatives. */
static int sched_mode, sched_len, sched_pos;
static unsigned char sched_choice[4096];
static FILE *sched_trace;

static unsigned long long rnd(void);
static int choose(int n, char kind)
{
	int c = 0;
	if (n <= 1)
		return 0;
	if (sched_pos < sched_len)
		c = sched_choice[sched_pos] % n;
	sched_pos++;
	if (sched_trace != NULL) {
		fprintf(sched_trace, "%d %d %c\n", n, c, kind);
		fflush(sched_trace);
	}
	return c;
}

static unsigned long long rnd(void)
{
	rng_state ^= rng_state << 13;
	rng_state ^= rng_state >> 7;
	rng_state ^= rng_state << 17;
	return rng_state;
}

static struct mt_ext *exts[16];
static int nexts;
void mt_register_ext(struct mt_ext *e) { exts[nexts++] = e; }

/* the library's malloc() calls: the block comes back filled with the byte pattern of the scenario (cfg fill=N; default: the sanitizer's
 * 0xbe), so that a field the library forgets to initialise reads as all-ones / as 1 / ... instead of whatever the allocator left */
static int cfg_fill = -1;
void *mt_malloc_filled(size_t n);
void *__wrap_malloc(size_t n) { return mt_malloc_filled(n); }
void *mt_malloc_filled(size_t n)
{
	void *p = malloc(n);	/* only the library's references are redirected here */
	if (p != NULL && cfg_fill >= 0)
		memset(p, cfg_fill, n);
	return p;
}

static void deliver_pending_signals(void);

static void switch_to(int next)
{
	if (next == me_)
		return;
	cur = next;
	pthread_cond_signal(&sched_cv[next]);
	while (cur != me_)
		pthread_cond_wait(&sched_cv[me_], &sched_mu);
}

static int runnable_or_wakeable(int t)
{
	if (VT[t].state == ST_RUNNABLE)
		return 1;
	if (VT[t].state == ST_WAIT && VT[t].seen_activity != activity)
		return 1;
	return 0;
}

struct idle_stim { int n; char *actions; };
static struct idle_stim IDLE[256];
static int nidle;
static void run_actions(const char *actions);

/* every thread is blocked: advance time, apply an idle stimulus, or end the run */
static int all_blocked(void)
{
	int t, best = -1;
	long long bd = -1;
	int i;

	for (t = 0; t < MT_MAXT; t++)
		if (VT[t].state == ST_WAIT && VT[t].deadline >= 0 && (best < 0 || VT[t].deadline < bd)) {
			best = t;
			bd = VT[t].deadline;
		}
	for (i = 0; i < nexts; i++)
		if (exts[i]->next_deadline != NULL) {
			long long d = exts[i]->next_deadline();
			if (d >= 0 && (best < 0 || d < bd)) { best = MT_MAXT; bd = d; }
		}
	if (best >= 0) {
		if (bd > mt_vclock)
			mt_vclock = bd;
		activity++;
		for (i = 0; i < nexts; i++)
			if (exts[i]->time_advanced != NULL)
				exts[i]->time_advanced();
		return -2;	/* re-evaluate */
	}
	for (i = 0; i < nidle; i++)
		if (IDLE[i].actions != NULL && IDLE[i].n == idle_count) {
			char *a = IDLE[i].actions;
			IDLE[i].actions = NULL;
			idle_count++;
			printf("T%d IDLE %d\n", me_, idle_count - 1);
			{
				/* the stimulus is executed by this (blocked) thread on behalf of the environment: while it
				   runs library code it must be schedulable like any other thread */
				int saved = VT[me_].state;
				VT[me_].state = ST_RUNNABLE;
				run_actions(a);
				VT[me_].state = saved;
			}
			free(a);
			activity++;
			return -2;
		}
	return -1;
}

static void quiescent(void)
{
	int t, i, alive = 0;
	for (t = 0; t < MT_MAXT; t++)
		if (VT[t].state != ST_UNUSED && VT[t].state != ST_DONE)
			alive = 1;
	if (!alive) {
		for (i = 0; i < nexts; i++)
			if (exts[i]->at_end != NULL)
				exts[i]->at_end();
		mt_ledger("LEDGER-END");
		printf("T%d ALLDONE\n", me_);
		mt_finish("FIN");
	}
	printf("T%d QUIESCENT", me_);
	for (t = 0; t < MT_MAXT; t++)
		if (VT[t].state != ST_UNUSED && VT[t].state != ST_DONE)
			printf(" T%d:%s", t, VT[t].state == ST_MUTEX ? "mutex" : VT[t].state == ST_WAIT ? "wait" : VT[t].state == ST_JOIN ? "join" : "run");
	printf("\n");
	/* nothing can run any more: whatever the library allocated and no longer references is lost for good (LeakSanitizer
	 * scans the blocked threads' stacks and registers too, so memory that is still in use is never counted) */
	mt_ledger("LEDGER-QUIESCENT");
	for (i = 0; i < nexts; i++)
		if (exts[i]->at_end != NULL)
			exts[i]->at_end();
	mt_finish("FIN");
}

static int pick_next(int must_switch)
{
	int cand[MT_MAXT], n = 0, t;

	for (;;) {
		n = 0;
		for (t = 0; t < MT_MAXT; t++)
			if ((t != me_ || !must_switch) && runnable_or_wakeable(t))
				cand[n++] = t;
		if (n > 0)
			break;
		if (!must_switch && VT[me_].state == ST_RUNNABLE)
			return me_;
		{
			int r = all_blocked();
			if (r == -1)
				quiescent();
			/* time advanced / stimulus applied: a waiting thread may now proceed; wake them all once */
			for (t = 0; t < MT_MAXT; t++)
				if (VT[t].state == ST_WAIT)
					VT[t].seen_activity = activity - 1;
			if (VT[me_].state == ST_WAIT)
				return me_;
		}
	}
	if (sched_mode) {
		/* option 0 = stay (when allowed), then the other candidates by thread id */
		int opt[MT_MAXT + 1], k = 0, i;
		int can_stay = !must_switch && VT[me_].state == ST_RUNNABLE;
		if (can_stay)
			opt[k++] = me_;
		for (i = 0; i < n; i++)
			if (!(can_stay && cand[i] == me_))
				opt[k++] = cand[i];
		return opt[choose(k, can_stay ? 'p' : 'b')];
	}
	if (!must_switch && VT[me_].state == ST_RUNNABLE && (int)(rnd() % 100) < stay_pct)
		return me_;
	return cand[rnd() % n];
}

/* a scheduling point of a thread that can continue */
void mt_yield(void)
{
	states[me_] = iv_get_state();
	if (++steps > step_limit)
		mt_finish("STEPLIMIT");
	deliver_pending_signals();
	switch_to(pick_next(0));
	deliver_pending_signals();
}

/* the same without delivering signals (see v_lock) */
static void mt_yield_nosig(void)
{
	states[me_] = iv_get_state();
	if (++steps > step_limit)
		mt_finish("STEPLIMIT");
	switch_to(pick_next(0));
}

/* the current thread cannot continue until its state is changed by someone else */
static void block_and_switch(void)
{
	int next = pick_next(1);
	switch_to(next);
}

static void *trampoline(void *arg)
{
	int id = (int)(long)arg;
	void *r;

	me_ = id;
	pthread_mutex_lock(&sched_mu);
	while (cur != me_)
		pthread_cond_wait(&sched_cv[me_], &sched_mu);
	pthread_setspecific(done_key, (void *)1L);
	r = VT[id].fn(VT[id].arg);
	return r;	/* TLS destructors (library's, then ours) run now, still holding the baton */
}

/* runs after the library's own TLS destructors (re-arms itself twice), then retires the thread */
static void done_destructor(void *v)
{
	long n = (long)v;
	int t;

	if (n < 3) {
		pthread_setspecific(done_key, (void *)(n + 1));
		return;
	}
	printf("T%d THREAD-EXIT\n", me_);
	VT[me_].state = ST_DONE;
	/* a process-directed SIGCHLD that was still pending on this thread is not lost with it: the kernel delivers it to another thread */
	if (VT[me_].pending_sig[SIGCHLD]) {
		int u, tgt = -1;
		for (u = 0; u < MT_MAXT && tgt < 0; u++)
			if (VT[u].state != ST_UNUSED && VT[u].state != ST_DONE && !VT[u].sigmask_all)
				tgt = u;
		for (u = 0; u < MT_MAXT && tgt < 0; u++)
			if (VT[u].state != ST_UNUSED && VT[u].state != ST_DONE)
				tgt = u;
		VT[me_].pending_sig[SIGCHLD] = 0;
		if (tgt >= 0) {
			VT[tgt].pending_sig[SIGCHLD] = 1;
			printf("T%d SIGNAL-MOVED %d to=T%d\n", me_, SIGCHLD, tgt);
			if (VT[tgt].state == ST_WAIT)
				VT[tgt].seen_activity = activity - 1;
		}
	}
	for (t = 0; t < MT_MAXT; t++)
		if (VT[t].state == ST_JOIN && VT[t].blocked_on == &VT[me_])
			VT[t].state = ST_RUNNABLE;
	activity++;
	{
		int next = pick_next(1);
		cur = next;
		pthread_cond_signal(&sched_cv[next]);
	}
	pthread_mutex_unlock(&sched_mu);
}

static int new_vthread(void *(*fn)(void *), void *arg, int is_harness, int section)
{
	int t;
	for (t = 1; t < MT_MAXT; t++)
		if (VT[t].state == ST_UNUSED)
			break;
	if (t == MT_MAXT)
		mt_finish("HARNESS-ERROR too many threads");
	memset(&VT[t], 0, sizeof(VT[t]));
	VT[t].state = ST_RUNNABLE;
	VT[t].fn = fn;
	VT[t].arg = arg;
	VT[t].is_harness = is_harness;
	VT[t].section = section;
	if (pthread_create(&VT[t].pt, NULL, trampoline, (void *)(long)t) != 0)
		mt_finish("HARNESS-ERROR pthread_create");
	return t;
}

/* ------------------------------------------------------------------ wrapped pthread primitives (library refs) */
#define MAXMU 4096
static const void *mu_addr[MAXMU];
static int mu_owner[MAXMU];
static int nmu;

static int mu_slot(const void *m)
{
	int i;
	for (i = 0; i < nmu; i++)
		if (mu_addr[i] == m)
			return i;
	if (nmu == MAXMU)
		mt_finish("HARNESS-ERROR too many mutexes");
	mu_addr[nmu] = m;
	mu_owner[nmu] = -1;
	return nmu++;
}

static const char *event_name(const struct iv_event *ev, char *buf);

static const char *mu_name(const void *m, char *buf)
{
	int i;
	for (i = 0; i < MT_MAXT; i++)
		if (states[i] != NULL && VT[i].state != ST_DONE && m == (const void *)&states[i]->event_list_mutex) {
			sprintf(buf, "evmu:T%d", i);
			return buf;
		}
	for (i = 0; i < nexts; i++)
		if (exts[i]->mutex_name != NULL && exts[i]->mutex_name(m, buf))
			return buf;
	sprintf(buf, "mu%d", mu_slot(m));
	return buf;
}

static int v_lock(const void *m, const char *what)
{
	int s = mu_slot(m);
	char nb[64];

	/* an asynchronous signal can arrive at any instruction, also inside a critical section: half of the time a signal that is pending
	 * for this thread is not delivered at the scheduling point before the lock is taken but right after (mutexes only: the library
	 * takes its spinlock with signals blocked) */
	if (what[0] == 'L' && (rnd() & 1))
		mt_yield_nosig();
	else
		mt_yield();
	while (mu_owner[s] != -1) {
		if (mu_owner[s] == me_) {
			mt_log("SELF-DEADLOCK %s\n", mu_name(m, nb));
			mt_finish("FIN");
		}
		VT[me_].state = ST_MUTEX;
		VT[me_].blocked_on = m;
		block_and_switch();
	}
	mu_owner[s] = me_;
	mt_log("%s %s\n", what, mu_name(m, nb));
	if (what[0] == 'L')
		deliver_pending_signals();
	return 0;
}

static int v_unlock(const void *m, const char *what)
{
	int s = mu_slot(m), t, i;
	char nb[64];

	for (i = 0; i < MT_MAXT; i++)
		if (states[i] != NULL && VT[i].state != ST_DONE && m == (const void *)&states[i]->event_list_mutex) {
			struct iv_list_head *ilh;
			int first = 1;
			printf("T%d SNAP evmu:T%d pending=", me_, i);
			iv_list_for_each (ilh, &states[i]->events_pending) {
				char eb[64];
				printf("%s%s", first ? "" : ",", event_name(iv_container_of(ilh, struct iv_event, list), eb));
				first = 0;
			}
			printf("\n");
		}
	for (i = 0; i < nexts; i++)
		if (exts[i]->before_unlock != NULL)
			exts[i]->before_unlock(m);
	mt_log("%s %s\n", what, mu_name(m, nb));
	mu_owner[s] = -1;
	for (t = 0; t < MT_MAXT; t++)
		if (VT[t].state == ST_MUTEX && VT[t].blocked_on == m)
			VT[t].state = ST_RUNNABLE;
	mt_yield();
	return 0;
}

int __wrap_pthread_mutex_lock(pthread_mutex_t *m) { return v_lock(m, "LOCK"); }
int __wrap_pthread_mutex_unlock(pthread_mutex_t *m) { return v_unlock(m, "UNLOCK"); }
int __wrap_pthread_spin_lock(pthread_spinlock_t *m) { return v_lock((const void *)m, "SPINLOCK"); }
int __wrap_pthread_spin_unlock(pthread_spinlock_t *m) { return v_unlock((const void *)m, "SPINUNLOCK"); }
int __wrap_pthread_spin_trylock(pthread_spinlock_t *m)
{
	int s = mu_slot((const void *)m);
	if (mu_owner[s] != -1)
		return EBUSY;
	mu_owner[s] = me_;
	return 0;
}
int __wrap_pthread_mutex_destroy(pthread_mutex_t *m)
{
	int s = mu_slot(m);
	char nb[64];
	if (mu_owner[s] != -1)
		mt_log("DESTROY-LOCKED-MUTEX %s\n", mu_name(m, nb));
	mu_addr[s] = NULL;
	return 0;
}

int __wrap_pthread_create(pthread_t *th, const pthread_attr_t *attr, void *(*fn)(void *), void *arg)
{
	int t, i;
	(void)attr;
	for (i = 0; i < nexts; i++)
		if (exts[i]->fail_thread_create != NULL && exts[i]->fail_thread_create())
			return EAGAIN;
	t = new_vthread(fn, arg, 0, -1);
	*th = VT[t].pt;
	mt_log("THREAD-CREATE T%d\n", t);
	mt_yield();
	return 0;
}

int __wrap_pthread_join(pthread_t th, void **ret)
{
	int t;
	for (t = 0; t < MT_MAXT; t++)
		if (VT[t].state != ST_UNUSED && !VT[t].reaped && pthread_equal(VT[t].pt, th))
			break;
	if (t == MT_MAXT)
		return ESRCH;
	mt_yield();
	while (VT[t].state != ST_DONE) {
		VT[me_].state = ST_JOIN;
		VT[me_].blocked_on = &VT[t];
		block_and_switch();
	}
	mt_log("THREAD-JOIN T%d\n", t);
	VT[t].reaped = 1;
	return pthread_join(th, ret);
}

int __wrap_pthread_detach(pthread_t th)
{
	int t;
	for (t = 0; t < MT_MAXT; t++)
		if (VT[t].state != ST_UNUSED && !VT[t].reaped && pthread_equal(VT[t].pt, th)) {
			mt_log("THREAD-DETACH T%d\n", t);
			VT[t].reaped = 1;
		}
	return pthread_detach(th);
}

int __wrap_pthread_sigmask(int how, const sigset_t *set, sigset_t *old)
{
	/* signals are virtual: track whether the library has everything blocked; the "old mask" it gets back
	   encodes the previous state in SIGUSR2's bit so that SIG_SETMASK restores it */
	if (old != NULL) {
		sigemptyset(old);
		if (VT[me_].sigmask_all)
			sigfillset(old);
	}
	if (set != NULL) {
		int full = sigismember(set, SIGUSR2) && sigismember(set, SIGTERM);
		if (how == SIG_BLOCK && full) VT[me_].sigmask_all = 1;
		else if (how == SIG_SETMASK) VT[me_].sigmask_all = full;
		else if (how == SIG_UNBLOCK && full) VT[me_].sigmask_all = 0;
	}
	return 0;
}

/* ------------------------------------------------------------------ virtual signals */
static void (*sig_handler[MT_MAXSIG])(int);
static sigset_t sig_samask[MT_MAXSIG];	/* the sa_mask each handler was installed with: blocked while it runs (plus the signal itself) */
static int sig_nodefer[MT_MAXSIG];
static sigset_t handler_blocked[MT_MAXT];

int mt_sigaction(int signum, const struct sigaction *sa, struct sigaction *old)
{
	if (signum < 0 || signum >= MT_MAXSIG)
		return -1;
	if (old != NULL) {
		memset(old, 0, sizeof(*old));
		old->sa_handler = sig_handler[signum] ? sig_handler[signum] : SIG_DFL;
	}
	if (sa != NULL) {
		sig_handler[signum] = (sa->sa_handler == SIG_DFL || sa->sa_handler == SIG_IGN) ? NULL : sa->sa_handler;
		sig_samask[signum] = sa->sa_mask;
		sig_nodefer[signum] = !!(sa->sa_flags & SA_NODEFER);
		mt_log("SIGACTION %d %s\n", signum, sa->sa_handler == SIG_DFL ? "DFL" : sa->sa_handler == SIG_IGN ? "IGN" : "HANDLER");
	}
	return 0;
}

int mt_signal_installed(int signum) { return signum >= 0 && signum < MT_MAXSIG && sig_handler[signum] != NULL; }

/* the environment sends `signum` to thread t (t = -1: any thread that does not block it) */
void mt_send_signal(int signum, int t)
{
	int i;
	if (t < 0) {
		int cand[MT_MAXT], n = 0;
		for (i = 0; i < MT_MAXT; i++)
			if (VT[i].state != ST_UNUSED && VT[i].state != ST_DONE && !VT[i].sigmask_all)
				cand[n++] = i;
		if (n == 0) {
			for (i = 0; i < MT_MAXT; i++)
				if (VT[i].state != ST_UNUSED && VT[i].state != ST_DONE)
					cand[n++] = i;
		}
		if (n == 0)
			return;
		t = sched_mode ? cand[choose(n, 's')] : cand[rnd() % n];
	}
	if (signum == SIGCHLD && sig_handler[signum] == NULL && !VT[t].sigmask_all) {
		/* a signal whose disposition is "ignore" (SIGCHLD's default action) is discarded when it is generated: installing a handler
		 * afterwards does not bring it back (it stays pending only while blocked) */
		printf("T%d SIGNAL-DISCARDED %d to=T%d\n", me_, signum, t);
		return;
	}
	VT[t].pending_sig[signum] = 1;
	printf("T%d SIGNAL-SENT %d to=T%d\n", me_, signum, t);
	/* a thread blocked in a wait is interrupted only in the sense that the handler runs; make it look */
	if (VT[t].state == ST_WAIT)
		VT[t].seen_activity = activity - 1;
	activity++;
}

static void deliver_pending_signals(void)
{
	int s;
	if (VT[me_].sigmask_all)
		return;
	for (s = 1; s < MT_MAXSIG; s++)
		if (VT[me_].pending_sig[s]) {
			/* while a handler runs, the signals of ITS sa_mask (and the signal itself) are blocked, no others: a handler installed
			 * with a partial mask can be interrupted by another signal's handler */
			if (VT[me_].in_sighandler && sigismember(&handler_blocked[me_], s))
				continue;
			VT[me_].pending_sig[s] = 0;
			if (sig_handler[s] != NULL) {
				sigset_t saved = handler_blocked[me_];
				int depth = VT[me_].in_sighandler, k, full = 1;
				mt_log("SIGNAL-DELIVER %d%s\n", s, depth ? " nested" : "");
				if (!depth)
					sigemptyset(&handler_blocked[me_]);
				for (k = 1; k < MT_MAXSIG; k++)
					if (sigismember(&sig_samask[s], k))
						sigaddset(&handler_blocked[me_], k);
					else if (k != s && k != SIGKILL && k != SIGSTOP)
						full = 0;
				if (!sig_nodefer[s])
					sigaddset(&handler_blocked[me_], s);
				VT[me_].in_sighandler = depth + 1;
				if (full)
					VT[me_].sigmask_all = 1;	/* what signals sent meanwhile look at */
				sig_handler[s](s);
				VT[me_].sigmask_all = 0;
				VT[me_].in_sighandler = depth;
				handler_blocked[me_] = saved;
				mt_log("SIGNAL-RETURN %d\n", s);
			} else {
				mt_log("SIGNAL-DEFAULT %d\n", s);
			}
		}
}

/* ------------------------------------------------------------------ objects of the core: timers, tasks, events, raws */
struct tmo { struct iv_timer *o; int exists; int owner; };
struct tko { struct iv_task *o; int exists; int owner; };
struct evo { struct iv_event *o; int exists; int isreg; int posting; int owner; };
struct rwo { struct iv_event_raw *o; int exists; int isreg; int posting; int owner; };
static struct tmo T[MT_MAXO];
static struct tko K[MT_MAXO];
static struct evo E[MT_MAXO];
static struct rwo R[MT_MAXO];

struct react { char kind[8]; int id; int nth; char *actions; };
static struct react RE[4096];
static int nre;
struct stim { int thread; int waitno; char *actions; };
static struct stim STM[1024];
static int nst;

static int cfg_nopwait2, cfg_notimerfd, cfg_noeventfd2, cfg_noeventfd;
static int sec_plain[64];
static int cfg_closefd0;
static unsigned long long cfg_eventfd_emfile;	/* bit k-1 set: the k-th eventfd/eventfd2 call that reaches the kernel fails with EMFILE */
static int eventfd_calls;

static void h_timer(void *c);
static void h_task(void *c);
static void h_event(void *c);
static void h_raw(void *c);

static const char *event_name(const struct iv_event *ev, char *buf)
{
	int i;
	for (i = 0; i < MT_MAXO; i++)
		if (E[i].exists == 1 && E[i].o == ev) {
			sprintf(buf, "e%d", i);
			return buf;
		}
	for (i = 0; i < nexts; i++)
		if (exts[i]->event_name != NULL && exts[i]->event_name(ev, buf))
			return buf;
	sprintf(buf, "?");
	return buf;
}

static void fatal_handler(const char *msg)
{
	mt_log("FATAL %s\n", msg);
	mt_finish("FIN");
}

static void ts_of(long long ns, struct timespec *ts)
{
	ts->tv_sec = ns / 1000000000LL;
	ts->tv_nsec = ns % 1000000000LL;
}

int mt_objnum(const char *tok, char kind)
{
	if (tok == NULL || tok[0] != kind) {
		printf("HARNESS-ERROR bad object %s (want %c)\n", tok ? tok : "(null)", kind);
		mt_finish(NULL);
	}
	return atoi(tok + 1) % MT_MAXO;
}

void mt_react(const char *kind, int id)
{
	static int seen[64][MT_MAXO];
	static char kinds[64][8];
	static int nk;
	int k, n, i;

	for (k = 0; k < nk; k++)
		if (!strcmp(kinds[k], kind))
			break;
	if (k == nk) {
		if (nk == 64) mt_finish("HARNESS-ERROR kinds");
		strcpy(kinds[nk++], kind);
	}
	n = ++seen[k][id];
	if (++VT[me_].cb_count > cb_limit)
		mt_finish("CBLIMIT");
	for (i = 0; i < nre; i++)
		if (!strcmp(RE[i].kind, kind) && RE[i].id == id && (RE[i].nth == 0 || RE[i].nth == n))
			run_actions(RE[i].actions);
}

static int core_action(char *op, int guard, char *a1, char *a2)
{
	int i;

	if (!strcmp(op, "trel") || !strcmp(op, "treg")) {
		long long ns = a2 ? atoll(a2) : 0;
		i = mt_objnum(a1, 't');
		if (T[i].exists != 1 || T[i].owner != me_) return 1;
		if (guard && iv_timer_registered(T[i].o)) return 1;
		if (!strcmp(op, "trel") && ns > 0 && mt_vclock > 9000000000000000000LL - ns) return 1;	/* virtual time is a long long of ns */
		if (!strcmp(op, "trel")) ns += mt_vclock;
		if (!iv_timer_registered(T[i].o)) ts_of(ns, &T[i].o->expires);
		mt_log("API timerRegister t%d %lld %lld\n", i, (long long)T[i].o->expires.tv_sec, (long long)T[i].o->expires.tv_nsec);
		iv_timer_register(T[i].o);
		mt_log("RET 0\n");
	} else if (!strcmp(op, "tunreg")) {
		i = mt_objnum(a1, 't');
		if (T[i].exists != 1 || T[i].owner != me_) return 1;
		if (guard && !iv_timer_registered(T[i].o)) return 1;
		mt_log("API timerUnregister t%d\n", i);
		iv_timer_unregister(T[i].o);
		mt_log("RET 0\n");
	} else if (!strcmp(op, "kreg")) {
		i = mt_objnum(a1, 'k');
		if (K[i].exists != 1 || K[i].owner != me_) return 1;
		if (guard && iv_task_registered(K[i].o)) return 1;
		mt_log("API taskRegister k%d\n", i);
		iv_task_register(K[i].o);
		mt_log("RET 0\n");
	} else if (!strcmp(op, "kunreg")) {
		i = mt_objnum(a1, 'k');
		if (K[i].exists != 1 || K[i].owner != me_) return 1;
		if (guard && !iv_task_registered(K[i].o)) return 1;
		mt_log("API taskUnregister k%d\n", i);
		iv_task_unregister(K[i].o);
		mt_log("RET 0\n");
	} else if (!strcmp(op, "evreg")) {
		int r;
		i = mt_objnum(a1, 'e');
		if (E[i].exists != 1 || E[i].owner != me_ || E[i].isreg) return 1;
		mt_log("API evRegister e%d\n", i);
		r = iv_event_register(E[i].o);
		E[i].isreg = (r == 0);
		mt_log("RET %d\n", r ? -1 : 0);
	} else if (!strcmp(op, "evunreg")) {
		i = mt_objnum(a1, 'e');
		/* the user must not unregister an event while another thread is inside iv_event_post on it */
		if (E[i].exists != 1 || E[i].owner != me_ || !E[i].isreg || E[i].posting) return 1;
		mt_log("API evUnregister e%d\n", i);
		E[i].isreg = 0;
		iv_event_unregister(E[i].o);
		mt_log("RET 0\n");
		if (a2 != NULL && !strcmp(a2, "free")) {
			mt_log("FREE e%d\n", i);
			free(E[i].o);
			E[i].o = NULL;
			E[i].exists = 2;
		}
	} else if (!strcmp(op, "evpost")) {
		i = mt_objnum(a1, 'e');
		if (E[i].exists != 1 || !E[i].isreg) return 1;
		mt_log("POST e%d owner=T%d\n", i, E[i].owner);
		E[i].posting++;
		errno = EINTR;	/* errno holds whatever an earlier call left there */
		iv_event_post(E[i].o);
		E[i].posting--;
		mt_log("POSTED e%d\n", i);
	} else if (!strcmp(op, "rawreg")) {
		int r;
		i = mt_objnum(a1, 'r');
		if (R[i].exists != 1 || R[i].owner != me_ || R[i].isreg) return 1;
		mt_log("API rawRegister r%d\n", i);
		r = iv_event_raw_register(R[i].o);
		R[i].isreg = (r == 0);
		mt_log("RET %d\n", r ? -1 : 0);
	} else if (!strcmp(op, "rawunreg")) {
		i = mt_objnum(a1, 'r');
		if (R[i].exists != 1 || R[i].owner != me_ || !R[i].isreg || R[i].posting) return 1;
		mt_log("API rawUnregister r%d\n", i);
		R[i].isreg = 0;
		iv_event_raw_unregister(R[i].o);
		mt_log("RET 0\n");
	} else if (!strcmp(op, "rawpost")) {
		int n = a2 ? atoi(a2) : 1;
		i = mt_objnum(a1, 'r');
		if (R[i].exists != 1 || !R[i].isreg) return 1;
		mt_log("RAWPOST r%d owner=T%d n=%d\n", i, R[i].owner, n);
		R[i].posting++;
		while (n-- > 0) {
			errno = EINTR;	/* errno holds whatever an earlier call left there */
			iv_event_raw_post(R[i].o);
		}
		R[i].posting--;
		mt_log("RAWPOSTED r%d\n", i);
	} else if (!strcmp(op, "quit")) {
		mt_log("API quit\n");
		iv_quit();
	} else if (!strcmp(op, "clk")) {
		mt_vclock += atoll(a1);
		mt_log("CLK %lld\n", mt_vclock);
		activity++;
	} else if (!strcmp(op, "inval")) {
		iv_invalidate_now();
	} else if (!strcmp(op, "yield")) {
		mt_yield();
	} else if (!strcmp(op, "appfd")) {
		/* the application opens descriptors of its own (an idle pipe): they take the lowest free numbers, e.g. one the library has
		 * just closed */
		int p[2];
		if (pipe(p) == 0)
			mt_log("APPFD %d %d\n", p[0], p[1]);
	} else if (!strcmp(op, "close0")) {
		/* the program closes its standard input (a daemon): descriptor number 0 is handed out to whatever is created next */
		close(0);
	} else if (!strcmp(op, "ledger")) {
		mt_ledger("LEDGER");
	} else if (!strcmp(op, "nop")) {
	} else {
		return 0;
	}
	return 1;
}

static void one_action(char *act)
{
	char *save = NULL;
	char *op = strtok_r(act, " \t\n", &save);
	char *a1, *a2;
	int guard = 0, i;

	if (op == NULL)
		return;
	if (op[0] == '?') { guard = 1; op++; }
	a1 = strtok_r(NULL, " \t\n", &save);
	a2 = strtok_r(NULL, " \t\n", &save);
	if (core_action(op, guard, a1, a2))
		return;
	for (i = 0; i < nexts; i++)
		if (exts[i]->action != NULL && exts[i]->action(op, guard, a1, a2, save))
			return;
	printf("HARNESS-ERROR unknown action %s\n", op);
	mt_finish(NULL);
}

static void run_actions(const char *actions)
{
	char *copy = strdup(actions), *save = NULL, *a;
	for (a = strtok_r(copy, ";", &save); a != NULL; a = strtok_r(NULL, ";", &save)) {
		char buf[512];
		snprintf(buf, sizeof(buf), "%s", a);
		one_action(buf);
	}
	free(copy);
}

void mt_run_actions(const char *actions) { run_actions(actions); }

static int cookie_id(void *c, long base)
{
	long v = (long)c;
	if (v < base || v >= base + MT_MAXO)
		return -1;
	return (int)(v - base);
}

static void h_timer(void *c)
{
	int i = cookie_id(c, 0x20000);
	if (i < 0) { mt_log("CB bad-cookie timer\n"); mt_finish("FIN"); }
	mt_log("CB t%d owner=T%d\n", i, T[i].owner);
	mt_react("t", i);
	mt_log("END\n");
}

static void h_task(void *c)
{
	int i = cookie_id(c, 0x30000);
	if (i < 0) { mt_log("CB bad-cookie task\n"); mt_finish("FIN"); }
	mt_log("CB k%d owner=T%d\n", i, K[i].owner);
	mt_react("k", i);
	mt_log("END\n");
}

static void h_event(void *c)
{
	int i = cookie_id(c, 0x40000);
	if (i < 0) { mt_log("CB bad-cookie event\n"); mt_finish("FIN"); }
	mt_log("CB e%d owner=T%d\n", i, E[i].owner);
	mt_react("e", i);
	mt_log("END\n");
}

static void h_raw(void *c)
{
	int i = cookie_id(c, 0x50000);
	if (i < 0) { mt_log("CB bad-cookie raw\n"); mt_finish("FIN"); }
	mt_log("CB r%d owner=T%d\n", i, R[i].owner);
	mt_react("r", i);
	mt_log("END\n");
}

/* ------------------------------------------------------------------ wrapped system calls (library refs) */
int __wrap_clock_gettime(clockid_t id, struct timespec *ts)
{
	(void)id;
	ts_of(mt_vclock, ts);
	return 0;
}

long __wrap_syscall(long nr, long a, long b, long c, long d, long e, long f)
{
	if (nr == __NR_eventfd2 || nr == __NR_eventfd) {
		if (nr == __NR_eventfd2 && (cfg_noeventfd2 || cfg_noeventfd)) { errno = ENOSYS; return -1; }
		if (nr == __NR_eventfd && cfg_noeventfd) { errno = ENOSYS; return -1; }
		/* a transient failure (descriptor table full), as opposed to the call not existing */
		if (eventfd_calls < 64 && (cfg_eventfd_emfile >> eventfd_calls++) & 1) { errno = EMFILE; return -1; }
	}
	if (nr == __NR_gettid)
		return 1000 + me_;
	return syscall(nr, a, b, c, d, e, f);
}

struct ktimer { int fd; int armed; long long val; };
static struct ktimer KT[MT_MAXT];

int __wrap_timerfd_create(int clockid, int flags)
{
	int r;
	if (cfg_notimerfd) { errno = ENOSYS; return -1; }
	r = timerfd_create(clockid, flags);
	KT[me_].fd = r;
	KT[me_].armed = 0;
	return r;
}

int __wrap_timerfd_settime(int fd, int flags, const struct itimerspec *nv, struct itimerspec *ov)
{
	struct itimerspec off;
	(void)flags; (void)ov;
	memset(&off, 0, sizeof(off));
	if (nv->it_value.tv_sec == 0 && nv->it_value.tv_nsec == 0) {
		KT[me_].armed = 0;
	} else {
		KT[me_].armed = 1;
		KT[me_].val = nv->it_value.tv_sec * 1000000000LL + nv->it_value.tv_nsec;
	}
	return timerfd_settime(fd, 0, &off, NULL);
}

int __wrap_epoll_ctl(int epfd, int op, int fd, struct epoll_event *ev)
{
	int r;
	mt_yield();
	r = epoll_ctl(epfd, op, fd, ev);
	if (ev != NULL && (ev->events & EPOLLONESHOT))
		mt_log("KICK-SEND\n");
	activity++;
	return r;
}

ssize_t __wrap_write(int fd, const void *buf, size_t n)
{
	ssize_t r;
	int i;
	mt_yield();
	for (i = 0; i < nexts; i++)
		if (exts[i]->write_hook != NULL) {
			int handled = 0;
			ssize_t rr = exts[i]->write_hook(fd, buf, n, &handled);
			if (handled)
				return rr;
		}
	r = write(fd, buf, n);
	activity++;
	return r;
}

ssize_t __wrap_read(int fd, void *buf, size_t count)
{
	ssize_t r = read(fd, buf, count);
	if (fd == KT[me_].fd && fd > 0)
		KT[me_].armed = 0;
	return r;
}

static void apply_stimuli(void)
{
	int i;
	for (i = 0; i < nst; i++)
		if (STM[i].thread == VT[me_].section && STM[i].waitno == VT[me_].waits_done && STM[i].actions != NULL) {
			char *a = STM[i].actions;
			STM[i].actions = NULL;
			run_actions(a);
			free(a);
		}
}

static void fire_ktimer_if_due(void)
{
	if (KT[me_].armed && KT[me_].fd > 0 && mt_vclock >= KT[me_].val) {
		struct itimerspec it;
		memset(&it, 0, sizeof(it));
		it.it_value.tv_nsec = 1;
		timerfd_settime(KT[me_].fd, TFD_TIMER_ABSTIME, &it, NULL);
	}
}

/* common blocking logic: `poll0()` polls the real kernel with zero timeout and returns the count */
static int virtual_wait(const char *prim, long long to_ns, int (*poll0)(void *), void *ctx)
{
	int r;

	VT[me_].wait_calls++;
	mt_log("WAIT prim=%s to=%lld\n", prim, to_ns);
	if (VT[me_].waits_done >= wait_limit)
		mt_finish("WAITLIMIT");
	apply_stimuli();
	mt_yield();
	for (;;) {
		fire_ktimer_if_due();
		r = poll0(ctx);
		if (r != 0)
			break;
		if (to_ns == 0)
			break;
		{
			long long dl = -1;
			if (to_ns > 0) dl = (VT[me_].state == ST_WAIT && VT[me_].deadline >= 0) ? VT[me_].deadline : mt_vclock + to_ns;
			if (KT[me_].armed && (dl < 0 || KT[me_].val < dl)) dl = KT[me_].val;
			if (dl >= 0 && mt_vclock >= dl && VT[me_].state == ST_WAIT)
				break;	/* timed out */
			VT[me_].state = ST_WAIT;
			VT[me_].deadline = dl;
			VT[me_].seen_activity = activity;
			block_and_switch();
			deliver_pending_signals();
			if (dl >= 0 && mt_vclock >= dl) {
				fire_ktimer_if_due();
				r = poll0(ctx);
				break;
			}
		}
	}
	VT[me_].state = ST_RUNNABLE;
	VT[me_].deadline = -1;
	VT[me_].waits_done++;
	mt_log("WRET n=%d\n", r);
	return r;
}

struct epctx { int epfd; struct epoll_event *ev; int max; };
static int epoll0(void *c) { struct epctx *x = c; return epoll_wait(x->epfd, x->ev, x->max, 0); }

int __wrap_epoll_pwait2(int epfd, struct epoll_event *events, int max, const struct timespec *to, const sigset_t *ss)
{
	struct epctx c = { epfd, events, max };
	(void)ss;
	if (cfg_nopwait2) { errno = ENOSYS; return -1; }
	return virtual_wait("epoll_pwait2", to ? to->tv_sec * 1000000000LL + to->tv_nsec : -1, epoll0, &c);
}

int __wrap_epoll_wait(int epfd, struct epoll_event *events, int max, int to_ms)
{
	struct epctx c = { epfd, events, max };
	return virtual_wait("epoll_wait", to_ms < 0 ? -1 : (long long)to_ms * 1000000LL, epoll0, &c);
}

struct plctx { struct pollfd *p; nfds_t n; };
static int poll0f(void *c) { struct plctx *x = c; return poll(x->p, x->n, 0); }

int __wrap_ppoll(struct pollfd *pfds, nfds_t n, const struct timespec *to, const sigset_t *ss)
{
	struct plctx c = { pfds, n };
	(void)ss;
	return virtual_wait("ppoll", to ? to->tv_sec * 1000000000LL + to->tv_nsec : -1, poll0f, &c);
}

int __wrap_poll(struct pollfd *pfds, nfds_t n, int to_ms)
{
	struct plctx c = { pfds, n };
	if (n == 1 && to_ms == 0)
		return poll(pfds, n, to_ms);
	return virtual_wait("poll", to_ms < 0 ? -1 : (long long)to_ms * 1000000LL, poll0f, &c);
}

/* ------------------------------------------------------------------ scenario */
#define MAXSEC 16
static char *sec_lines[MAXSEC][512];
static int sec_n[MAXSEC];
static int nsec = 1;

static void *section_thread(void *arg);

static void declare_obj(char *kind, char *name, char *rest, int owner)
{
	int i = atoi(name + 1) % MT_MAXO, x;
	if (!strcmp(kind, "timer")) {
		T[i].exists = 1; T[i].owner = owner; T[i].o = malloc(sizeof(struct iv_timer)); IV_TIMER_INIT(T[i].o);
		T[i].o->cookie = (void *)(long)(0x20000 + i); T[i].o->handler = h_timer;
	} else if (!strcmp(kind, "task")) {
		K[i].exists = 1; K[i].owner = owner; K[i].o = malloc(sizeof(struct iv_task)); IV_TASK_INIT(K[i].o);
		K[i].o->cookie = (void *)(long)(0x30000 + i); K[i].o->handler = h_task;
	} else if (!strcmp(kind, "event")) {
		E[i].exists = 1; E[i].owner = owner; E[i].o = malloc(sizeof(struct iv_event)); IV_EVENT_INIT(E[i].o);
		E[i].o->cookie = (void *)(long)(0x40000 + i); E[i].o->handler = h_event;
	} else if (!strcmp(kind, "raw")) {
		R[i].exists = 1; R[i].owner = owner; R[i].o = malloc(sizeof(struct iv_event_raw)); IV_EVENT_RAW_INIT(R[i].o);
		R[i].o->cookie = (void *)(long)(0x50000 + i); R[i].o->handler = h_raw;
	} else {
		for (x = 0; x < nexts; x++)
			if (exts[x]->declare != NULL && exts[x]->declare(kind, name, rest, owner))
				return;
		printf("HARNESS-ERROR unknown object kind %s\n", kind);
		mt_finish(NULL);
	}
}

static void run_section(int sec)
{
	int li;

	if (sec_plain[sec]) {
		mt_log("PLAIN\n");
		for (li = 0; li < sec_n[sec]; li++) {
			char work[MT_MAXLINE];
			char *save = NULL, *op;
			strcpy(work, sec_lines[sec][li]);
			op = strtok_r(work, " \t\n", &save);
			if (!strcmp(op, "do"))
				run_actions(save);
		}
		/* it stays around (blocked in something that is not ivykis, interruptible by signals) until every ivykis thread is done */
		VT[me_].plain = 1;
		for (;;) {
			int t, alive = 0;
			for (t = 0; t < MT_MAXT; t++)
				if (VT[t].state != ST_UNUSED && VT[t].state != ST_DONE && !VT[t].plain)
					alive = 1;
			if (!alive)
				break;
			VT[me_].state = ST_WAIT;
			VT[me_].deadline = -1;
			VT[me_].seen_activity = activity;
			block_and_switch();
			VT[me_].state = ST_RUNNABLE;
			deliver_pending_signals();
		}
		mt_log("PLAIN-END\n");
		return;
	}
	if (cfg_closefd0 && sec == 0)
		close(0);	/* the process runs with stdin closed: the next descriptor the library creates is number 0 */
	iv_init();
	mt_log("INIT method=%s\n", iv_poll_method_name());
	for (li = 0; li < sec_n[sec]; li++) {
		char work[MT_MAXLINE];
		char *save = NULL, *op;

		strcpy(work, sec_lines[sec][li]);
		op = strtok_r(work, " \t\n", &save);
		if (!strcmp(op, "obj")) {
			char *kind = strtok_r(NULL, " \t\n", &save);
			char *name = strtok_r(NULL, " \t\n", &save);
			declare_obj(kind, name, save, me_);
		} else if (!strcmp(op, "do")) {
			run_actions(save);
		} else if (!strcmp(op, "main")) {
			mt_log("API main\n");
			iv_main();
			mt_log("MAINRET\n");
		} else if (!strcmp(op, "deinit")) {
			iv_deinit();
			mt_log("DEINIT\n");
			iv_init();
		}
	}
	iv_deinit();
	mt_log("DEINIT\n");
}

static void *section_thread(void *arg)
{
	int sec = (int)(long)arg;
	run_section(sec);
	return NULL;
}

extern void __sanitizer_set_death_callback(void (*cb)(void));
static void flush_on_death(void) { fflush(stdout); }

static void verif_watchdog(int cpu_s, int wall_s)
{
	/* a library call that spins is cut by the CPU-time limit (independent of how loaded the machine is); one that sleeps for
	 * ever by the generous wall-clock limit */
	struct itimerval it = { { 0, 0 }, { cpu_s, 0 } };
	setitimer(ITIMER_PROF, &it, NULL);
	alarm(wall_s);
}

int main(int argc, char **argv)
{
	static char line[MT_MAXLINE];
	FILE *f = argc > 1 ? fopen(argv[1], "r") : stdin;
	int cursec = 0, i;
	const char *excl = NULL;
	static char exclbuf[256];

	if (f == NULL) { perror("scenario"); return 2; }
	setvbuf(stdout, NULL, _IOLBF, 0);
	__sanitizer_set_death_callback(flush_on_death);
	signal(SIGPIPE, SIG_IGN);
	verif_watchdog(20, 60);
	iv_set_fatal_msg_handler(fatal_handler);
	for (i = 0; i < MT_MAXT; i++)
		pthread_cond_init(&sched_cv[i], NULL);
	pthread_key_create(&done_key, done_destructor);

	while (fgets(line, sizeof(line), f) != NULL) {
		char *save = NULL;
		char work[MT_MAXLINE];
		char *op;

		strcpy(work, line);
		op = strtok_r(work, " \t\n", &save);
		if (op == NULL || op[0] == '#')
			continue;
		if (!strcmp(op, "exclude")) {
			char *rest = save;
			while (*rest == ' ') rest++;
			snprintf(exclbuf, sizeof(exclbuf), "%s", rest);
			exclbuf[strcspn(exclbuf, "\n")] = 0;
			excl = exclbuf;
		} else if (!strcmp(op, "cfg")) {
			char *c;
			while ((c = strtok_r(NULL, " \t\n", &save)) != NULL) {
				int x, ok = 0;
				if (!strcmp(c, "nopwait2")) cfg_nopwait2 = ok = 1;
				else if (!strcmp(c, "notimerfd")) cfg_notimerfd = ok = 1;
				else if (!strcmp(c, "noeventfd2")) cfg_noeventfd2 = ok = 1;
				else if (!strcmp(c, "noeventfd")) cfg_noeventfd = ok = 1;
				else if (!strncmp(c, "eventfd-emfile=", 15)) { int k = atoi(c + 15); if (k >= 1 && k <= 64) cfg_eventfd_emfile |= 1ULL << (k - 1); ok = 1; }
				else if (!strncmp(c, "seed=", 5)) { if (cfg_fill < 0) { static const int pat[4] = { 0xff, -1, 0x01, 0xa5 }; cfg_fill = pat[strtoull(c + 5, NULL, 10) & 3]; }
					rng_state = 88172645463325252ULL ^ (strtoull(c + 5, NULL, 10) * 2654435761ULL); if (!rng_state) rng_state = 1; ok = 1; }
				else if (!strncmp(c, "stay=", 5)) { stay_pct = atoi(c + 5); ok = 1; }
				else if (!strncmp(c, "sched=", 6)) {
					const char *q = c + 6;
					sched_mode = 1; sched_len = 0;
					while (*q && sched_len < (int)sizeof(sched_choice)) {
						if (*q >= '0' && *q <= '9') { sched_choice[sched_len++] = (unsigned char)strtol(q, (char **)&q, 10); }
						else q++;
					}
					if (getenv("IVY_SCHED_TRACE") != NULL && sched_trace == NULL)
						sched_trace = fopen(getenv("IVY_SCHED_TRACE"), "w");
					ok = 1;
				}
				else if (!strcmp(c, "closefd0")) cfg_closefd0 = ok = 1;
				else if (!strncmp(c, "fill=", 5)) { cfg_fill = atoi(c + 5) & 0xff; ok = 1; }
				else if (!strncmp(c, "waitlimit=", 10)) { wait_limit = atoi(c + 10); ok = 1; }
				else if (!strncmp(c, "cblimit=", 8)) { cb_limit = atoi(c + 8); ok = 1; }
				else if (!strncmp(c, "steplimit=", 10)) { step_limit = atoi(c + 10); ok = 1; }
				for (x = 0; x < nexts && !ok; x++)
					if (exts[x]->cfg != NULL && exts[x]->cfg(c))
						ok = 1;
				if (!ok) { printf("HARNESS-ERROR cfg %s\n", c); mt_finish(NULL); }
			}
		} else if (!strcmp(op, "thread")) {
			char *pl;
			cursec = atoi(strtok_r(NULL, " \t\n", &save));
			if (cursec >= MAXSEC) mt_finish("HARNESS-ERROR sections");
			if (cursec >= nsec) nsec = cursec + 1;
			/* `thread k plain`: a thread of the program that never calls iv_init (no ivykis state); it can still receive signals,
			 * post events and so on */
			if ((pl = strtok_r(NULL, " \t\n", &save)) != NULL && !strcmp(pl, "plain")) sec_plain[cursec] = 1;
		} else if (!strcmp(op, "on")) {
			char *who = strtok_r(NULL, " \t\n", &save);
			char *nth = strtok_r(NULL, " \t\n", &save);
			char *colon = strchr(save, ':');
			struct react *r = &RE[nre++];
			int k = 0;
			while (who[k] && !(who[k] >= '0' && who[k] <= '9') && k < 7) { r->kind[k] = who[k]; k++; }
			r->kind[k] = 0;
			r->id = atoi(who + k) % MT_MAXO;
			{
				char *dot = strchr(who, '.');
				if (dot != NULL) { strncat(r->kind, dot, 7 - strlen(r->kind)); }
			}
			r->nth = nth[0] == '*' ? 0 : atoi(nth);
			r->actions = strdup(colon ? colon + 1 : "");
		} else if (!strcmp(op, "at")) {
			char *wn = strtok_r(NULL, " \t\n", &save);
			char *colon = strchr(save, ':');
			STM[nst].thread = cursec;
			STM[nst].waitno = atoi(wn);
			STM[nst].actions = strdup(colon ? colon + 1 : "");
			nst++;
		} else if (!strcmp(op, "idle")) {
			char *wn = strtok_r(NULL, " \t\n", &save);
			char *colon = strchr(save, ':');
			IDLE[nidle].n = atoi(wn);
			IDLE[nidle].actions = strdup(colon ? colon + 1 : "");
			nidle++;
		} else {
			sec_lines[cursec][sec_n[cursec]++] = strdup(line);
		}
	}
	if (excl != NULL) setenv("IV_EXCLUDE_POLL_METHOD", excl, 1);
	else unsetenv("IV_EXCLUDE_POLL_METHOD");

	/* thread 0 is this thread */
	me_ = 0;
	cur = 0;
	VT[0].state = ST_RUNNABLE;
	VT[0].is_harness = 1;
	VT[0].section = 0;
	VT[0].pt = pthread_self();
	pthread_mutex_lock(&sched_mu);
	for (i = 0; i < nexts; i++)
		if (exts[i]->init != NULL)
			exts[i]->init();
	for (i = 1; i < nsec; i++)
		new_vthread(section_thread, (void *)(long)i, 1, i);
	run_section(0);
	printf("T0 SECTION-DONE\n");
	/* wait for everybody else */
	VT[0].state = ST_DONE;
	for (;;) {
		int t, alive = 0;
		for (t = 1; t < MT_MAXT; t++)
			if (VT[t].state != ST_UNUSED && VT[t].state != ST_DONE)
				alive = 1;
		if (!alive)
			break;
		{
			int next = pick_next(1);
			cur = next;
			pthread_cond_signal(&sched_cv[next]);
			while (cur != 0)
				pthread_cond_wait(&sched_cv[0], &sched_mu);
		}
	}
	mt_ledger("LEDGER-END");
	for (i = 0; i < nexts; i++)
		if (exts[i]->at_end != NULL)
			exts[i]->at_end();
	mt_finish("FIN");
	return 0;
}
