/*
 * T-replay harness for /repo/src/iv_inotify.c.  The source file is included white-box with
 * read/inotify_init/inotify_add_watch/inotify_rm_watch/close redirected to scripted virtual
 * versions: the scenario chooses the watch descriptors handed out and builds the buffers of
 * `struct inotify_event` records a read returns (several records per read, with and without
 * names, IN_IGNORED records, records for unknown descriptors, EINTR/EAGAIN results).  The
 * instance's fd handler is called directly.  Every instance / watch structure is malloc'ed
 * on its own and freed as soon as the API allows it (right after its unregister returns, or
 * by a scripted `free` once the library has dropped it), so ASan sees any later touch.
 * Handler reactions are scripted per (watch, n-th invocation).  Writes a log (see
 * /verif/lean/Ivy/Drv/Inotify.lean) on stdout.
 *
 *   inst  <i> <zero|junk|reuse:<j>> <ok|fail> malloc instance i (memory zeroed or 0xA5-filled) or take the kept structure of j; register;
 *                                            inotify_init fails when `fail`
 *   watch <w> <i> <maskhex> <wd>             malloc (or reuse a dropped) watch w on instance i; inotify_add_watch returns <wd> (-1 = error)
 *   unwatch <w>                              iv_inotify_watch_unregister + free
 *   uninst <i> [keep]                        iv_inotify_unregister + free instance (not with `keep`) and all structures of its watches
 *   free <w>                                 free a watch structure the library has dropped (IN_IGNORED / one-shot)
 *   event <i> [i]... (a | d <rec>...)        fd readable: EINTR results, then EAGAIN or a buffer; rec = wd:maskhex:cookie:len:fill
 *                                            fill: z = zero name bytes; f<wd> = every 16-byte chunk of the name is a fake header for <wd>
 *   react <w> <n> <action> [; <action>]...   what w's handler does on its n-th invocation (actions = inst/watch/unwatch/uninst/free)
 *
 * Real-kernel family (`real` as first op): inotify_init/add_watch/rm_watch/read go to the kernel; `watch <w> <i> <mask> <d>`
 * watches the directory d<d> of a private temporary tree (same d = same descriptor); `fs create|delete <d> <name>`,
 * `fs rmdir <d>` make the kernel queue events; `event <i> d` reads whatever is queued.  The harness parses the kernel's
 * buffer only to log it (`REC`), checking the layout contract the model assumes (`KERNEL bad` otherwise).
 */
#include <stdio.h>
#include <sys/time.h>
#include <stdlib.h>
#include <string.h>
#include <errno.h>
#include <unistd.h>
#include <stdint.h>
#include <sys/eventfd.h>
#include <sys/stat.h>
#include <fcntl.h>
#include <ftw.h>
#include <sys/inotify.h>
#include <iv.h>
#include <iv_avl.h>
#include <iv_inotify.h>

static ssize_t v_read(int fd, void *buf, size_t count);
static int v_inotify_init(void);
static int v_inotify_add_watch(int fd, const char *path, uint32_t mask);
static int v_inotify_rm_watch(int fd, int wd);
static int v_close(int fd);

#define read v_read
#define inotify_init v_inotify_init
#define inotify_add_watch v_inotify_add_watch
#define inotify_rm_watch v_inotify_rm_watch
#define close v_close
#include INOTIFY_SRC
#undef read
#undef inotify_init
#undef inotify_add_watch
#undef inotify_rm_watch
#undef close

#define MAXI 32
#define MAXW 128
#define MAXN 16
#define MAXREC 64
#define EVSZ ((unsigned)sizeof(struct inotify_event))

struct islot {
	struct iv_inotify *in;
	struct iv_inotify *kept;	/* unregistered with `keep`: memory not released, may be registered again under a new name */
	int used, registered, fd;
};
struct wslot {
	struct iv_inotify_watch *w;
	int id, used, alive, registered, inst, ncalls;
	uint32_t mask;
	char path[96];
	char *react[MAXN];
};
static struct islot is[MAXI];
static struct wslot ws[MAXW];

/* scripted results */
static struct { int fd, wd; } gone[256];	/* (instance descriptor, watch descriptor) pairs the virtual kernel has already removed */
static int ngone;
static int real_mode;
static char real_root[64];
static int next_init_fail;
static int next_wd;
static int in_cb;

/* the scripted read */
static int rd_eintr, rd_kind;	/* kind: 0 eagain, 1 data */
static int rd_armed;
static unsigned char rd_buf[65536];
static size_t rd_len;
static int rd_nrec;
static struct { unsigned off, len; int wd; uint32_t mask, cookie; } rd_rec[MAXREC], dl_rec[MAXREC];
static unsigned char dl_buf[65536];	/* what the last successful read handed to the library (a prefix of the queue) */
static int dl_nrec;
static void delivered(int nrec, size_t bytes);
static unsigned char *cur_base;	/* where the library's buffer lives during a walk */
static int cur_fd;

static ssize_t v_read(int fd, void *buf, size_t count)
{
	int k;
	printf("OUT read %d %zu\n", fd, count);
	if (fd != cur_fd)
		printf("BADFD read %d\n", fd);
	if (real_mode) {
		ssize_t r = read(fd, buf, count);
		size_t off = 0;
		if (r <= 0) {
			printf("READ eagain\n");
			errno = EAGAIN;
			return -1;
		}
		rd_nrec = 0;
		while (off + EVSZ <= (size_t)r && rd_nrec < MAXREC) {
			struct inotify_event ev;
			memcpy(&ev, (unsigned char *)buf + off, EVSZ);
			rd_rec[rd_nrec].off = off; rd_rec[rd_nrec].len = ev.len; rd_rec[rd_nrec].wd = ev.wd;
			rd_rec[rd_nrec].mask = ev.mask; rd_rec[rd_nrec].cookie = ev.cookie;
			rd_nrec++;
			off += EVSZ + ev.len;
		}
		if (off != (size_t)r) {		/* the kernel contract the model assumes */
			printf("KERNEL bad layout: %zd bytes, records end at %zu\n", r, off);
			fflush(stdout);
			_exit(3);
		}
		rd_len = r;
		memcpy(rd_buf, buf, r);
		cur_base = buf;
		delivered(rd_nrec, r);
		printf("KERNEL ok %d %zd\n", rd_nrec, r);
		printf("READ data %zd %d\n", r, rd_nrec);
		for (k = 0; k < rd_nrec; k++)
			printf("REC %u %d %u %u %u\n", rd_rec[k].off, rd_rec[k].wd, rd_rec[k].mask, rd_rec[k].cookie, rd_rec[k].len);
		return r;
	}
	if (rd_eintr > 0) {
		rd_eintr--;
		printf("READ eintr\n");
		errno = EINTR;
		return -1;
	}
	if (!rd_armed || rd_kind == 0) {
		rd_armed = 0;
		printf("READ eagain\n");
		errno = EAGAIN;
		return -1;
	}
	if (rd_len > count) {
		/* like the kernel: as many whole events as fit; a buffer too small for the very next event is an error (EINVAL), not
		 * "nothing to read"; what did not fit stays queued for the next read */
		int fit = 0;
		size_t bytes = 0, rest;
		while (fit < rd_nrec && rd_rec[fit].off + EVSZ + rd_rec[fit].len <= count) {
			bytes = rd_rec[fit].off + EVSZ + rd_rec[fit].len;
			fit++;
		}
		if (fit == 0) {
			printf("READ einval-buffer-too-small %zu\n", count);
			errno = EINVAL;
			return -1;
		}
		memcpy(buf, rd_buf, bytes);
		cur_base = buf;
		delivered(fit, bytes);
		printf("READ data %zu %d\n", bytes, fit);
		for (k = 0; k < fit; k++) {
			printf("REC %u %d %u %u %u\n", rd_rec[k].off, rd_rec[k].wd, rd_rec[k].mask, rd_rec[k].cookie, rd_rec[k].len);
			if ((rd_rec[k].mask & IN_IGNORED) && ngone < (int)(sizeof(gone) / sizeof(gone[0]))) {
				gone[ngone].fd = fd; gone[ngone].wd = rd_rec[k].wd; ngone++;
			}
		}
		rest = rd_len - bytes;
		memmove(rd_buf, rd_buf + bytes, rest);
		for (k = fit; k < rd_nrec; k++) {
			rd_rec[k - fit] = rd_rec[k];
			rd_rec[k - fit].off -= bytes;
		}
		rd_nrec -= fit;
		rd_len = rest;
		return bytes;
	}
	rd_armed = 0;
	memcpy(buf, rd_buf, rd_len);
	cur_base = buf;
	delivered(rd_nrec, rd_len);
	printf("READ data %zu %d\n", rd_len, rd_nrec);
	for (k = 0; k < rd_nrec; k++) {
		printf("REC %u %d %u %u %u\n", rd_rec[k].off, rd_rec[k].wd, rd_rec[k].mask, rd_rec[k].cookie, rd_rec[k].len);
		/* like the kernel: by the time an IN_IGNORED record can be read, the watch descriptor is gone on the kernel side, so an
		 * inotify_rm_watch for it (from a handler working through the earlier records of this batch) fails with EINVAL */
		if ((rd_rec[k].mask & IN_IGNORED) && ngone < (int)(sizeof(gone) / sizeof(gone[0]))) {
			gone[ngone].fd = fd; gone[ngone].wd = rd_rec[k].wd; ngone++;
		}
	}
	return rd_len;
}

static void delivered(int nrec, size_t bytes)
{
	memcpy(dl_rec, rd_rec, sizeof(dl_rec[0]) * nrec);
	memcpy(dl_buf, rd_buf, bytes);
	dl_nrec = nrec;
}

static int v_inotify_init(void)
{
	printf("OUT init\n");
	if (next_init_fail) {
		errno = EMFILE;
		return -1;
	}
	if (real_mode)
		return inotify_init();
	return eventfd(0, EFD_NONBLOCK);
}

static int v_inotify_add_watch(int fd, const char *path, uint32_t mask)
{
	printf("OUT addwatch %d %u\n", fd, mask);
	if (real_mode)
		return inotify_add_watch(fd, path, mask);
	if (next_wd == -1)
		errno = ENOENT;
	else {
		int k;		/* the descriptor number is in use again */
		for (k = 0; k < ngone; k++)
			if (gone[k].fd == fd && gone[k].wd == next_wd)
				gone[k] = gone[--ngone], k--;
	}
	return next_wd;
}

static int v_inotify_rm_watch(int fd, int wd)
{
	int k;
	printf("OUT rmwatch %d %d\n", fd, wd);
	if (real_mode)
		return inotify_rm_watch(fd, wd);
	for (k = 0; k < ngone; k++)
		if (gone[k].fd == fd && gone[k].wd == wd) {
			errno = EINVAL;
			return -1;
		}
	return 0;
}

static int v_close(int fd)
{
	printf("OUT close %d\n", fd);
	return close(fd);
}

/* is the watch structure a member of its instance's tree? (independent of __find_watch) */
static int in_tree(struct iv_inotify *in, struct iv_inotify_watch *w)
{
	struct iv_avl_node *an;
	iv_avl_tree_for_each (an, &in->watches)
		if (an == &w->an)
			return 1;
	return 0;
}

static void do_action(char *act);

static void cb(void *cookie, struct inotify_event *ev)
{
	struct wslot *s = cookie;
	long off = (unsigned char *)ev - cur_base;
	int n, k, intree = -1, nameok = 1;

	if (!s->alive) {
		printf("CB %d %ld DEAD\n", s->id, off);
		printf("HEND\n");
		return;
	}
	if (is[s->inst].registered)
		intree = in_tree(is[s->inst].in, s->w);
	/* the name bytes handed to the handler must be those of the record */
	for (k = 0; k < dl_nrec; k++)
		if ((long)dl_rec[k].off == off)
			break;
	if (k == dl_nrec || memcmp(ev, dl_buf + off, EVSZ + dl_rec[k].len) != 0)
		nameok = 0;
	printf("CB %d %ld %d %u %u %u %d %s\n", s->id, off, ev->wd, ev->mask, ev->cookie, ev->len, intree, nameok ? "ok" : "bad");
	/* what a user of the API knows: the library has dropped this watch */
	if ((ev->mask & IN_IGNORED) || (s->mask & IN_ONESHOT))
		s->registered = 0;
	n = s->ncalls++;
	in_cb++;
	if (n < MAXN && s->react[n] != NULL) {
		char *copy = strdup(s->react[n]), *save = NULL, *a;
		for (a = strtok_r(copy, ";", &save); a != NULL; a = strtok_r(NULL, ";", &save))
			do_action(a);
		free(copy);
	}
	in_cb--;
	printf("HEND\n");
}

static void free_watch(struct wslot *s)
{
	printf("WFREE %d\n", s->id);
	free(s->w);
	s->w = NULL;
	s->alive = 0;
	s->registered = 0;
}

static void act_inst(int i, const char *fill, int fail)
{
	struct islot *s;
	int r, reuse = -1;
	if (i < 0 || i >= MAXI || is[i].used) { printf("SKIP inst\n"); return; }
	if (!strncmp(fill, "reuse:", 6)) {
		reuse = atoi(fill + 6);
		if (reuse < 0 || reuse >= MAXI || is[reuse].kept == NULL) { printf("SKIP inst\n"); return; }
	}
	s = &is[i];
	s->used = 1;
	if (reuse >= 0) {
		s->in = is[reuse].kept;		/* the very same structure, contents as unregister left them */
		is[reuse].kept = NULL;
	} else {
		s->in = malloc(sizeof(*s->in));
		memset(s->in, !strcmp(fill, "junk") ? 0xA5 : 0, sizeof(*s->in));
	}
	next_init_fail = fail;
	printf("IREG %d %s\n", i, fill);
	IV_INOTIFY_INIT(s->in);
	r = iv_inotify_register(s->in);
	if (r == 0) {
		s->registered = 1;
		s->fd = s->in->fd.fd;
		printf("IRET %d %d\n", s->fd, r);
	} else {
		printf("IRET -1 %d\n", r);
		free(s->in);
		s->in = NULL;
	}
}

static void act_watch(int w, int i, uint32_t mask, int wd)
{
	struct wslot *s;
	int r;
	if (w < 0 || w >= MAXW || i < 0 || i >= MAXI || !is[i].registered) { printf("SKIP watch\n"); return; }
	s = &ws[w];
	if (s->used && (!s->alive || s->registered)) { printf("SKIP watch\n"); return; }
	if (!s->used) {
		s->used = 1;
		s->id = w;
		s->alive = 1;
		s->w = malloc(sizeof(*s->w));
		memset(s->w, 0xA5, sizeof(*s->w));
	}
	IV_INOTIFY_WATCH_INIT(s->w);
	s->w->inotify = is[i].in;
	if (real_mode) {
		snprintf(s->path, sizeof(s->path), "%s/d%d", real_root, wd);
		mkdir(s->path, 0700);
	} else {
		snprintf(s->path, sizeof(s->path), "/virtual");
	}
	s->w->pathname = s->path;
	s->w->mask = mask;
	s->w->cookie = s;
	s->w->handler = cb;
	s->inst = i;
	s->mask = mask;
	next_wd = wd;
	printf("WREG %d %d %u\n", w, i, mask);
	r = iv_inotify_watch_register(s->w);
	printf("WRET %d %d\n", s->w->wd, r);
	if (r == 0)
		s->registered = 1;
}

static void act_unwatch(int w)
{
	struct wslot *s;
	if (w < 0 || w >= MAXW || !ws[w].used || !ws[w].alive || !ws[w].registered) { printf("SKIP unwatch\n"); return; }
	s = &ws[w];
	printf("WUNREG %d\n", w);
	iv_inotify_watch_unregister(s->w);
	printf("WURET\n");
	free_watch(s);
}

static void act_uninst(int i, int keep)
{
	struct islot *s;
	int w;
	if (i < 0 || i >= MAXI || !is[i].registered) { printf("SKIP uninst\n"); return; }
	s = &is[i];
	printf("IUNREG %d\n", i);
	iv_inotify_unregister(s->in);
	printf("IURET\n");
	if (keep)
		s->kept = s->in;
	else
		free(s->in);
	s->in = NULL;
	s->registered = 0;
	/* the watches of a dead instance can only be thrown away */
	for (w = 0; w < MAXW; w++)
		if (ws[w].used && ws[w].alive && ws[w].inst == i)
			free_watch(&ws[w]);
}

static void act_free(int w)
{
	if (w < 0 || w >= MAXW || !ws[w].used || !ws[w].alive || ws[w].registered) { printf("SKIP free\n"); return; }
	free_watch(&ws[w]);
}

static void act_event(int i, char *rest)
{
	char *save = NULL, *tok;
	int data = 0;
	if (i < 0 || i >= MAXI || !is[i].registered || in_cb) { printf("SKIP event\n"); return; }
	rd_eintr = 0; rd_kind = 0; rd_len = 0; rd_nrec = 0;
	memset(rd_buf, 0, sizeof(rd_buf));
	for (tok = strtok_r(rest, " \n", &save); tok != NULL; tok = strtok_r(NULL, " \n", &save)) {
		if (!data) {
			if (!strcmp(tok, "i")) rd_eintr++;
			else if (!strcmp(tok, "a")) break;
			else if (!strcmp(tok, "d")) { data = 1; rd_kind = 1; }
			continue;
		}
		{
			int wd; unsigned mask, cookie, len; char fill[32] = "z";
			struct inotify_event ev;
			unsigned k;
			if (sscanf(tok, "%d:%x:%u:%u:%31s", &wd, &mask, &cookie, &len, fill) < 4)
				continue;
			if (rd_nrec >= MAXREC || rd_len + EVSZ + len > sizeof(rd_buf))
				break;
			memset(&ev, 0, sizeof(ev));
			ev.wd = wd; ev.mask = mask; ev.cookie = cookie; ev.len = len;
			memcpy(rd_buf + rd_len, &ev, EVSZ);
			if (fill[0] == 'f') {
				struct inotify_event fake;
				memset(&fake, 0, sizeof(fake));
				fake.wd = atoi(fill + 1); fake.mask = IN_MODIFY; fake.cookie = 64206; fake.len = 0;
				for (k = 0; k + EVSZ <= len; k += EVSZ)
					memcpy(rd_buf + rd_len + EVSZ + k, &fake, EVSZ);
			}
			rd_rec[rd_nrec].off = rd_len; rd_rec[rd_nrec].len = len; rd_rec[rd_nrec].wd = wd;
			rd_rec[rd_nrec].mask = mask; rd_rec[rd_nrec].cookie = cookie;
			rd_nrec++;
			rd_len += EVSZ + len;
		}
	}
	if (rd_kind == 1 && rd_nrec == 0 && !real_mode)
		rd_kind = 0;
	rd_armed = 1;
	cur_fd = is[i].fd;
	cur_base = NULL;
	printf("EVENT %d\n", i);
	is[i].in->fd.handler_in(is[i].in->fd.cookie);
	printf("END\n");
}

static void do_action(char *act)
{
	char op[16] = "", a1[16] = "", a2[16] = "";
	int x = 0, y = 0, n = 0;
	unsigned m = 0;
	if (sscanf(act, " %15s%n", op, &n) < 1)
		return;
	if (!strcmp(op, "inst")) {
		if (sscanf(act + n, "%d %15s %15s", &x, a1, a2) == 3)
			act_inst(x, a1, !strcmp(a2, "fail"));
	} else if (!strcmp(op, "watch")) {
		int wd;
		if (sscanf(act + n, "%d %d %x %d", &x, &y, &m, &wd) == 4)
			act_watch(x, y, m, wd);
	} else if (!strcmp(op, "unwatch")) {
		if (sscanf(act + n, "%d", &x) == 1)
			act_unwatch(x);
	} else if (!strcmp(op, "uninst")) {
		if (sscanf(act + n, "%d %15s", &x, a1) >= 1)
			act_uninst(x, !strcmp(a1, "keep"));
	} else if (!strcmp(op, "free")) {
		if (sscanf(act + n, "%d", &x) == 1)
			act_free(x);
	} else if (!strcmp(op, "real")) {
		if (!real_mode) {
			snprintf(real_root, sizeof(real_root), "/tmp/c20realXXXXXX");
			if (mkdtemp(real_root) != NULL) {
				real_mode = 1;
				printf("FS root %s\n", real_root);
			} else
				printf("KERNEL skip\n");
		}
	} else if (!strcmp(op, "fs")) {
		char path[192], name[64] = "";
		if (real_mode && sscanf(act + n, "%15s %d %63s", a1, &x, name) >= 2) {
			if (!strcmp(a1, "rmdir")) {
				snprintf(path, sizeof(path), "%s/d%d", real_root, x);
				rmdir(path);
			} else {
				snprintf(path, sizeof(path), "%s/d%d/%s", real_root, x, name);
				if (!strcmp(a1, "create")) {
					int f = open(path, O_CREAT | O_WRONLY, 0600);
					if (f >= 0) close(f);
				} else if (!strcmp(a1, "delete")) {
					unlink(path);
				}
			}
			printf("FS %s %d %s\n", a1, x, name);
		}
	} else if (!strcmp(op, "event")) {
		if (sscanf(act + n, "%d%n", &x, &y) >= 1)
			act_event(x, act + n + y);
	} else {
		printf("bad-op %s\n", op);
	}
}

static int rm_cb(const char *p, const struct stat *sb, int t, struct FTW *f)
{
	(void)sb; (void)t; (void)f;
	return remove(p);
}

static void verif_watchdog(int cpu_s, int wall_s)
{
	/* a library call that spins is cut by the CPU-time limit (independent of how loaded the machine is); one that sleeps for
	 * ever by the generous wall-clock limit */
	struct itimerval it = { { 0, 0 }, { cpu_s, 0 } };
	setitimer(ITIMER_PROF, &it, NULL);
	alarm(wall_s);
}

int main(void)
{
	static char line[16384];
	int i, w, n;

	setvbuf(stdout, NULL, _IOLBF, 1 << 16);
	verif_watchdog(120, 300);
	iv_init();
	printf("CONST %u %u %u\n", EVSZ, (unsigned)IN_IGNORED, (unsigned)IN_ONESHOT);
	while (fgets(line, sizeof(line), stdin) != NULL) {
		char *nl = strchr(line, '\n');
		if (nl) *nl = 0;
		if (line[0] == '#' || line[0] == 0)
			continue;
		if (!strncmp(line, "react ", 6)) {
			int pos = 0;
			if (sscanf(line + 6, "%d %d%n", &w, &n, &pos) == 2 && w >= 0 && w < MAXW && n >= 0 && n < MAXN) {
				free(ws[w].react[n]);
				ws[w].react[n] = strdup(line + 6 + pos);
			}
			continue;
		}
		do_action(line);
	}
	/* orderly shutdown: everything still registered is unregistered */
	for (w = 0; w < MAXW; w++)
		if (ws[w].used && ws[w].alive && ws[w].registered)
			act_unwatch(w);
	for (i = 0; i < MAXI; i++)
		if (is[i].registered)
			act_uninst(i, 0);
	for (i = 0; i < MAXI; i++)
		free(is[i].kept);
	for (w = 0; w < MAXW; w++) {
		if (ws[w].used && ws[w].alive)
			free_watch(&ws[w]);
		for (n = 0; n < MAXN; n++)
			free(ws[w].react[n]);
	}
	if (real_mode)
		nftw(real_root, rm_cb, 16, FTW_DEPTH | FTW_PHYS);
	iv_deinit();
	printf("FIN\n");
	fflush(stdout);
	return 0;
}
