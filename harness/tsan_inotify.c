/* C14 / ThreadSanitizer program 7: iv_inotify in several loop threads, each with its own instance.
 *   usage: tsan_inotify <seed> <threads> <ms>
 * Every loop thread owns one iv_inotify instance with two watches on private temporary directories and a timer that
 * makes the kernel queue bursts of several different events in them (two directories, one watch each) (create, modify, attribute change, delete), so that
 * most reads return a batch of more than one record while the other threads are reading and dispatching theirs.
 * Whatever iv_inotify.c keeps between read and dispatch is per call (per thread): two instances in two threads share
 * nothing.  The handlers count what they get; watches are dropped and re-added now and then from inside a handler.
 */
#include <iv.h>
#include <iv_inotify.h>
#include <sys/inotify.h>
#include <sys/stat.h>
#include <fcntl.h>
#include "tsan_util.h"

struct thr {
	int idx;
	pthread_t tid;
	uint64_t rng;
	char dir[2][64];
	struct iv_inotify in;
	struct iv_inotify_watch w[2];
	int wreg[2];
	struct iv_timer burst;
	struct iv_timer stop;
	int stopping;
	long n_events, n_bursts, n_rereg;
};

static struct thr T[MAXT];

static void add_watch(struct thr *t, int k);

static void watch_handler(void *_t, struct inotify_event *ev)
{
	struct thr *t = _t;

	(void)ev;
	t->n_events++;
	if (!t->stopping && tsu_rand(&t->rng) % 64 == 0) {
		int k = tsu_rand(&t->rng) % 2;
		if (t->wreg[k]) {
			iv_inotify_watch_unregister(&t->w[k]);
			t->wreg[k] = 0;
			add_watch(t, k);
			t->n_rereg++;
		}
	}
}

static void add_watch(struct thr *t, int k)
{
	IV_INOTIFY_WATCH_INIT(&t->w[k]);
	t->w[k].inotify = &t->in;
	t->w[k].pathname = t->dir[k];
	t->w[k].mask = k ? (IN_CREATE | IN_DELETE | IN_ATTRIB) : (IN_MODIFY | IN_OPEN | IN_CLOSE_WRITE | IN_ATTRIB | IN_CREATE);
	t->w[k].cookie = t;
	t->w[k].handler = watch_handler;
	if (iv_inotify_watch_register(&t->w[k]) == 0)
		t->wreg[k] = 1;
}

static void burst(void *_t)
{
	struct thr *t = _t;
	char p[96];
	int i, n = 1 + tsu_rand(&t->rng) % 4;

	for (i = 0; i < n; i++) {
		int fd;
		snprintf(p, sizeof(p), "%s/f%d", t->dir[tsu_rand(&t->rng) % 2], (int)(tsu_rand(&t->rng) % 3));
		fd = open(p, O_CREAT | O_WRONLY, 0600);
		if (fd >= 0) {
			if (write(fd, "x", 1) < 0) {}
			close(fd);
		}
		chmod(p, (tsu_rand(&t->rng) & 1) ? 0600 : 0640);
		if (tsu_rand(&t->rng) % 3 == 0)
			unlink(p);
	}
	t->n_bursts++;
	if (!t->stopping)
		tsu_arm(&t->burst, (200 + tsu_rand(&t->rng) % 800) * 1000LL);
}

static void stop_handler(void *_t)
{
	struct thr *t = _t;
	int k;

	t->stopping = 1;
	if (iv_timer_registered(&t->burst))
		iv_timer_unregister(&t->burst);
	for (k = 0; k < 2; k++)
		if (t->wreg[k]) {
			iv_inotify_watch_unregister(&t->w[k]);
			t->wreg[k] = 0;
		}
	iv_inotify_unregister(&t->in);
}

static void *thread_main(void *_t)
{
	struct thr *t = _t;
	char p[96];
	int i;

	if (t->idx != 0)
		iv_init();
	for (i = 0; i < 2; i++) {
		snprintf(t->dir[i], sizeof(t->dir[i]), "/tmp/tsan_inotify_%d_%d_%d", (int)getpid(), t->idx, i);
		mkdir(t->dir[i], 0700);
	}

	IV_INOTIFY_INIT(&t->in);
	if (iv_inotify_register(&t->in) == 0) {
		add_watch(t, 0);
		add_watch(t, 1);
		IV_TIMER_INIT(&t->burst);
		t->burst.cookie = t;
		t->burst.handler = burst;
		tsu_arm(&t->burst, 1000);
		IV_TIMER_INIT(&t->stop);
		t->stop.cookie = t;
		t->stop.handler = stop_handler;
		tsu_arm(&t->stop, g_dur_ms * 1000000LL);
		iv_main();
	}
	iv_deinit();
	for (i = 0; i < 6; i++) {
		snprintf(p, sizeof(p), "%s/f%d", t->dir[i / 3], i % 3);
		unlink(p);
	}
	rmdir(t->dir[0]);
	rmdir(t->dir[1]);
	return NULL;
}

int main(int argc, char **argv)
{
	int i;
	long ev = 0, b = 0, rr = 0;

	tsu_args(argc, argv, 3, 800);
	iv_init();
	for (i = 0; i < g_nthr; i++) {
		T[i].idx = i;
		T[i].rng = tsu_seed(i);
	}
	for (i = 1; i < g_nthr; i++)
		pthread_create(&T[i].tid, NULL, thread_main, &T[i]);
	thread_main(&T[0]);
	for (i = 1; i < g_nthr; i++)
		pthread_join(T[i].tid, NULL);
	for (i = 0; i < g_nthr; i++) {
		ev += T[i].n_events; b += T[i].n_bursts; rr += T[i].n_rereg;
	}
	printf("STATS prog=inotify threads=%d events=%ld bursts=%ld reregistered=%ld\n", g_nthr, ev, b, rr);
	return 0;
}
