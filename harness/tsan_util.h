/* Shared helpers for the free-running ThreadSanitizer programs of C14 (harness/tsan_*.c).
 *
 * These programs use real threads on the real kernel (no baton scheduler).  The only things that
 * come from the command line are: seed, number of threads, duration in ms.  All "random" choices
 * are drawn from per-thread xorshift generators seeded from (seed, thread index); the schedule
 * itself is of course up to the kernel, which is the point: ThreadSanitizer's happens-before
 * analysis makes the verdict independent of the timing actually observed.
 *
 * Every program is VALID USE of the ivykis API:
 *   - the first iv_init() completes before any other thread is started;
 *   - an object is registered/unregistered only by its owning thread;
 *   - an object is posted to from other threads only between two barriers that order the posts
 *     after its registration and before its unregistration.
 * The harness' own cross-thread variables are either C11 atomics or protected by pthread barriers,
 * so a ThreadSanitizer report whose stack lies in the library is the library's.
 */
#ifndef TSAN_UTIL_H
#define TSAN_UTIL_H
#include <iv.h>
#include <pthread.h>
#include <stdatomic.h>
#include <stdint.h>
#include <stdio.h>
#include <stdlib.h>
#include <string.h>
#include <time.h>
#include <unistd.h>

#define MAXT 8

static unsigned g_seed = 1;
static int g_nthr = 2;
static int g_dur_ms = 800;

static inline void tsu_args(int argc, char **argv, int def_thr, int def_ms)
{
	g_nthr = def_thr;
	g_dur_ms = def_ms;
	if (argc > 1)
		g_seed = (unsigned)strtoul(argv[1], NULL, 10);
	if (argc > 2)
		g_nthr = atoi(argv[2]);
	if (argc > 3)
		g_dur_ms = atoi(argv[3]);
	if (g_nthr < 1)
		g_nthr = 1;
	if (g_nthr > MAXT)
		g_nthr = MAXT;
}

static inline uint64_t tsu_seed(int idx)
{
	uint64_t x = 0x9e3779b97f4a7c15ULL * (g_seed + 1) + 0xbf58476d1ce4e5b9ULL * (idx + 1);
	return x ? x : 1;
}

static inline uint32_t tsu_rand(uint64_t *s)
{
	uint64_t x = *s;
	x ^= x << 13;
	x ^= x >> 7;
	x ^= x << 17;
	*s = x;
	return (uint32_t)(x >> 32);
}

static inline void tsu_sleep_us(int us)
{
	struct timespec ts = { us / 1000000, (us % 1000000) * 1000L };
	nanosleep(&ts, NULL);
}

/* This ThreadSanitizer runtime has no interceptor for epoll_pwait2().  An asynchronous signal that arrives just
 * before an un-intercepted blocking call is only QUEUED by the runtime (its handler runs at the next interceptor),
 * so the handler's wake-up write never happens and the loop sleeps for ever -- an artefact of the tool, not of
 * the library (natively the handler runs at once).  The programs therefore answer ENOSYS for epoll_pwait2(), which
 * makes the library take its documented fallback to epoll_wait() (intercepted; timeouts come from the timerfd). */
#include <errno.h>
#include <sys/epoll.h>
int epoll_pwait2(int epfd, struct epoll_event *ev, int maxev, const struct timespec *tmo, const sigset_t *ss)
{
	(void)epfd; (void)ev; (void)maxev; (void)tmo; (void)ss;
	errno = ENOSYS;
	return -1;
}

/* (re)arm a timer `ns` nanoseconds from the loop's current time */
static inline void tsu_arm(struct iv_timer *tm, long long ns)
{
	iv_validate_now();
	tm->expires = iv_now;
	tm->expires.tv_sec += ns / 1000000000LL;
	tm->expires.tv_nsec += ns % 1000000000LL;
	if (tm->expires.tv_nsec >= 1000000000) {
		tm->expires.tv_sec++;
		tm->expires.tv_nsec -= 1000000000;
	}
	iv_timer_register(tm);
}

#endif
