/*
 * T-diff harness for the loop's time arithmetic, on the REAL code: the `static inline` functions
 * timespec_gt / to_relative / to_msec of /repo/src/iv_private.h (compiled into this file from the
 * tree under test), iv_validate_now / iv_invalidate_now / iv_run_timers / iv_get_soonest_timeout of
 * /repo/src/iv_timer.c, and iv_fd_epoll_timerfd_{set,clear}_poll_timeout of /repo/src/iv_fd_epoll.c
 * (reached through the method table iv_fd_poll_method_epoll_timerfd).  Reads the same op lines as
 * the Lean driver (`ivyreplay timearith`, lean/Ivy/Drv/TimeArith.lean) and prints the same lines.
 *
 * Linked against the library objects of the current tree (vlib/common.py build_wrapped) with two
 * redirected symbols:
 *   iv_time_get      every reference of the library, and (by the #define below) of the inline
 *                    functions compiled here, lands in __wrap_iv_time_get: the harness decides
 *                    what the clock returns and counts the reads;
 *   timerfd_settime  logged, not executed (a deadline in the past or with a negative tv_sec must
 *                    not reach the kernel).
 * The state is the thread's real `struct iv_state` (after iv_init, method epoll-timerfd);
 * white-box writes of st->time / st->time_valid only where an op says so.
 *
 * Numbers: optional '-' and 1..19 digits; seconds |v| < 2^62, nanoseconds |v| <= 2*10^9;
 * anything else -> bad-op.
 *
 *   gt a.s a.ns b.s b.ns        timespec_gt(&a, &b)                              -> GT 0|1
 *   due now.s now.ns e.s e.ns   timer with expires = e registered, st->time := now (valid),
 *                               iv_run_timers(st): did its handler run?         -> DUE 0|1
 *   rel now.s now.ns a.s a.ns   st->time := now (valid); to_relative(st,&rel,&a) -> REL s ns
 *   msec now.s now.ns (a.s a.ns|none)   st->time := now (valid); to_msec(st, &a | NULL) -> MSEC m
 *   arm a.s a.ns                set_poll_timeout(st, &a): it_value handed to timerfd_settime -> ARM s ns
 *   clear                       clear_poll_timeout(st)                            -> CLEAR s ns
 *        (gt/due/rel/msec/arm/clear save and restore the clock cache; a clock read, a non-zero
 *         it_interval, flags != TFD_TIMER_ABSTIME or a missing call append a marker to the line)
 *   clock s ns                  what iv_time_get returns from now on              -> CLOCK
 *   inval                       iv_invalidate_now()                               -> INVAL valid=v t=s ns
 *   valid                       the function iv_validate_now() of iv_timer.c      -> VALID read=r valid=v t=s ns
 *   now                         the public macro iv_now (= *__iv_now_location_valid()) -> NOW read=r valid=v t=s ns
 *                               (t is the value READ THROUGH the returned pointer; BADPTR if that is not &st->time)
 *   relc (a.s a.ns|none)        to_relative(st, &rel, &a | NULL)                  -> RELC read=r valid=v t=s ns rel=(s ns|null)
 *   msecc (a.s a.ns|none)       a timer with expires = a registered (none: no timer);
 *                               to_msec(st, iv_get_soonest_timeout(st))           -> MSECC read=r valid=v t=s ns ms=m
 *   runc (e.s e.ns|none)        a timer with expires = e registered (none: no timer);
 *                               iv_run_timers(st)                                 -> RUNC read=r valid=v t=s ns due=d
 */
#include <stdio.h>
#include <stdlib.h>
#include <string.h>
#include <unistd.h>
#include <sys/time.h>
#include <sys/timerfd.h>
#include <iv.h>

#define iv_time_get __wrap_iv_time_get
#include "iv_private.h"

/* iv.h turns iv_validate_now() into an empty macro (iv_now validates on use); the function is still exported by iv_timer.c */
#undef iv_validate_now
void iv_validate_now(void);

static struct timespec next_clock;
static int reads;

void __wrap_iv_time_get(struct timespec *time)
{
	reads++;
	*time = next_clock;
}

static int settime_calls, settime_flags;
static struct itimerspec settime_val;

int __wrap_timerfd_settime(int fd, int flags, const struct itimerspec *new_value, struct itimerspec *old_value)
{
	(void)fd; (void)old_value;
	settime_calls++;
	settime_flags = flags;
	settime_val = *new_value;
	return 0;
}

static void fatal_handler(const char *msg)
{
	printf("FATAL %s\n", msg);
	fflush(stdout);
	_exit(5);
}

static struct iv_timer tm;
static int ran;

static void handler(void *cookie)
{
	(void)cookie;
	ran++;
}

/* optional '-' and 1..19 digits, |v| <= lim */
static int parse_int(const char *s, long long lim, int strict, long long *out)
{
	int neg = 0, n = 0;
	unsigned long long v = 0;

	if (s == NULL)
		return 0;
	if (*s == '-') {
		neg = 1;
		s++;
	}
	for (; *s; s++, n++) {
		if (*s < '0' || *s > '9' || n >= 19)
			return 0;
		v = v * 10 + (unsigned long long)(*s - '0');
	}
	if (n == 0)
		return 0;
	if (strict ? v >= (unsigned long long)lim : v > (unsigned long long)lim)
		return 0;
	*out = neg ? -(long long)v : (long long)v;
	return 1;
}

static int parse_ts(char **w, struct timespec *ts)
{
	long long s, ns;

	if (!parse_int(w[0], 4611686018427387904LL, 1, &s) || !parse_int(w[1], 2000000000LL, 0, &ns))
		return 0;
	ts->tv_sec = (time_t)s;
	ts->tv_nsec = (long)ns;
	return 1;
}

/* 1: a timespec, 2: none, 0: ill-formed */
static int parse_opt_ts(char **w, int nw, struct timespec *ts)
{
	if (nw == 1 && !strcmp(w[0], "none"))
		return 2;
	if (nw == 2 && parse_ts(w, ts))
		return 1;
	return 0;
}

static void cache_tail(struct iv_state *st)
{
	printf(" valid=%d t=%lld %ld", st->time_valid, (long long)st->time.tv_sec, (long)st->time.tv_nsec);
}

static void do_op(char *line)
{
	struct iv_state *st = iv_get_state();
	char *w[8], *save = NULL, *p;
	int nw = 0;
	struct timespec a, b, rel;
	struct timespec saved_time = st->time;
	int saved_valid = st->time_valid;
	int r0 = reads;

	/* like the Lean driver: trim ASCII white space at both ends, then split at spaces only */
	while (*line == ' ' || *line == '\t' || *line == '\r' || *line == '\n')
		line++;
	for (p = line + strlen(line); p > line && (p[-1] == ' ' || p[-1] == '\t' || p[-1] == '\r' || p[-1] == '\n'); p--)
		p[-1] = 0;
	for (p = strtok_r(line, " ", &save); p != NULL; p = strtok_r(NULL, " ", &save)) {
		if (nw == 8) {
			printf("bad-op\n");
			return;
		}
		w[nw++] = p;
	}
	if (nw == 0)
		return;

	if (!strcmp(w[0], "gt") && nw == 5 && parse_ts(w + 1, &a) && parse_ts(w + 3, &b)) {
		printf("GT %d\n", timespec_gt(&a, &b));
	} else if (!strcmp(w[0], "due") && nw == 5 && parse_ts(w + 1, &a) && parse_ts(w + 3, &b)) {
		st->time = a;
		st->time_valid = 1;
		tm.expires = b;
		ran = 0;
		iv_timer_register(&tm);
		iv_run_timers(st);
		if (iv_timer_registered(&tm))
			iv_timer_unregister(&tm);
		printf("DUE %d%s\n", ran, reads != r0 ? " UNEXPECTED-READ" : "");
		st->time = saved_time;
		st->time_valid = saved_valid;
	} else if (!strcmp(w[0], "rel") && nw == 5 && parse_ts(w + 1, &a) && parse_ts(w + 3, &b)) {
		struct timespec *ret;

		st->time = a;
		st->time_valid = 1;
		rel.tv_sec = 12345;
		rel.tv_nsec = 6789;
		ret = to_relative(st, &rel, &b);
		printf("REL %lld %ld%s%s\n", (long long)rel.tv_sec, (long)rel.tv_nsec, ret != &rel ? " BADRET" : "",
		       reads != r0 ? " UNEXPECTED-READ" : "");
		st->time = saved_time;
		st->time_valid = saved_valid;
	} else if (!strcmp(w[0], "msec") && nw >= 4 && parse_ts(w + 1, &a) && parse_opt_ts(w + 3, nw - 3, &b)) {
		int m;

		st->time = a;
		st->time_valid = 1;
		m = to_msec(st, parse_opt_ts(w + 3, nw - 3, &b) == 1 ? &b : NULL);
		printf("MSEC %d%s\n", m, reads != r0 ? " UNEXPECTED-READ" : "");
		st->time = saved_time;
		st->time_valid = saved_valid;
	} else if (!strcmp(w[0], "arm") && nw == 3 && parse_ts(w + 1, &a)) {
		int ret;

		settime_calls = 0;
		ret = iv_fd_poll_method_epoll_timerfd.set_poll_timeout(st, &a);
		printf("ARM %lld %ld%s%s%s%s%s\n", (long long)settime_val.it_value.tv_sec, (long)settime_val.it_value.tv_nsec,
		       settime_calls != 1 ? " BADCALLS" : "", ret != 1 ? " BADRET" : "",
		       settime_flags != TFD_TIMER_ABSTIME ? " BADFLAGS" : "",
		       (settime_val.it_interval.tv_sec || settime_val.it_interval.tv_nsec) ? " BADINTERVAL" : "",
		       (reads != r0 || st->time_valid != saved_valid) ? " CLOCK-TOUCHED" : "");
	} else if (!strcmp(w[0], "clear") && nw == 1) {
		settime_calls = 0;
		settime_val.it_value.tv_sec = 777;
		iv_fd_poll_method_epoll_timerfd.clear_poll_timeout(st);
		printf("CLEAR %lld %ld%s%s%s%s\n", (long long)settime_val.it_value.tv_sec, (long)settime_val.it_value.tv_nsec,
		       settime_calls != 1 ? " BADCALLS" : "",
		       settime_flags != TFD_TIMER_ABSTIME ? " BADFLAGS" : "",
		       (settime_val.it_interval.tv_sec || settime_val.it_interval.tv_nsec) ? " BADINTERVAL" : "",
		       (reads != r0 || st->time_valid != saved_valid) ? " CLOCK-TOUCHED" : "");
	} else if (!strcmp(w[0], "clock") && nw == 3 && parse_ts(w + 1, &a)) {
		next_clock = a;
		printf("CLOCK\n");
	} else if (!strcmp(w[0], "inval") && nw == 1) {
		iv_invalidate_now();
		printf("INVAL");
		cache_tail(st);
		printf("\n");
	} else if (!strcmp(w[0], "valid") && nw == 1) {
		iv_validate_now();
		printf("VALID read=%d", reads - r0);
		cache_tail(st);
		printf("\n");
	} else if (!strcmp(w[0], "now") && nw == 1) {
		const struct timespec *loc = &iv_now;

		printf("NOW read=%d valid=%d t=%lld %ld%s\n", reads - r0, st->time_valid, (long long)loc->tv_sec, (long)loc->tv_nsec,
		       loc != &st->time ? " BADPTR" : "");
	} else if (!strcmp(w[0], "relc") && parse_opt_ts(w + 1, nw - 1, &a)) {
		int some = parse_opt_ts(w + 1, nw - 1, &a) == 1;
		struct timespec *ret;

		rel.tv_sec = 12345;
		rel.tv_nsec = 6789;
		ret = to_relative(st, &rel, some ? &a : NULL);
		printf("RELC read=%d", reads - r0);
		cache_tail(st);
		if (ret == NULL)
			printf(" rel=null");
		else
			printf(" rel=%lld %ld", (long long)ret->tv_sec, (long)ret->tv_nsec);
		printf("%s\n", (some ? ret != &rel : ret != NULL) ? " BADRET" : "");
	} else if (!strcmp(w[0], "msecc") && parse_opt_ts(w + 1, nw - 1, &a)) {
		int some = parse_opt_ts(w + 1, nw - 1, &a) == 1;
		const struct timespec *soon;
		int m;

		if (some) {
			tm.expires = a;
			iv_timer_register(&tm);
		}
		soon = iv_get_soonest_timeout(st);
		m = to_msec(st, soon);
		printf("MSECC read=%d", reads - r0);
		cache_tail(st);
		printf(" ms=%d%s\n", m, (some ? soon == NULL : soon != NULL) ? " BADSOON" : "");
		if (some)
			iv_timer_unregister(&tm);
	} else if (!strcmp(w[0], "runc") && parse_opt_ts(w + 1, nw - 1, &a)) {
		int some = parse_opt_ts(w + 1, nw - 1, &a) == 1;

		ran = 0;
		if (some) {
			tm.expires = a;
			iv_timer_register(&tm);
		}
		iv_run_timers(st);
		if (iv_timer_registered(&tm))
			iv_timer_unregister(&tm);
		printf("RUNC read=%d", reads - r0);
		cache_tail(st);
		printf(" due=%d\n", ran);
	} else {
		printf("bad-op\n");
	}
}

int main(void)
{
	static char line[4096];
	struct iv_state *st;
	struct itimerval it = { { 0, 0 }, { 60, 0 } };

	setvbuf(stdout, NULL, _IOFBF, 1 << 16);
	setitimer(ITIMER_PROF, &it, NULL);
	alarm(300);
	unsetenv("IV_EXCLUDE_POLL_METHOD");
	unsetenv("IV_SELECT_POLL_METHOD");
	iv_set_fatal_msg_handler(fatal_handler);
	iv_init();
	if (strcmp(iv_poll_method_name(), "epoll-timerfd")) {
		printf("FATAL poll method is %s, not epoll-timerfd\n", iv_poll_method_name());
		fflush(stdout);
		return 6;
	}
	st = iv_get_state();
	st->time_valid = 0;
	st->time.tv_sec = 0;
	st->time.tv_nsec = 0;
	reads = 0;
	IV_TIMER_INIT(&tm);
	tm.handler = handler;
	while (fgets(line, sizeof(line), stdin) != NULL)
		do_op(line);
	iv_deinit();
	fflush(stdout);
	return 0;
}
