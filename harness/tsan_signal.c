/* C14 / ThreadSanitizer program 5: signals delivered with pthread_kill() / kill() while signal interests are
 * registered and unregistered in several loop threads.   usage: tsan_signal <seed> <threads> <ms>
 *
 * Thread 0 keeps one permanent process-wide interest in SIGUSR1 and SIGUSR2 for the whole run, so a handler is
 * always installed while signals fly.  Every loop thread churns three interest slots (random signal, random
 * combination of IV_SIGNAL_FLAG_EXCLUSIVE / IV_SIGNAL_FLAG_THIS_THREAD).  A separate plain pthread (which has
 * both signals blocked) fires thread-directed and process-directed signals at the loop threads.
 * Shutdown: thread 0 stops and joins the killer, then all loop threads meet at a barrier, block both signals,
 * meet at a second barrier and only then unregister (a late signal can therefore never meet the default
 * disposition in a thread that has not blocked it yet).
 *
 * Only ONE of the two signal numbers is actually sent in a run (chosen by the seed; interests in the other one
 * are still churned).  Reason: this ThreadSanitizer runtime defers asynchronous signals and runs the handlers at
 * the exit of its interceptors WITHOUT honouring the handler's sa_mask: with two different signals pending it
 * calls the second handler from inside the first one (at the exit of the pthread_spin_lock interceptor, i.e.
 * with sig_lock held), which the kernel can never do, and the nested handler spins on sig_lock for ever.  With a
 * single signal number there is one pending slot and no nesting.
 */
#include <iv.h>
#include <iv_signal.h>
#include <signal.h>
#include "tsan_util.h"

#define SLOTS 3

struct thr {
	int idx;
	pthread_t tid;
	uint64_t rng;
	struct iv_signal slot[SLOTS];
	int reg[SLOTS];
	struct iv_signal perm[2];
	struct iv_timer tick, stop;
	int stopping;
	long n_sig, n_churn;
};

static struct thr T[MAXT];
static pthread_barrier_t start_bar, stop_bar;
static pthread_t killer_tid;
static atomic_int stop_kill;
static atomic_long n_kills;
static pthread_barrier_t blocked_bar;
static int the_sig;

static void sig_handler(void *_t)
{
	((struct thr *)_t)->n_sig++;
}

static void tick_handler(void *_t)
{
	struct thr *t = _t;
	int k = tsu_rand(&t->rng) % SLOTS;

	if (t->stopping)
		return;
	if (t->reg[k]) {
		iv_signal_unregister(&t->slot[k]);
		t->reg[k] = 0;
	} else {
		IV_SIGNAL_INIT(&t->slot[k]);
		t->slot[k].signum = (tsu_rand(&t->rng) & 1) ? SIGUSR1 : SIGUSR2;
		t->slot[k].flags = tsu_rand(&t->rng) % 4;	/* 0, EXCLUSIVE, THIS_THREAD, both */
		t->slot[k].cookie = t;
		t->slot[k].handler = sig_handler;
		iv_signal_register(&t->slot[k]);
		t->reg[k] = 1;
	}
	t->n_churn++;
	tsu_arm(&t->tick, (tsu_rand(&t->rng) % 8) * 25000);
}

static void *killer(void *x)
{
	uint64_t rng = tsu_seed(77);
	sigset_t s;

	(void)x;
	sigemptyset(&s);
	sigaddset(&s, SIGUSR1);
	sigaddset(&s, SIGUSR2);
	pthread_sigmask(SIG_BLOCK, &s, NULL);

	pthread_barrier_wait(&start_bar);
	while (!atomic_load(&stop_kill)) {
		int sig = the_sig;

		if (tsu_rand(&rng) % 3 == 0)
			kill(getpid(), sig);
		else
			pthread_kill(T[tsu_rand(&rng) % g_nthr].tid, sig);
		atomic_fetch_add(&n_kills, 1);
		if (tsu_rand(&rng) % 4 == 0)
			tsu_sleep_us(20 + tsu_rand(&rng) % 100);
	}
	return NULL;
}

static void stop_handler(void *_t)
{
	struct thr *t = _t;
	sigset_t s;
	int k;

	t->stopping = 1;
	if (iv_timer_registered(&t->tick))
		iv_timer_unregister(&t->tick);
	if (t->idx == 0) {
		atomic_store(&stop_kill, 1);
		pthread_join(killer_tid, NULL);
	}
	pthread_barrier_wait(&stop_bar);

	sigemptyset(&s);
	sigaddset(&s, SIGUSR1);
	sigaddset(&s, SIGUSR2);
	pthread_sigmask(SIG_BLOCK, &s, NULL);
	pthread_barrier_wait(&blocked_bar);

	for (k = 0; k < SLOTS; k++)
		if (t->reg[k])
			iv_signal_unregister(&t->slot[k]);
	if (t->idx == 0) {
		iv_signal_unregister(&t->perm[0]);
		iv_signal_unregister(&t->perm[1]);
	}
}

static void *thread_main(void *_t)
{
	struct thr *t = _t;

	if (t->idx != 0)
		iv_init();

	IV_TIMER_INIT(&t->tick);
	t->tick.cookie = t;
	t->tick.handler = tick_handler;
	tsu_arm(&t->tick, 0);

	IV_TIMER_INIT(&t->stop);
	t->stop.cookie = t;
	t->stop.handler = stop_handler;
	tsu_arm(&t->stop, g_dur_ms * 1000000LL);

	pthread_barrier_wait(&start_bar);

	iv_main();
	iv_deinit();
	return NULL;
}

int main(int argc, char **argv)
{
	int i;
	long sigs = 0, churn = 0;

	tsu_args(argc, argv, 3, 800);
	pthread_barrier_init(&start_bar, NULL, g_nthr + 1);
	pthread_barrier_init(&stop_bar, NULL, g_nthr);
	pthread_barrier_init(&blocked_bar, NULL, g_nthr);
	the_sig = (g_seed & 1) ? SIGUSR1 : SIGUSR2;

	iv_init();
	for (i = 0; i < g_nthr; i++) {
		T[i].idx = i;
		T[i].rng = tsu_seed(i);
	}
	T[0].tid = pthread_self();

	for (i = 0; i < 2; i++) {
		IV_SIGNAL_INIT(&T[0].perm[i]);
		T[0].perm[i].signum = i ? SIGUSR2 : SIGUSR1;
		T[0].perm[i].flags = 0;
		T[0].perm[i].cookie = &T[0];
		T[0].perm[i].handler = sig_handler;
		iv_signal_register(&T[0].perm[i]);
	}

	for (i = 1; i < g_nthr; i++)
		pthread_create(&T[i].tid, NULL, thread_main, &T[i]);
	pthread_create(&killer_tid, NULL, killer, NULL);
	thread_main(&T[0]);
	for (i = 1; i < g_nthr; i++)
		pthread_join(T[i].tid, NULL);

	for (i = 0; i < g_nthr; i++) {
		sigs += T[i].n_sig; churn += T[i].n_churn;
	}
	printf("STATS prog=signal threads=%d signo=%d kills=%ld handled=%ld churn=%ld\n", g_nthr, the_sig, atomic_load(&n_kills), sigs, churn);
	return 0;
}
