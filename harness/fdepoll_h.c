/*
 * T-diff harness for the registration bookkeeping of the epoll back end (/repo/src/iv_fd_epoll.c as
 * driven by /repo/src/iv_fd.c).  Reads the same op lines as the Lean driver (`ivyreplay fdepoll`,
 * lean/Ivy/Drv/FdEpoll.lean) on stdin and prints the same result lines, produced by the REAL library
 * code talking to the REAL kernel.
 *
 * Universe: 8 objects `struct iv_fd obj[8]` (cookie = index), 8 descriptor slots.  Slot d is a
 * socketpair(AF_UNIX, SOCK_STREAM) whose ends sit at the FIXED descriptor numbers 100+2d (given to
 * ivykis) and 101+2d (peer), so the number of a closed slot is never reused and `regtry` on a closed
 * slot gets EBADF.
 *
 * Only the library's references to epoll_ctl / epoll_wait / epoll_pwait2 are redirected (ld -r
 * --wrap): the wrappers forward to the real call and log what went in / came out.
 *
 * Bookkeeping (a function of the op history and of the kernel's answers only): isreg / slot_of /
 * ever per object; closed / peer_open / kern per slot (kern[d] = the REAL kernel has an entry for
 * slot d; kdata[d] = the object index stored as its data.ptr).
 *
 * Build: vlib/c15epoll.py build()  (common.build_wrapped(..., ["epoll_ctl","epoll_wait","epoll_pwait2"]))
 * Poll method: forced from outside with IV_EXCLUDE_POLL_METHOD; `METHOD <name>` on stderr.
 */
#include <stdio.h>
#include <stdlib.h>
#include <string.h>
#include <stdint.h>
#include <errno.h>
#include <fcntl.h>
#include <unistd.h>
#include <sys/time.h>
#include <sys/epoll.h>
#include <sys/socket.h>
#include <iv.h>
#include "iv_private.h"

#define NOBJ	8
#define ND	8
#define FDNUM(d)	(100 + 2 * (d))
#define PEERNUM(d)	(101 + 2 * (d))

static struct iv_fd obj[NOBJ];
static int isreg[NOBJ], slot_of[NOBJ], ever[NOBJ];
static int closed_[ND], peer_open[ND], kern[ND], kdata[ND];

#define LOGSZ	8192
static char ctl_log[LOGSZ], ev_log[LOGSZ], calls_log[LOGSZ], rdy_log[LOGSZ];
static int last_ctl_err;
static int ev_objs[256], n_ev_objs;

static void verif_watchdog(int cpu_s)
{
	struct itimerval it = { { 0, 0 }, { cpu_s, 0 } };
	setitimer(ITIMER_PROF, &it, NULL);
	alarm(60);
}

static void logadd(char *log, const char *fmt, ...) __attribute__((format(printf, 2, 3)));
#include <stdarg.h>
static void logadd(char *log, const char *fmt, ...)
{
	size_t n = strlen(log);
	va_list ap;

	if (n + 64 >= LOGSZ)
		return;
	if (n)
		log[n++] = ',';
	va_start(ap, fmt);
	vsnprintf(log + n, LOGSZ - n, fmt, ap);
	va_end(ap);
}

static void logs_reset(void)
{
	ctl_log[0] = ev_log[0] = calls_log[0] = rdy_log[0] = 0;
	last_ctl_err = 0;
	n_ev_objs = 0;
}

static int obj_index(const void *p)
{
	const char *c = p, *base = (const char *)obj;

	if (c < base || c >= base + sizeof(obj) || (c - base) % sizeof(obj[0]))
		return -1;
	return (c - base) / sizeof(obj[0]);
}

static struct iv_fd_ *F(int o)
{
	return (struct iv_fd_ *)&obj[o];
}

/* ---- wrapped primitives (library references only) ---- */
int __wrap_epoll_ctl(int epfd, int op, int fd, struct epoll_event *ev);
int __wrap_epoll_wait(int epfd, struct epoll_event *events, int max, int to_ms);
int __wrap_epoll_pwait2(int epfd, struct epoll_event *events, int max, const struct timespec *to, const sigset_t *ss);

int __wrap_epoll_ctl(int epfd, int op, int fd, struct epoll_event *ev)
{
	int r = epoll_ctl(epfd, op, fd, ev);
	int e = errno;
	int o = (ev != NULL) ? obj_index(ev->data.ptr) : -1;

	if (o >= 0) {
		int d = (fd - 100) / 2;
		const char *name = op == EPOLL_CTL_ADD ? "ADD" : op == EPOLL_CTL_MOD ? "MOD" : op == EPOLL_CTL_DEL ? "DEL" : "???";

		last_ctl_err = (r == 0) ? 0 : e;
		logadd(ctl_log, "%s:%d:%d:%u:%d", name, o, d, (unsigned)ev->events, last_ctl_err);
		if (r == 0 && fd >= 100 && d >= 0 && d < ND) {
			if (op == EPOLL_CTL_DEL) {
				kern[d] = 0;
			} else {
				if (op == EPOLL_CTL_ADD)
					kern[d] = 1;
				kdata[d] = o;
			}
		}
	}
	errno = e;
	return r;
}

static void log_events(struct epoll_event *events, int n)
{
	int used[ND] = { 0 };
	int i, j;

	for (i = 0; i < n; i++) {
		int o = obj_index(events[i].data.ptr);
		int d = -1;

		if (o < 0)
			continue;
		/* the slot whose kernel entry carries this data.ptr (one per batch entry) */
		for (j = 0; j < ND; j++)
			if (kern[j] && kdata[j] == o && !used[j]) {
				d = j;
				break;
			}
		if (d < 0)
			d = slot_of[o];
		else
			used[d] = 1;
		logadd(ev_log, "%d:%u", d, (unsigned)events[i].events);
		for (j = 0; j < n_ev_objs; j++)
			if (ev_objs[j] == o)
				break;
		if (j == n_ev_objs && n_ev_objs < 256)
			ev_objs[n_ev_objs++] = o;
	}
}

int __wrap_epoll_wait(int epfd, struct epoll_event *events, int max, int to_ms)
{
	int r = epoll_wait(epfd, events, max, to_ms);
	int e = errno;

	if (r > 0)
		log_events(events, r);
	errno = e;
	return r;
}

int __wrap_epoll_pwait2(int epfd, struct epoll_event *events, int max, const struct timespec *to, const sigset_t *ss)
{
	int r = epoll_pwait2(epfd, events, max, to, ss);
	int e = errno;

	if (r > 0)
		log_events(events, r);
	errno = e;
	return r;
}

/* ---- passive handlers ---- */
static void h_in(void *c)  { logadd(calls_log, "%d:1", (int)(intptr_t)c); }
static void h_out(void *c) { logadd(calls_log, "%d:2", (int)(intptr_t)c); }
static void h_err(void *c) { logadd(calls_log, "%d:4", (int)(intptr_t)c); }

/* ---- descriptor slots ---- */
static void open_slot(int d)
{
	int s[2];

	if (socketpair(AF_UNIX, SOCK_STREAM, 0, s) < 0) {
		perror("socketpair");
		exit(3);
	}
	if (s[0] >= 100 || s[1] >= 100) {
		fprintf(stderr, "descriptor numbers >= 100 already in use\n");
		exit(3);
	}
	if (dup2(s[0], FDNUM(d)) < 0 || dup2(s[1], PEERNUM(d)) < 0) {
		perror("dup2");
		exit(3);
	}
	close(s[0]);
	close(s[1]);
	closed_[d] = 0;
	peer_open[d] = 1;
	kern[d] = 0;
}

static int slot_used(int d)
{
	int o;

	for (o = 0; o < NOBJ; o++)
		if (isreg[o] && slot_of[o] == d)
			return 1;
	return 0;
}

/* ---- output ---- */
static void print_state(void)
{
	struct iv_state *st = iv_get_state();
	struct iv_list_head *p;
	int o, steps;

	for (o = 0; o < NOBJ; o++) {
		struct iv_fd_ *fd = F(o);

		if (o)
			printf(" ");
		if (!ever[o])
			printf("%d=-", o);
		else
			printf("%d=%d/%d/%d/%d/%d", o, (fd->fd - 100) / 2, fd->registered ? 1 : 0, fd->wanted_bands,
			       fd->registered_bands, iv_list_empty(&fd->list_notify) ? 0 : 1);
	}
	printf(" | q=");
	steps = 0;
	for (p = st->u.epoll.notify.next; p != &st->u.epoll.notify && steps < 64; p = p->next, steps++) {
		struct iv_fd_ *fd;
		int i;

		if (steps)
			printf(",");
		if (p == NULL) {
			printf("?");
			break;
		}
		fd = iv_list_entry(p, struct iv_fd_, list_notify);
		i = obj_index(fd);
		if (i < 0) {
			printf("?");
			break;
		}
		printf("%d", i);
	}
}

static void out_full(const char *name, int ret)
{
	printf("%s ctl=%s ret=%d ev=%s rdy=%s calls=%s | ", name, ctl_log, ret, ev_log, rdy_log, calls_log);
	print_state();
	printf("\n");
}

static void out_short(const char *name)
{
	printf("%s | ", name);
	print_state();
	printf("\n");
}

/* decimal natural number; -1 = not a number; large values saturate */
static long num(const char *tok)
{
	const char *c;
	long v = 0;

	if (tok == NULL || *tok == 0)
		return -1;
	for (c = tok; *c; c++) {
		if (*c < '0' || *c > '9')
			return -1;
		if (v < 1000000)
			v = v * 10 + (*c - '0');
	}
	return v;
}

/* `a:b` with two decimal naturals */
static int is_evtok(const char *tok)
{
	char buf[128];
	char *colon;

	if (strlen(tok) >= sizeof(buf))
		return 0;
	strcpy(buf, tok);
	colon = strchr(buf, ':');
	if (colon == NULL || strchr(colon + 1, ':') != NULL)
		return 0;
	*colon = 0;
	return num(buf) >= 0 && num(colon + 1) >= 0;
}

#define MAXTOK	64

int main(void)
{
	static char line[8192];
	int o, d;

	verif_watchdog(120);
	for (d = 0; d < ND; d++)
		open_slot(d);
	for (o = 0; o < NOBJ; o++) {
		IV_FD_INIT(&obj[o]);
		obj[o].cookie = (void *)(intptr_t)o;
	}
	iv_init();
	fprintf(stderr, "METHOD %s\n", iv_poll_method_name());
	fflush(stderr);

	while (fgets(line, sizeof(line), stdin) != NULL) {
		char *tok[MAXTOK];
		int n = 0, over = 0;
		char *t;
		const char *op;
		long a = -1, b = -1;

		/* like the driver: ASCII white space trimmed at both ends, words separated by blanks only */
		{
			size_t len = strlen(line);
			char *b = line;

			while (len > 0 && strchr(" \t\r\n\v\f", line[len - 1]) != NULL)
				line[--len] = 0;
			while (*b && strchr(" \t\r\n\v\f", *b) != NULL)
				b++;
			for (t = strtok(b, " "); t != NULL; t = strtok(NULL, " ")) {
				if (n < MAXTOK)
					tok[n++] = t;
				else
					over = 1;
			}
		}
		if (n == 0)
			continue;
		op = tok[0];
		logs_reset();

		if (!strcmp(op, "dump") && n == 1) {
			out_short("dump");
		} else if (over) {
			printf("bad-op\n");
		} else if (!strcmp(op, "flush")) {
			int i, bad = 0;

			for (i = 1; i < n && !bad; i++)
				if (!is_evtok(tok[i]))
					bad = 1;
			if (bad) {
				printf("bad-op\n");
			} else {
				struct timespec z = { 0, 0 };

				iv_fd_poll_and_run(iv_get_state(), &z);
				for (i = 0; i < n_ev_objs; i++)
					logadd(rdy_log, "%d:%d", ev_objs[i], F(ev_objs[i])->ready_bands);
				out_full("flush", 0);
			}
		} else if (n == 2) {
			a = num(tok[1]);
			if (a < 0) {
				printf("bad-op\n");
			} else if (!strcmp(op, "unreg")) {
				if (a >= NOBJ) {
					printf("bad-op\n");
				} else if (!isreg[a]) {
					printf("skip\n");
				} else {
					iv_fd_unregister(&obj[a]);
					isreg[a] = 0;
					out_full("unreg", 0);
				}
			} else if (a >= ND) {
				printf("bad-op\n");
			} else if (!strcmp(op, "closefd")) {
				if (!closed_[a] && !slot_used(a)) {
					close(FDNUM(a));
					if (peer_open[a])
						close(PEERNUM(a));
					closed_[a] = 1;
					peer_open[a] = 0;
					kern[a] = 0;
					out_full("closefd", 0);
				} else {
					printf("skip\n");
				}
			} else if (!strcmp(op, "openfd")) {
				if (closed_[a]) {
					open_slot(a);
					out_full("openfd", 0);
				} else {
					printf("skip\n");
				}
			} else if (!strcmp(op, "wr")) {
				if (!closed_[a] && peer_open[a]) {
					char c = 'x';
					ssize_t r = send(PEERNUM(a), &c, 1, MSG_DONTWAIT | MSG_NOSIGNAL);
					(void)r;
					out_short("wr");
				} else {
					printf("skip\n");
				}
			} else if (!strcmp(op, "drain")) {
				if (!closed_[a]) {
					char buf[4096];
					while (recv(FDNUM(a), buf, sizeof(buf), MSG_DONTWAIT) > 0)
						;
					out_short("drain");
				} else {
					printf("skip\n");
				}
			} else if (!strcmp(op, "closepeer")) {
				if (!closed_[a] && peer_open[a]) {
					close(PEERNUM(a));
					peer_open[a] = 0;
					out_short("closepeer");
				} else {
					printf("skip\n");
				}
			} else {
				printf("bad-op\n");
			}
		} else if (n == 3) {
			a = num(tok[1]);
			b = num(tok[2]);
			if (a < 0 || b < 0 || a >= NOBJ) {
				printf("bad-op\n");
			} else if (!strcmp(op, "reg")) {
				if (b >= ND) {
					printf("bad-op\n");
				} else if (!isreg[a] && !closed_[b] && !slot_used(b)) {
					F(a)->fd = FDNUM(b);
					iv_fd_register(&obj[a]);
					isreg[a] = 1;
					slot_of[a] = b;
					ever[a] = 1;
					out_full("reg", 0);
				} else {
					printf("skip\n");
				}
			} else if (!strcmp(op, "regtry")) {
				if (b >= ND) {
					printf("bad-op\n");
				} else if (!isreg[a] && (!slot_used(b) || kern[b])) {
					int r;

					F(a)->fd = FDNUM(b);
					slot_of[a] = b;
					r = iv_fd_register_try(&obj[a]);
					isreg[a] = (r == 0);
					ever[a] = 1;
					out_full("regtry", r == 0 ? 0 : (last_ctl_err ? last_ctl_err : r));
				} else {
					printf("skip\n");
				}
			} else if (b > 1) {
				printf("bad-op\n");
			} else if (!strcmp(op, "setin")) {
				if (isreg[a])
					iv_fd_set_handler_in(&obj[a], b ? h_in : NULL);
				else
					F(a)->handler_in = b ? h_in : NULL;
				out_full("setin", 0);
			} else if (!strcmp(op, "setout")) {
				if (isreg[a])
					iv_fd_set_handler_out(&obj[a], b ? h_out : NULL);
				else
					F(a)->handler_out = b ? h_out : NULL;
				out_full("setout", 0);
			} else if (!strcmp(op, "seterr")) {
				if (isreg[a])
					iv_fd_set_handler_err(&obj[a], b ? h_err : NULL);
				else
					F(a)->handler_err = b ? h_err : NULL;
				out_full("seterr", 0);
			} else {
				printf("bad-op\n");
			}
		} else {
			printf("bad-op\n");
		}
		fflush(stdout);
	}

	for (o = 0; o < NOBJ; o++)
		if (isreg[o]) {
			iv_fd_unregister(&obj[o]);
			isreg[o] = 0;
		}
	iv_deinit();
	return 0;
}
