/* C14 / ThreadSanitizer program 6: iv_wait with real, short-lived fork()ed children in several loop threads.
 *   usage: tsan_wait <seed> <threads> <ms>
 * Every loop thread keeps two wait interests busy: iv_wait_interest_register_spawn() forks a child that exits at
 * once, exits after a short sleep, stops itself three times (the owner continues it from its handler each time) and then
 * exits, or pauses until its owner sends SIGTERM through iv_wait_interest_kill() from a timer.  Whichever thread receives SIGCHLD reaps ALL children (iv_wait_got_sigchld) and posts the status to
 * the interest's owner, so statuses routinely cross threads.  On death the owner unregisters the interest from
 * within its handler and spawns the next child until the time is up.  One spawn in four is "given up": a timer 0-600 us
 * after the spawn unregisters the interest from outside its handler, while the child may at that very moment be reaped
 * and marked dead by the SIGCHLD thread (the child is then killed directly and reaped by the library as a stranger).
 */
#include <iv.h>
#include <iv_wait.h>
#include <signal.h>
#include <sys/wait.h>
#include "tsan_util.h"

#define SLOTS 2

struct thr;
struct slot {
	struct thr *t;
	struct iv_wait_interest wi;
	struct iv_timer kill_timer;
	struct iv_timer giveup_timer;
	int active;
	int mode;
};

struct thr {
	int idx;
	pthread_t tid;
	uint64_t rng;
	struct slot s[SLOTS];
	struct iv_timer stop;
	int stopping;
	long n_spawn, n_dead, n_other, n_kill, n_giveup;
};

static struct thr T[MAXT];

static void child_fn(void *_mode)
{
	int mode = (int)(intptr_t)_mode;

	if (mode == 1)
		usleep(300);
	else if (mode == 2)
		for (;;)
			pause();
	else if (mode == 3) {
		/* several status changes of ONE child (stopped, continued, stopped, ... exited): the reaping thread queues each on the
		 * owner's interest while the owner may be collecting the previous ones */
		int k;
		for (k = 0; k < 3; k++)
			raise(SIGSTOP);
	}
	_exit(mode);
}

static void spawn(struct slot *s);

static void kill_it(void *_s)
{
	struct slot *s = _s;

	if (s->active) {
		iv_wait_interest_kill(&s->wi, SIGTERM);
		s->t->n_kill++;
	}
}

static void give_up(void *_s)
{
	struct slot *s = _s;
	struct thr *t = s->t;
	pid_t pid = s->wi.pid;

	if (!s->active)
		return;
	if (iv_timer_registered(&s->kill_timer))
		iv_timer_unregister(&s->kill_timer);
	iv_wait_interest_unregister(&s->wi);
	kill(pid, SIGKILL);
	s->active = 0;
	t->n_giveup++;
	if (!t->stopping)
		spawn(s);
}

static void wait_handler(void *_s, int status, const struct rusage *ru)
{
	struct slot *s = _s;
	struct thr *t = s->t;

	(void)ru;
	if (!WIFEXITED(status) && !WIFSIGNALED(status)) {
		t->n_other++;
		if (WIFSTOPPED(status))
			iv_wait_interest_kill(&s->wi, SIGCONT);
		return;
	}
	t->n_dead++;
	if (iv_timer_registered(&s->kill_timer))
		iv_timer_unregister(&s->kill_timer);
	if (iv_timer_registered(&s->giveup_timer))
		iv_timer_unregister(&s->giveup_timer);
	iv_wait_interest_unregister(&s->wi);
	s->active = 0;
	if (!t->stopping)
		spawn(s);
}

static void spawn(struct slot *s)
{
	struct thr *t = s->t;

	s->mode = tsu_rand(&t->rng) % 4;
	IV_WAIT_INTEREST_INIT(&s->wi);
	s->wi.cookie = s;
	s->wi.handler = wait_handler;
	if (iv_wait_interest_register_spawn(&s->wi, child_fn, (void *)(intptr_t)s->mode) < 0)
		return;
	s->active = 1;
	t->n_spawn++;
	if (tsu_rand(&t->rng) % 4 == 0) {
		IV_TIMER_INIT(&s->giveup_timer);
		s->giveup_timer.cookie = s;
		s->giveup_timer.handler = give_up;
		tsu_arm(&s->giveup_timer, (tsu_rand(&t->rng) % 600) * 1000LL);
	}
	if (s->mode == 2) {
		IV_TIMER_INIT(&s->kill_timer);
		s->kill_timer.cookie = s;
		s->kill_timer.handler = kill_it;
		tsu_arm(&s->kill_timer, 500000 + (tsu_rand(&t->rng) % 2000) * 1000LL);
	}
}

static void stop_handler(void *_t)
{
	((struct thr *)_t)->stopping = 1;
	/* the loop ends when the last child of this thread has been reaped and its interest unregistered */
}

static void *thread_main(void *_t)
{
	struct thr *t = _t;
	int k;

	if (t->idx != 0)
		iv_init();

	IV_TIMER_INIT(&t->stop);
	t->stop.cookie = t;
	t->stop.handler = stop_handler;
	tsu_arm(&t->stop, g_dur_ms * 1000000LL);

	for (k = 0; k < SLOTS; k++) {
		t->s[k].t = t;
		IV_TIMER_INIT(&t->s[k].kill_timer);
		IV_TIMER_INIT(&t->s[k].giveup_timer);
		spawn(&t->s[k]);
	}

	iv_main();
	iv_deinit();
	return NULL;
}

int main(int argc, char **argv)
{
	int i;
	long sp = 0, dead = 0, kills = 0, gu = 0;

	tsu_args(argc, argv, 3, 800);
	iv_init();
	for (i = 0; i < g_nthr; i++) {
		T[i].idx = i;
		T[i].rng = tsu_seed(i);
	}
	for (i = 1; i < g_nthr; i++)
		pthread_create(&T[i].tid, NULL, thread_main, &T[i]);
	thread_main(&T[0]);
	for (i = 1; i < g_nthr; i++)
		pthread_join(T[i].tid, NULL);
	for (i = 0; i < g_nthr; i++) {
		sp += T[i].n_spawn; dead += T[i].n_dead; kills += T[i].n_kill; gu += T[i].n_giveup;
	}
	printf("STATS prog=wait threads=%d spawned=%ld reaped=%ld killed=%ld givenup=%ld\n", g_nthr, sp, dead, kills, gu);
	return 0;
}
