/*
 * C19 real-kernel smoke test (thorough tier): the unmodified library, real fork/execvp/pipes/signals.
 * Three short runs: type "r" (read the child's output, check its stdin/stderr are the null device),
 * type "w" (the child reads what we write, its stdout/stderr are the null device), and close of a request
 * whose child is still running (first SIGTERM at once, child reaped, loop exits, no zombie).
 * Prints `SMOKE <name> ok|FAIL <why>`.
 */
#include <stdio.h>
#include <stdlib.h>
#include <string.h>
#include <errno.h>
#include <unistd.h>
#include <fcntl.h>
#include <time.h>
#include <sys/wait.h>
#include <iv.h>
#include <iv_popen.h>

static int no_children_left(void)
{
	int st;
	pid_t p = waitpid(-1, &st, WNOHANG);
	return p < 0 && errno == ECHILD;
}

static int read_all(int fd, char *buf, int max)
{
	int n = 0, r;
	while (n < max - 1 && (r = read(fd, buf + n, max - 1 - n)) > 0)
		n += r;
	buf[n] = 0;
	return n;
}

int main(void)
{
	struct iv_popen_request req;
	char buf[512], path[64];
	char *argv[4];
	int fd, f2;
	struct timespec t0, t1;

	setvbuf(stdout, NULL, _IOLBF, 0);
	iv_init();

	/* ---- "r" */
	IV_POPEN_REQUEST_INIT(&req);
	argv[0] = "sh"; argv[1] = "-c"; argv[2] = "echo hello-from-child; readlink /proc/self/fd/0 /proc/self/fd/2"; argv[3] = NULL;
	req.file = "/bin/sh"; req.argv = argv; req.type = "r";
	fd = iv_popen_request_submit(&req);
	if (fd < 0) { printf("SMOKE read FAIL submit\n"); return 1; }
	read_all(fd, buf, sizeof(buf));
	close(fd);
	iv_popen_request_close(&req);
	iv_main();
	if (strcmp(buf, "hello-from-child\n/dev/null\n/dev/null\n"))
		printf("SMOKE read FAIL got [%s]\n", buf);
	else if (!no_children_left())
		printf("SMOKE read FAIL child not reaped\n");
	else
		printf("SMOKE read ok\n");

	/* ---- "w" */
	snprintf(path, sizeof(path), "/tmp/c19_smoke_%d", (int)getpid());
	snprintf(buf, sizeof(buf), "cat > %s; readlink /proc/self/fd/1 /proc/self/fd/2 >> %s", path, path);
	argv[2] = buf;
	req.type = "w";
	fd = iv_popen_request_submit(&req);
	if (fd < 0) { printf("SMOKE write FAIL submit\n"); return 1; }
	if (write(fd, "data-for-child\n", 15) != 15) printf("SMOKE write FAIL write\n");
	close(fd);
	/* the child is still running when we close only if it is slow; either way the loop must end with it reaped */
	iv_popen_request_close(&req);
	iv_main();
	f2 = open(path, O_RDONLY);
	buf[0] = 0;
	if (f2 >= 0) { read_all(f2, buf, sizeof(buf)); close(f2); }
	unlink(path);
	/* a SIGTERM at once may end the shell before the readlink: the data line must be there when the file exists at all */
	if (!no_children_left())
		printf("SMOKE write FAIL child not reaped\n");
	else if (buf[0] && strncmp(buf, "data-for-child\n", 15))
		printf("SMOKE write FAIL got [%s]\n", buf);
	else if (strlen(buf) > 15 && strcmp(buf + 15, "/dev/null\n/dev/null\n"))
		printf("SMOKE write FAIL stdio [%s]\n", buf + 15);
	else
		printf("SMOKE write ok\n");

	/* ---- close while the child runs */
	argv[0] = "sleep"; argv[1] = "1000"; argv[2] = NULL;
	req.file = "sleep"; req.type = "r";
	fd = iv_popen_request_submit(&req);
	if (fd < 0) { printf("SMOKE kill FAIL submit\n"); return 1; }
	close(fd);
	clock_gettime(CLOCK_MONOTONIC, &t0);
	iv_popen_request_close(&req);
	iv_main();
	clock_gettime(CLOCK_MONOTONIC, &t1);
	if (!no_children_left())
		printf("SMOKE kill FAIL child not reaped\n");
	else if (t1.tv_sec - t0.tv_sec > 3)
		printf("SMOKE kill FAIL first signal not sent at once (%ld s)\n", (long)(t1.tv_sec - t0.tv_sec));
	else
		printf("SMOKE kill ok\n");

	iv_deinit();
	return 0;
}
