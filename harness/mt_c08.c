/*
 * T-sched extension for C08 (iv_event): white-box snapshots of the owner's wake sources.
 *
 * Every time a thread is about to unlock some thread k's event_list_mutex (i.e. at the end of every critical
 * section of iv_event.c), print, right after the core's `SNAP evmu:Tk pending=…` line:
 *
 *     T<me> XSNAP evmu:T<k> task=<0|1> armed=<0|1|-> raw=<n|->
 *
 *   task   iv_task_registered(&st->events_local)               (the same-thread wake source)
 *   armed  the kernel's view of the one-shot kick: the events mask of the entry with data == st in
 *          /proc/self/fdinfo/<epoll fd> has EPOLLIN set; `-` when there is no such entry (receive side off)
 *          or the method has no kick transport
 *   raw    the counter of the owner's events_kick descriptor (eventfd-count from /proc/self/fdinfo, or FIONREAD for
 *          the pipe fallback); `-` when the raw transport is not in use or events_kick is not registered
 *
 * and, just before a library write() that is the raw-transport kick towards owner k (the write follows without a
 * scheduling point; the read that resets the counter is not a scheduling point either, so the counter value tells
 * whether the owner has consumed the earlier kicks):
 *
 *     T<me> KICK-WRITE T<k> before=<n>
 *
 * The owner of an event_list_mutex is learnt from pthread_mutex_init (called by iv_event_init in the owner thread).
 */
#include "mt_core.h"
#include <sys/ioctl.h>
#include <stdint.h>

struct owned { const void *mu; struct iv_state *st; int t; };
static struct owned OW[MT_MAXT];
static int last_cs[MT_MAXT];	/* owner slot of the last event_list_mutex critical section of each thread, 0 none (slot+1) */

int __wrap_pthread_mutex_init(pthread_mutex_t *m, const pthread_mutexattr_t *attr)
{
	struct iv_state *st = iv_get_state();
	int i;
	for (i = 0; i < MT_MAXT; i++)
		if (OW[i].mu == (const void *)m)
			OW[i].mu = NULL;
	if (st != NULL && (const void *)m == (const void *)&st->event_list_mutex) {
		int t = mt_me();
		OW[t].mu = m;
		OW[t].st = st;
		OW[t].t = t;
	}
	return pthread_mutex_init(m, attr);
}

static int kick_transport(void)
{
	return method != NULL && method->event_rx_on != NULL;
}

/* -1: no entry */
static int epoll_armed(struct iv_state *st)
{
	char path[64], line[256];
	FILE *f;
	int res = -1;

	snprintf(path, sizeof(path), "/proc/self/fdinfo/%d", st->u.epoll.epoll_fd);
	f = fopen(path, "r");
	if (f == NULL)
		return -1;
	while (fgets(line, sizeof(line), f) != NULL) {
		int tfd;
		unsigned int ev;
		unsigned long long data;
		if (sscanf(line, "tfd: %d events: %x data: %llx", &tfd, &ev, &data) == 3 &&
		    data == (unsigned long long)(uintptr_t)st)
			res = (ev & EPOLLIN) ? 1 : 0;
	}
	fclose(f);
	return res;
}

static long raw_count(struct iv_state *st)
{
	char path[64], line[256];
	FILE *f;
	long res = -1;
	int fd = st->events_kick.event_rfd.fd;
	int n;

	if (st->event_count <= 0)
		return -1;
	snprintf(path, sizeof(path), "/proc/self/fdinfo/%d", fd);
	f = fopen(path, "r");
	if (f != NULL) {
		while (fgets(line, sizeof(line), f) != NULL) {
			unsigned long long c;
			if (sscanf(line, "eventfd-count: %llx", &c) == 1)
				res = (long)c;
		}
		fclose(f);
	}
	if (res < 0 && ioctl(fd, FIONREAD, &n) == 0)
		res = n;
	return res;
}

static void c08_before_unlock(const void *m)
{
	int i;
	for (i = 0; i < MT_MAXT; i++)
		if (OW[i].mu == m && m != NULL) {
			struct iv_state *st = OW[i].st;
			char a[16] = "-", r[32] = "-";
			if (kick_transport()) {
				int x = epoll_armed(st);
				if (x >= 0) snprintf(a, sizeof(a), "%d", x);
			} else {
				long c = raw_count(st);
				if (c >= 0) snprintf(r, sizeof(r), "%ld", c);
			}
			last_cs[mt_me()] = i + 1;
			printf("T%d XSNAP evmu:T%d task=%d armed=%s raw=%s\n", mt_me(), OW[i].t,
			       iv_task_registered(&st->events_local) ? 1 : 0, a, r);
		}
}

static ssize_t c08_write_hook(int fd, const void *buf, size_t n, int *handled)
{
	int i;
	(void)buf; (void)n;
	*handled = 0;
	if (kick_transport())
		return 0;
	/* a kick write follows a critical section on the target's mutex inside the same iv_event_post, so the
	   target (still alive: one of its events is being posted) is the owner of this thread's last critical section */
	i = last_cs[mt_me()] - 1;
	last_cs[mt_me()] = 0;
	if (i >= 0 && OW[i].mu != NULL && OW[i].st->event_count > 0 && OW[i].st->events_kick.event_wfd == fd)
		printf("T%d KICK-WRITE T%d before=%ld\n", mt_me(), OW[i].t, raw_count(OW[i].st));
	return 0;
}

static struct mt_ext c08_ext = {
	.name = "c08",
	.before_unlock = c08_before_unlock,
	.write_hook = c08_write_hook,
};

static void __attribute__((constructor)) c08_reg(void) { mt_register_ext(&c08_ext); }
