/*
 * T-diff harness for the timer store of /repo/src/iv_timer.c (through the public API plus a
 * read-only walk of the private radix tree).  Same op lines as `ivyreplay heap`.
 *
 *   init N                 allocate N timer structs, IV_TIMER_INIT each
 *   reg id sec nsec        expires := (sec,nsec); iv_timer_register        -> RES ok | RES fatal
 *   unreg id               iv_timer_unregister                             -> RES ok | RES fatal
 *   tog id sec nsec        unregister if iv_timer_registered() else register
 *   on id <op...>          reaction: when timer id's handler runs, perform op (may repeat)
 *   run sec nsec           st->time := (sec,nsec); iv_run_timers           -> CB id ... ENDRUN
 *   dump                   NUM n DEPTH d SLOTS id:idx ... | soonest
 *   stat                   NUM n DEPTH d ROOT id SOON sec nsec
 */
#include <stdio.h>
#include <sys/time.h>
#include <unistd.h>
#include <stdlib.h>
#include <string.h>
#include <setjmp.h>
#include "iv_private.h"

static struct iv_timer *tm;
static int ntm;
static char **react;		/* per timer: newline separated ops */
static jmp_buf fatal_jmp;
static int fatal_armed;

static void fatal_handler(const char *msg)
{
	if (fatal_armed) {
		fatal_armed = 0;
		longjmp(fatal_jmp, 1);
	}
	printf("FATAL-UNEXPECTED %s\n", msg);
	fflush(stdout);
	_exit(5);
}

static struct iv_timer_ *slot_at(struct iv_state *st, int index)
{
	struct iv_timer_ratnode *r = st->ratnode.timer_root;
	int i;

	if (index >> ((st->rat_depth + 1) * IV_TIMER_SPLIT_BITS) != 0)
		return NULL;
	for (i = st->rat_depth; i > 0; i--) {
		int bits = (index >> (i * IV_TIMER_SPLIT_BITS)) & (IV_TIMER_SPLIT_NODES - 1);
		if (r->child[bits] == NULL)
			return NULL;
		r = r->child[bits];
	}
	return r->child[index & (IV_TIMER_SPLIT_NODES - 1)];
}

static int id_of(struct iv_timer_ *t)
{
	return (int)((struct iv_timer *)t - tm);
}

static void do_op(char *line);

static void handler(void *cookie)
{
	int id = (int)(long)cookie;
	char *r = react[id];

	printf("CB %d\n", id);
	if (r != NULL) {
		char *copy = strdup(r), *save = NULL, *l;
		react[id] = NULL;
		free(r);
		for (l = strtok_r(copy, "\n", &save); l != NULL; l = strtok_r(NULL, "\n", &save)) {
			char buf[256];
			snprintf(buf, sizeof(buf), "%s", l);
			do_op(buf);
		}
		free(copy);
	}
}

static void do_reg(int id, long sec, long nsec)
{
	if (!iv_timer_registered(&tm[id])) {	/* changing expires of a registered timer is invalid use */
		tm[id].expires.tv_sec = sec;
		tm[id].expires.tv_nsec = nsec;
	}
	fatal_armed = 1;
	if (setjmp(fatal_jmp) == 0) {
		iv_timer_register(&tm[id]);
		fatal_armed = 0;
		printf("RES ok\n");
	} else {
		printf("RES fatal\n");
	}
}

static void do_unreg(int id)
{
	fatal_armed = 1;
	if (setjmp(fatal_jmp) == 0) {
		iv_timer_unregister(&tm[id]);
		fatal_armed = 0;
		printf("RES ok\n");
	} else {
		printf("RES fatal\n");
	}
}

static void do_op(char *line)
{
	struct iv_state *st = iv_get_state();
	char *save = NULL;
	char *op = strtok_r(line, " \n", &save);
	int i;

	if (op == NULL)
		return;
	if (!strcmp(op, "init")) {
		ntm = atoi(strtok_r(NULL, " \n", &save));
		tm = calloc(ntm, sizeof(*tm));
		react = calloc(ntm, sizeof(*react));
		for (i = 0; i < ntm; i++) {
			IV_TIMER_INIT(&tm[i]);
			tm[i].cookie = (void *)(long)i;
			tm[i].handler = handler;
		}
		printf("OK\n");
	} else if (!strcmp(op, "reg")) {
		int id = atoi(strtok_r(NULL, " \n", &save));
		long sec = atol(strtok_r(NULL, " \n", &save));
		long nsec = atol(strtok_r(NULL, " \n", &save));
		do_reg(id, sec, nsec);
	} else if (!strcmp(op, "unreg")) {
		do_unreg(atoi(strtok_r(NULL, " \n", &save)));
	} else if (!strcmp(op, "tog")) {
		int id = atoi(strtok_r(NULL, " \n", &save));
		long sec = atol(strtok_r(NULL, " \n", &save));
		long nsec = atol(strtok_r(NULL, " \n", &save));
		if (iv_timer_registered(&tm[id]))
			do_unreg(id);
		else
			do_reg(id, sec, nsec);
	} else if (!strcmp(op, "on")) {
		int id = atoi(strtok_r(NULL, " \n", &save));
		char *rest = save;
		size_t old = react[id] ? strlen(react[id]) : 0;
		while (*rest == ' ') rest++;
		react[id] = realloc(react[id], old + strlen(rest) + 2);
		strcpy(react[id] + old, rest);
		if (react[id][strlen(react[id]) - 1] != '\n')
			strcat(react[id], "\n");
		printf("OK\n");
	} else if (!strcmp(op, "run")) {
		long sec = atol(strtok_r(NULL, " \n", &save));
		long nsec = atol(strtok_r(NULL, " \n", &save));
		st->time.tv_sec = sec;
		st->time.tv_nsec = nsec;
		st->time_valid = 1;
		fatal_armed = 1;
		if (setjmp(fatal_jmp) == 0) {
			iv_run_timers(st);
			fatal_armed = 0;
			printf("ENDRUN\n");
		} else {
			printf("RES fatal\n");
		}
	} else if (!strcmp(op, "stat") || !strcmp(op, "dump")) {
		const struct timespec *s = iv_get_soonest_timeout(st);
		printf("NUM %d DEPTH %d NUMOBJS %d", st->num_timers, st->rat_depth, st->numobjs);
		if (s != NULL)
			printf(" SOON %ld %ld", (long)s->tv_sec, (long)s->tv_nsec);
		else
			printf(" SOON none");
		if (!strcmp(op, "dump")) {
			int bad = 0;
			printf(" SLOTS");
			for (i = 1; i <= st->num_timers; i++) {
				struct iv_timer_ *t = slot_at(st, i);
				if (t == NULL)
					printf(" null");
				else
					printf(" %d:%d", id_of(t), t->index);
			}
			/* vacated slots must be NULL wherever they are reachable */
			for (i = st->num_timers + 1; i <= st->num_timers + 300; i++)
				if (slot_at(st, i) != NULL)
					bad++;
			printf(" TAILBAD %d", bad);
		}
		printf("\n");
	} else {
		printf("bad-op\n");
	}
}

static void verif_watchdog(int cpu_s, int wall_s)
{
	/* a library call that spins is cut by the CPU-time limit (independent of how loaded the machine is); one that sleeps for
	 * ever by the generous wall-clock limit */
	struct itimerval it = { { 0, 0 }, { cpu_s, 0 } };
	setitimer(ITIMER_PROF, &it, NULL);
	alarm(wall_s);
}

int main(void)
{
	static char line[4096];

	setvbuf(stdout, NULL, _IOFBF, 1 << 16);
	iv_set_fatal_msg_handler(fatal_handler);
	verif_watchdog(120, 300);
	iv_init();
	while (fgets(line, sizeof(line), stdin) != NULL)
		do_op(line);
	/* leave everything unregistered so that deinit is legal */
	{
		int i;
		for (i = 0; i < ntm; i++)
			if (iv_timer_registered(&tm[i]))
				iv_timer_unregister(&tm[i]);
	}
	iv_deinit();
	free(tm);
	fflush(stdout);
	return 0;
}
