/* C14 / ThreadSanitizer program 2: iv_event_raw posted across 2..4 loop threads, with private raw events
 * being registered / posted / unregistered by their owner all the time (descriptor churn).
 *   usage: tsan_raw <seed> <threads> <ms>
 * Valid use: raw[i] is registered before the start barrier and unregistered after the stop barrier; peers
 * post it only in between.  P[i] is only ever touched by its owner.
 */
#include <iv.h>
#include <iv_event_raw.h>
#include "tsan_util.h"

struct thr {
	int idx;
	pthread_t tid;
	uint64_t rng;
	struct iv_event_raw raw, P;
	int p_registered;
	struct iv_timer tick, stop;
	int stopping;
	long n_raw, n_p, n_posts, n_churn;
};

static struct thr T[MAXT];
static pthread_barrier_t start_bar, stop_bar;

static void raw_handler(void *_t)
{
	struct thr *t = _t;

	t->n_raw++;
	if (!t->stopping && (tsu_rand(&t->rng) & 1)) {
		iv_event_raw_post(&T[(t->idx + 1) % g_nthr].raw);
		t->n_posts++;
	}
}

static void p_handler(void *_t)
{
	((struct thr *)_t)->n_p++;
}

static void p_unregister(struct thr *t)
{
	if (t->p_registered) {
		iv_event_raw_unregister(&t->P);
		t->p_registered = 0;
	}
}

static void tick_handler(void *_t)
{
	struct thr *t = _t;
	int k;

	if (t->stopping)
		return;
	for (k = 1 + tsu_rand(&t->rng) % 5; k > 0; k--) {
		int j = tsu_rand(&t->rng) % g_nthr;

		iv_event_raw_post(&T[j].raw);
		t->n_posts++;
	}
	if (tsu_rand(&t->rng) % 3 == 0) {
		p_unregister(t);
		IV_EVENT_RAW_INIT(&t->P);
		t->P.cookie = t;
		t->P.handler = p_handler;
		if (iv_event_raw_register(&t->P) == 0) {
			t->p_registered = 1;
			iv_event_raw_post(&t->P);
			if (tsu_rand(&t->rng) & 1)
				p_unregister(t);
		}
		t->n_churn++;
	}
	tsu_arm(&t->tick, (tsu_rand(&t->rng) % 4) * 20000);
}

static void stop_handler(void *_t)
{
	struct thr *t = _t;

	t->stopping = 1;
	if (iv_timer_registered(&t->tick))
		iv_timer_unregister(&t->tick);
	pthread_barrier_wait(&stop_bar);
	p_unregister(t);
	iv_event_raw_unregister(&t->raw);
}

static void *thread_main(void *_t)
{
	struct thr *t = _t;

	if (t->idx != 0)
		iv_init();

	IV_EVENT_RAW_INIT(&t->raw);
	t->raw.cookie = t;
	t->raw.handler = raw_handler;
	if (iv_event_raw_register(&t->raw) < 0)
		abort();

	IV_TIMER_INIT(&t->tick);
	t->tick.cookie = t;
	t->tick.handler = tick_handler;
	tsu_arm(&t->tick, 0);

	IV_TIMER_INIT(&t->stop);
	t->stop.cookie = t;
	t->stop.handler = stop_handler;
	tsu_arm(&t->stop, g_dur_ms * 1000000LL);

	pthread_barrier_wait(&start_bar);

	iv_main();
	iv_deinit();
	return NULL;
}

int main(int argc, char **argv)
{
	int i;
	long raw = 0, p = 0, posts = 0, churn = 0;

	tsu_args(argc, argv, 3, 800);
	pthread_barrier_init(&start_bar, NULL, g_nthr);
	pthread_barrier_init(&stop_bar, NULL, g_nthr);

	iv_init();
	for (i = 0; i < g_nthr; i++) {
		T[i].idx = i;
		T[i].rng = tsu_seed(i);
	}
	for (i = 1; i < g_nthr; i++)
		pthread_create(&T[i].tid, NULL, thread_main, &T[i]);
	thread_main(&T[0]);
	for (i = 1; i < g_nthr; i++)
		pthread_join(T[i].tid, NULL);

	for (i = 0; i < g_nthr; i++) {
		raw += T[i].n_raw; p += T[i].n_p; posts += T[i].n_posts; churn += T[i].n_churn;
	}
	printf("STATS prog=raw threads=%d method=%s posts=%ld raw=%ld p=%ld churn=%ld\n", g_nthr,
	       iv_poll_method_name() ? iv_poll_method_name() : "?", posts, raw, p, churn);
	return 0;
}
