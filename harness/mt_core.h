/* Shared declarations of the T-sched harness (mt_h.c) and its extensions. */
#ifndef MT_CORE_H
#define MT_CORE_H
#include <stdio.h>
#include <stdlib.h>
#include <string.h>
#include <stdarg.h>
#include <errno.h>
#include <fcntl.h>
#include <poll.h>
#include <pthread.h>
#include <signal.h>
#include <unistd.h>
#include <sys/epoll.h>
#include <sys/eventfd.h>
#include <sys/socket.h>
#include <sys/syscall.h>
#include <sys/timerfd.h>
#include <iv.h>
#include <iv_event.h>
#include <iv_event_raw.h>
#include "iv_private.h"

#define MT_MAXT 24
#define MT_MAXO 64
#define MT_MAXSIG 65
#define MT_MAXLINE 4096

struct mt_ext {
	const char *name;
	void (*init)(void);
	int (*cfg)(const char *tok);
	int (*declare)(char *kind, char *name, char *rest, int owner);	/* `obj <kind> <name> ...` */
	int (*action)(char *op, int guard, char *a1, char *a2, char *rest);
	int (*mutex_name)(const void *m, char *buf);
	int (*event_name)(const struct iv_event *ev, char *buf);	/* name of a library-internal iv_event */
	void (*before_unlock)(const void *m);	/* white-box snapshot while the lock is still held */
	long long (*next_deadline)(void);	/* virtual time of the next external happening, -1 none */
	void (*time_advanced)(void);
	int (*fail_thread_create)(void);
	ssize_t (*write_hook)(int fd, const void *buf, size_t n, int *handled);
	void (*at_end)(void);
};

void mt_register_ext(struct mt_ext *e);
void mt_log(const char *fmt, ...) __attribute__((format(printf, 1, 2)));
void mt_finish(const char *why) __attribute__((noreturn));
void *mt_malloc_filled(size_t n);	/* malloc + the byte pattern of the scenario (cfg fill=N or derived from seed=) */
int mt_me(void);
void mt_yield(void);
void mt_activity(void);
int mt_objnum(const char *tok, char kind);
void mt_react(const char *kind, int id);
void mt_run_actions(const char *actions);
extern long long mt_vclock;

/* virtual signals */
int mt_sigaction(int signum, const struct sigaction *sa, struct sigaction *old);
int mt_signal_installed(int signum);
void mt_send_signal(int signum, int thread);
#endif
