/*
 * T-sched extension for C11 (iv_wait): white-box observation only, no new actions.
 *
 *  - names iv_wait.c's static `iv_wait_lock` as `waitmu` in LOCK/UNLOCK records.  Its address is learnt by one
 *    probe call before the scenario starts: iv_wait_interest_kill() on a throw-away interest whose flag word
 *    has every bit set takes and releases that lock and (by C11 itself) must not call kill();
 *  - names the iv_event embedded in a wait interest `w<i>` in the `SNAP evmu:T<k> pending=` records
 *    (recognised structurally: ev.cookie points to the enclosing interest, whose cookie is the harness' tag);
 *  - prints, while `waitmu` is still held just before every UNLOCK of it, one record per wait object
 *        SNAPW w<i> pid=<pid> flags=<n> pending=<hex,hex,...>
 *    (events_pending of the interest, read under the lock).  Needs mt_proc.c's accessor mt_proc_wait_obj();
 *    without it (weak reference) the snapshot records are simply absent;
 *  - one action: `forkfail` makes the next fork() of the library fail with EAGAIN (mt_proc.c's mt_fork_fail_next).
 */
#include "mt_core.h"
#include <iv_wait.h>
#include <stddef.h>

struct wait_event_hdr { struct iv_list_head list; int status; };	/* leading fields of iv_wait.c's struct wait_event */

extern struct iv_wait_interest *mt_proc_wait_obj(int i) __attribute__((weak));
extern int mt_fork_fail_next __attribute__((weak));

static const void *wait_lock;
static int probing;

static int w_mutex_name(const void *m, char *buf)
{
	if (probing && wait_lock == NULL)
		wait_lock = m;
	if (wait_lock != NULL && m == wait_lock) {
		strcpy(buf, "waitmu");
		return 1;
	}
	return 0;
}

static int w_event_name(const struct iv_event *ev, char *buf)
{
	const struct iv_wait_interest *wi =
		(const struct iv_wait_interest *)((const char *)ev - offsetof(struct iv_wait_interest, ev));
	long c;

	if (ev->cookie != (void *)wi)
		return 0;
	c = (long)wi->cookie;
	if (c < 0x70000 || c >= 0x70000 + MT_MAXO)
		return 0;
	sprintf(buf, "w%ld", c - 0x70000);
	return 1;
}

static void w_before_unlock(const void *m)
{
	int i;

	if (m != wait_lock || probing || mt_proc_wait_obj == NULL)
		return;
	for (i = 0; i < MT_MAXO; i++) {
		struct iv_wait_interest *wi = mt_proc_wait_obj(i);
		struct iv_list_head *ilh;
		int first = 1;

		if (wi == NULL || wi->events_pending.next == NULL)
			continue;	/* never registered since it was allocated */
		printf("T%d SNAPW w%d pid=%d flags=%u pending=", mt_me(), i, (int)wi->pid, wi->flags);
		iv_list_for_each (ilh, &wi->events_pending) {
			printf("%s0x%x", first ? "" : ",", ((struct wait_event_hdr *)ilh)->status);
			first = 0;
		}
		printf("\n");
	}
}

static int w_action(char *op, int guard, char *a1, char *a2, char *rest)
{
	(void)guard; (void)a1; (void)a2; (void)rest;
	if (!strcmp(op, "forkfail")) {
		if (&mt_fork_fail_next != NULL)
			mt_fork_fail_next = 1;
		return 1;
	}
	return 0;
}

static void w_init(void)
{
	struct iv_wait_interest d;

	memset(&d, 0, sizeof(d));
	d.pid = 0x7ffffff0;
	d.flags = ~0u;
	probing = 1;
	iv_wait_interest_kill(&d, 0);
	probing = 0;
}

static struct mt_ext wait_ext = {
	.name = "wait",
	.init = w_init,
	.action = w_action,
	.mutex_name = w_mutex_name,
	.event_name = w_event_name,
	.before_unlock = w_before_unlock,
};

static void reg(void) __attribute__((constructor));
static void reg(void) { mt_register_ext(&wait_ext); }
