/*
 * T-sched extension for C12/C13: iv_work pools, work items and iv_thread threads under the deterministic
 * scheduler, with white-box observation of the pool.
 *
 *   obj pool p0 max=<n> [hooks]     struct iv_work_pool owned by the declaring thread (hooks: thread_start/thread_stop
 *                                   log `HOOK start <inst>` / `HOOK stop <inst>`)
 *   obj work x0                     struct iv_work_item; work function logs `WORK x0 begin pool=<inst|null>`, runs the
 *                                   reactions `on x0.work <n> : ...`, logs `WORK x0 end`; the completion logs
 *                                   `CB x0.done owner=T<k>`, runs `on x0.done <n> : ...`, logs `END`
 *   obj thr h0                      a thread to be created with iv_thread_create (scripted body)
 *   poolcreate p0                   iv_work_pool_create (owner only); every creation is a new pool *instance*:
 *                                   named p0, then p0.1, p0.2 ... (the structure may be reused right after put)
 *   submit p0 x0                    iv_work_pool_submit_work from the owner
 *   submitc p0 x1                   iv_work_pool_submit_continuation: from the owner, or from a thread that is running a work
 *                                   function of ANY pool (iv_work_submit_pool only distinguishes owner / not owner: a worker of
 *                                   another pool is a "foreign" submitter for p0)
 *   submit null x2                  NULL pool: runs locally from a task
 *   put p0                          iv_work_pool_put (owner only); logs the user's handle afterwards
 *   spawn h0 <mode>                 iv_thread_create; mode = ret (iv_init, iv_main, iv_deinit, return) | pexit (same, then
 *                                   pthread_exit) | nodeinit (returns without iv_deinit) | pexit-nodeinit | noinit (never
 *                                   calls iv_init); body logs `BODY h0 begin mode=..`, runs `on h0.body`, logs `BODY h0 end`
 *   cfg failcreate=<n>              the n-th pthread_create of the run fails with EAGAIN
 * Submissions that would be invalid use (item in flight, pool already put, wrong thread) silently do nothing; so does a put
 * while a submission to that pool is in progress in another thread (P[i].submitting): the two halves of the environment
 * contract "no submission after put, no put during a submission".
 *
 * White box.  struct work_pool_priv / work_pool_thread are private to iv_work.c.  vlib/c12.py extracts the two
 * declarations from the iv_work.c that is being compiled on every build (T-gen) and this file includes them
 * (MT_WORK_WB_FILE; the copy between the WB-BEGIN/WB-END markers is only the fallback for a stand-alone compile), which
 * keeps iv_work.o itself the unmodified library object (so its mutex/thread/event calls stay wrapped by the engine)
 * and lets the harness follow a change of the private layout as long as the members it names still exist.  Library-internal calls from iv_work.o/iv_thread_posix.o to iv_event_register/
 * unregister/post, iv_timer_register and iv_thread_create are redirected here (ld -r --wrap): they are logged
 * (`IREG/IUNREG/IPOST/ITREG <event>`), the handler of each internal event/timer is replaced by a logging shim
 * (`IH <event> begin|end`), and they give the names used by the engine's `SNAP evmu` lines:
 *   ev:<inst> tn:<inst>   pool->ev, pool->thread_needed       kick:<inst>:T<k> idle:<inst>:T<k>   worker k's kick / idle timer
 *   dead:<n>              the `dead` event of the n-th iv_thread (bound to its thread by `TSTART dead:<n>`)
 * Before every release of a pool lock (mutex name `poolmu:<inst>`) the private pool state is printed:
 *   SNAP poolmu:p0 started=1 max=2 shut=0 head=1 tail=3 queued=x1,x2 done=x0 idle=T3 workers=T3:k0:t1,T4:k0:t0
 * (idle = idle_threads in list order; workers = every live worker: kicked flag, idle timer registered).
 */
#include "mt_core.h"
#include <iv_list.h>
#include <iv_thread.h>
#include <iv_work.h>

/* The private declarations of the iv_work.c under check (struct work_pool_priv, struct work_pool_thread): regenerated from the source
 * on every run by vlib/c12.py (T-gen) and passed in as MT_WORK_WB_FILE, so that the white-box view follows any change of the layout;
 * the harness only needs the members it names below to exist. Fallback: the copy of the pinned source. */
#ifdef MT_WORK_WB_FILE
#include MT_WORK_WB_FILE
#else
/* WB-BEGIN (copy of the private declarations of /repo/src/iv_work.c; checked against the source by vlib/c12.py) */
struct work_pool_priv {
	___mutex_t		lock;
	struct iv_event		ev;
	struct iv_event		thread_needed;
	int			shutting_down;
	int			max_threads;
	int			started_threads;
	struct iv_list_head	idle_threads;
	void			*cookie;
	void			(*thread_start)(void *cookie);
	void			(*thread_stop)(void *cookie);
	uint32_t		seq_head;
	uint32_t		seq_tail;
	struct iv_list_head	work_items;
	struct iv_list_head	work_done;
	unsigned long		tid;
};

struct work_pool_thread {
	struct work_pool_priv	*pool;
	struct iv_list_head	list;
	int			kicked;
	struct iv_event		kick;
	struct iv_timer		idle_timer;
};
/* WB-END */
#endif

#define MAXINST 64
#define MAXWK 64
#define MAXDEAD 64

static uint32_t seq0;	/* cfg seq0=N: value the submission counters of every new pool start from */
struct pool_obj { int exists, owner, max, hooks, cur, gens, submitting; struct iv_work_pool pool; };
struct pool_inst { int used, obj, gen, alive, owner; struct work_pool_priv *priv; void (*h_ev)(void *); void (*h_tn)(void *); char name[24]; };
struct work_obj { int exists, state, inst, submitter, runs, dones; struct iv_work_item item; };	/* state 0 free, 1 in flight */
struct thr_obj { int exists, mode, spawned; };
struct worker { int used, alive, inst, vt, deadn; struct work_pool_thread *thr; void (*h_kick)(void *); void (*h_idle)(void *); };
struct deadrec { int used, alive, vt, creator; struct iv_event *ev; void *cookie; void (*h_dead)(void *);
		 void (*start)(void *); void *arg; int joined, seen; };

static struct pool_obj P[MT_MAXO];
static struct pool_inst PI[MAXINST];
static int npi;
static struct work_obj W[MT_MAXO];
static struct thr_obj H[MT_MAXO];
static struct worker WK[MAXWK];
static int nwk;
static struct deadrec DR[MAXDEAD];
static int ndr;
static int creating_pool = -1, creating_pool_step;
static int creating_thread = -1;	/* index into DR while inside iv_thread_create */
static int inwork[MT_MAXT];		/* pool instance whose work function the thread is running, -1 none, -2 local */
static int fail_create_at, creates_seen;

enum { M_RET, M_PEXIT, M_NODEINIT, M_PEXIT_NODEINIT, M_NOINIT };
static const char *mode_name[] = { "ret", "pexit", "nodeinit", "pexit-nodeinit", "noinit" };

/* ------------------------------------------------------------------ lookups */
static struct pool_inst *inst_of_priv(const void *priv)
{
	int i;
	for (i = 0; i < npi; i++)
		if (PI[i].alive && PI[i].priv == priv)
			return &PI[i];
	return NULL;
}

static struct worker *worker_of_thr(const void *thr)
{
	int i;
	for (i = 0; i < nwk; i++)
		if (WK[i].used && WK[i].alive && WK[i].thr == thr)
			return &WK[i];
	return NULL;
}

static struct deadrec *dead_of_ev(const struct iv_event *ev)
{
	int i;
	for (i = 0; i < ndr; i++)
		if (DR[i].used && DR[i].alive && DR[i].ev == ev)
			return &DR[i];
	return NULL;
}

static int internal_event_name(const struct iv_event *ev, char *buf)
{
	int i;
	struct deadrec *d;

	for (i = 0; i < npi; i++)
		if (PI[i].alive && PI[i].priv != NULL) {
			if (ev == &PI[i].priv->ev) { sprintf(buf, "ev:%s", PI[i].name); return 1; }
			if (ev == &PI[i].priv->thread_needed) { sprintf(buf, "tn:%s", PI[i].name); return 1; }
		}
	for (i = 0; i < nwk; i++)
		if (WK[i].used && WK[i].alive && WK[i].vt >= 0 && ev == &WK[i].thr->kick) {
			sprintf(buf, "kick:%s:T%d", PI[WK[i].inst].name, WK[i].vt);
			return 1;
		}
	d = dead_of_ev(ev);
	if (d != NULL) { sprintf(buf, "dead:%d", (int)(d - DR)); return 1; }
	return 0;
}

/* ------------------------------------------------------------------ handler shims */
static void shim_ev(void *cookie)
{
	struct pool_inst *pi = inst_of_priv(cookie);
	char nm[32];
	if (pi == NULL) { mt_log("IH ev:? begin\n"); mt_finish("HARNESS-ERROR pool event of an unknown pool"); }
	strcpy(nm, pi->name);
	mt_log("IH ev:%s begin\n", nm);
	pi->h_ev(cookie);
	mt_log("IH ev:%s end numobjs=%d\n", nm, iv_get_state()->numobjs);
}

static void shim_tn(void *cookie)
{
	struct pool_inst *pi = inst_of_priv(cookie);
	char nm[32];
	if (pi == NULL) { mt_log("IH tn:? begin\n"); mt_finish("HARNESS-ERROR pool event of an unknown pool"); }
	strcpy(nm, pi->name);
	mt_log("IH tn:%s begin\n", nm);
	pi->h_tn(cookie);
	mt_log("IH tn:%s end\n", nm);
}

static void shim_kick(void *cookie)
{
	struct worker *w = worker_of_thr(cookie);
	char nm[48];
	if (w == NULL) { mt_log("IH kick:? begin\n"); mt_finish("HARNESS-ERROR kick of an unknown worker"); }
	sprintf(nm, "kick:%s:T%d", PI[w->inst].name, w->vt);
	mt_log("IH %s begin\n", nm);
	w->h_kick(cookie);
	mt_log("IH %s end\n", nm);
}

static void shim_idle(void *cookie)
{
	struct worker *w = worker_of_thr(cookie);
	char nm[48];
	if (w == NULL) { mt_log("IH idle:? begin\n"); mt_finish("HARNESS-ERROR idle timer of an unknown worker"); }
	sprintf(nm, "idle:%s:T%d", PI[w->inst].name, w->vt);
	mt_log("IH %s begin\n", nm);
	w->h_idle(cookie);
	mt_log("IH %s end\n", nm);
}

static void shim_dead(void *cookie)
{
	int i;
	for (i = 0; i < ndr; i++)
		if (DR[i].used && DR[i].alive && DR[i].cookie == cookie)
			break;
	if (i == ndr) { mt_log("IH dead:? begin\n"); mt_finish("HARNESS-ERROR dead event of an unknown thread"); }
	mt_log("IH dead:%d begin\n", i);
	DR[i].h_dead(cookie);
	DR[i].joined = 1;
	mt_log("IH dead:%d end numobjs=%d\n", i, iv_get_state()->numobjs);
}

/* ------------------------------------------------------------------ redirected library-internal calls */
int __wrap_iv_event_register(struct iv_event *ev)
{
	int r;
	struct worker *w;

	if (creating_pool >= 0) {
		struct pool_inst *pi = &PI[creating_pool];
		r = iv_event_register(ev);
		if (creating_pool_step == 0) {
			pi->priv = ev->cookie;
			pi->alive = 1;
			pi->h_ev = ev->handler;
			ev->handler = shim_ev;
			mt_log("IREG ev:%s\n", pi->name);
		} else {
			pi->h_tn = ev->handler;
			ev->handler = shim_tn;
			mt_log("IREG tn:%s\n", pi->name);
		}
		creating_pool_step++;
		return r;
	}
	if (creating_thread >= 0 && DR[creating_thread].ev == NULL) {
		struct deadrec *d = &DR[creating_thread];
		r = iv_event_register(ev);
		d->ev = ev;
		d->cookie = ev->cookie;
		d->h_dead = ev->handler;
		d->alive = 1;
		ev->handler = shim_dead;
		mt_log("IREG dead:%d\n", creating_thread);
		return r;
	}
	w = worker_of_thr(ev->cookie);
	if (w != NULL && ev == &w->thr->kick) {
		r = iv_event_register(ev);
		w->vt = mt_me();
		w->h_kick = ev->handler;
		ev->handler = shim_kick;
		mt_log("IREG kick:%s:T%d\n", PI[w->inst].name, w->vt);
		return r;
	}
	return iv_event_register(ev);
}

void __wrap_iv_event_unregister(struct iv_event *ev)
{
	char nb[64];
	int i;
	struct deadrec *d;

	if (internal_event_name(ev, nb)) {
		mt_log("IUNREG %s\n", nb);
		for (i = 0; i < nwk; i++)
			if (WK[i].used && WK[i].alive && WK[i].vt >= 0 && ev == &WK[i].thr->kick)
				WK[i].alive = 0;	/* free(thr) follows */
		for (i = 0; i < npi; i++)
			if (PI[i].alive && PI[i].priv != NULL && ev == &PI[i].priv->thread_needed) {
				iv_event_unregister(ev);
				PI[i].alive = 0;	/* free(pool) follows */
				PI[i].priv = NULL;
				return;
			}
		d = dead_of_ev(ev);
		if (d != NULL) {
			iv_event_unregister(ev);
			d->alive = 0;
			d->seen = 1;
			d->ev = NULL;		/* keep no pointer into the record: LeakSanitizer must see it if nobody frees it */
			d->cookie = NULL;
			return;
		}
	}
	iv_event_unregister(ev);
}

void __wrap_iv_event_post(struct iv_event *ev)
{
	char nb[64];
	if (internal_event_name(ev, nb))
		mt_log("IPOST %s\n", nb);
	iv_event_post(ev);
}

void __wrap_iv_timer_register(struct iv_timer *t)
{
	struct worker *w = worker_of_thr(t->cookie);
	if (w != NULL && t == &w->thr->idle_timer) {
		if (t->handler != shim_idle) {
			w->h_idle = t->handler;
			t->handler = shim_idle;
		}
		mt_log("ITREG idle:%s:T%d expires=%lld now=%lld\n", PI[w->inst].name, w->vt,
		       (long long)t->expires.tv_sec * 1000000000LL + t->expires.tv_nsec, mt_vclock);
	}
	iv_timer_register(t);
}

static void thread_shim(void *arg)
{
	struct deadrec *d = arg;
	d->vt = mt_me();
	mt_log("TSTART dead:%d\n", (int)(d - DR));
	d->start(d->arg);
}

static int do_thread_create(const char *name, void (*start)(void *), void *arg, int worker_inst)
{
	int n = ndr, r;
	struct worker *w = NULL;

	if (ndr == MAXDEAD || nwk == MAXWK)
		mt_finish("HARNESS-ERROR too many iv_threads");
	memset(&DR[n], 0, sizeof(DR[n]));
	DR[n].used = 1;
	DR[n].vt = -1;
	DR[n].creator = mt_me();
	DR[n].start = start;
	DR[n].arg = arg;
	ndr++;
	if (worker_inst >= 0) {
		w = &WK[nwk++];
		memset(w, 0, sizeof(*w));
		w->used = 1; w->alive = 1; w->inst = worker_inst; w->vt = -1; w->deadn = n; w->thr = arg;
	}
	creating_thread = n;
	r = iv_thread_create(name, thread_shim, &DR[n]);
	creating_thread = -1;
	if (r < 0) {
		mt_log("THREAD-CREATE-FAILED dead:%d\n", n);
		DR[n].alive = 0;
		if (w != NULL)
			w->alive = 0;
	}
	return r;
}

/* iv_work.c's iv_work_start_thread: arg is the new struct work_pool_thread, its ->pool is already set */
int __wrap_iv_thread_create(const char *name, void (*start)(void *), void *arg)
{
	struct work_pool_thread *thr = arg;
	struct pool_inst *pi = inst_of_priv(thr->pool);
	if (pi == NULL)
		mt_finish("HARNESS-ERROR worker of an unknown pool");
	return do_thread_create(name, start, arg, (int)(pi - PI));
}

/* ------------------------------------------------------------------ user callbacks */
static void hook_start(void *c) { mt_log("HOOK start %s\n", PI[(long)c - 0x80000].name); mt_yield(); }
static void hook_stop(void *c) { mt_log("HOOK stop %s\n", PI[(long)c - 0x80000].name); }

static void w_work(void *c)
{
	int i = (int)((long)c - 0x90000);
	int me = mt_me();
	if (i < 0 || i >= MT_MAXO) { mt_log("WORK bad-cookie\n"); mt_finish("FIN"); }
	inwork[me] = W[i].inst >= 0 ? W[i].inst : -2;
	W[i].runs++;
	mt_log("WORK x%d begin pool=%s\n", i, W[i].inst >= 0 ? PI[W[i].inst].name : "null");
	mt_yield();
	mt_react("x.work", i);
	mt_log("WORK x%d end\n", i);
	inwork[me] = -1;
}

static void w_done(void *c)
{
	int i = (int)((long)c - 0x90000);
	if (i < 0 || i >= MT_MAXO) { mt_log("CB bad-cookie work\n"); mt_finish("FIN"); }
	W[i].dones++;
	W[i].state = 0;		/* the item may be submitted again from its own completion */
	mt_log("CB x%d.done owner=T%d\n", i, W[i].inst >= 0 ? PI[W[i].inst].owner : W[i].submitter);
	mt_react("x.done", i);
	mt_log("END\n");
}

static void thr_body(void *arg)
{
	int i = (int)(long)arg;
	int mode = H[i].mode;

	mt_log("BODY h%d begin mode=%s\n", i, mode_name[mode]);
	if (mode != M_NOINIT) {
		iv_init();
		mt_react("h.body", i);
		mt_log("API main\n");
		iv_main();
		mt_log("MAINRET\n");
		if (mode == M_RET || mode == M_PEXIT) {
			iv_deinit();
			mt_log("DEINIT\n");
		}
	} else {
		mt_yield();
	}
	mt_log("BODY h%d end\n", i);
	if (mode == M_PEXIT || mode == M_PEXIT_NODEINIT)
		pthread_exit(NULL);
}

/* ------------------------------------------------------------------ scenario objects and actions */
static int w_cfg(const char *tok)
{
	if (!strncmp(tok, "failcreate=", 11)) { fail_create_at = atoi(tok + 11); return 1; }
	if (!strncmp(tok, "seq0=", 5)) { seq0 = (uint32_t)strtoull(tok + 5, NULL, 10); return 1; }
	return 0;
}

static int w_fail_thread_create(void)
{
	creates_seen++;
	return fail_create_at > 0 && creates_seen == fail_create_at;
}

static int w_declare(char *kind, char *name, char *rest, int owner)
{
	int i = atoi(name + 1) % MT_MAXO;
	if (!strcmp(kind, "pool")) {
		char *save = NULL, *tok;
		memset(&P[i], 0, sizeof(P[i]));
		P[i].exists = 1; P[i].owner = owner; P[i].max = 1; P[i].cur = -1;
		for (tok = rest ? strtok_r(rest, " \t\n", &save) : NULL; tok != NULL; tok = strtok_r(NULL, " \t\n", &save)) {
			if (!strncmp(tok, "max=", 4)) P[i].max = atoi(tok + 4);
			if (!strcmp(tok, "hooks")) P[i].hooks = 1;		/* both */
			if (!strcmp(tok, "hooks-start")) P[i].hooks = 2;	/* only thread_start set, thread_stop NULL */
			if (!strcmp(tok, "hooks-stop")) P[i].hooks = 3;		/* only thread_stop set (state created lazily by the work functions) */
		}
		return 1;
	}
	if (!strcmp(kind, "work")) {
		memset(&W[i], 0, sizeof(W[i]));
		W[i].exists = 1; W[i].inst = -1;
		IV_WORK_ITEM_INIT(&W[i].item);
		W[i].item.cookie = (void *)(long)(0x90000 + i);
		W[i].item.work = w_work;
		W[i].item.completion = w_done;
		return 1;
	}
	if (!strcmp(kind, "thr")) {
		memset(&H[i], 0, sizeof(H[i]));
		H[i].exists = 1;
		return 1;
	}
	return 0;
}

static int w_action(char *op, int guard, char *a1, char *a2, char *rest)
{
	int me = mt_me();
	(void)guard; (void)rest;

	if (!strcmp(op, "poolcreate")) {
		int i = mt_objnum(a1, 'p'), n, r;
		if (!P[i].exists || P[i].owner != me || P[i].cur >= 0) return 1;
		if (npi == MAXINST) mt_finish("HARNESS-ERROR too many pool instances");
		n = npi++;
		memset(&PI[n], 0, sizeof(PI[n]));
		PI[n].used = 1; PI[n].obj = i; PI[n].gen = P[i].gens++; PI[n].owner = me;
		if (PI[n].gen == 0) sprintf(PI[n].name, "p%d", i); else sprintf(PI[n].name, "p%d.%d", i, PI[n].gen);
		IV_WORK_POOL_INIT(&P[i].pool);
		P[i].pool.max_threads = P[i].max;
		P[i].pool.cookie = (void *)(long)(0x80000 + n);
		if (P[i].hooks == 1 || P[i].hooks == 2) P[i].pool.thread_start = hook_start;
		if (P[i].hooks == 1 || P[i].hooks == 3) P[i].pool.thread_stop = hook_stop;
		mt_log("API poolcreate %s max=%d hooks=%s\n", PI[n].name, P[i].max, P[i].hooks == 0 ? "0" : P[i].hooks == 1 ? "1" : P[i].hooks == 2 ? "start" : "stop");
		creating_pool = n; creating_pool_step = 0;
		r = iv_work_pool_create(&P[i].pool);
		creating_pool = -1;
		if (r == 0) P[i].cur = n;
		if (r == 0 && seq0 != 0) {
			/* a pool that has already seen seq0 submissions (cfg seq0=N): its submission counters are about to pass 2^16 / 2^32 */
			struct work_pool_priv *pp = P[i].pool.priv;
			pp->seq_head = pp->seq_tail = seq0;
		}
		mt_log("RET %d\n", r);
		return 1;
	}
	if (!strcmp(op, "submit") || !strcmp(op, "submitc")) {
		int cont = !strcmp(op, "submitc");
		int x = mt_objnum(a2, 'x');
		if (!W[x].exists || W[x].state != 0) return 1;
		if (a1 != NULL && !strcmp(a1, "null")) {
			if (!iv_inited()) return 1;
			W[x].state = 1; W[x].inst = -1; W[x].submitter = me;
			mt_log("API %s null x%d\n", op, x);
			if (cont) iv_work_pool_submit_continuation(NULL, &W[x].item);
			else iv_work_pool_submit_work(NULL, &W[x].item);
			mt_log("RET\n");
			return 1;
		}
		{
			int i = mt_objnum(a1, 'p'), n;
			if (!P[i].exists || P[i].cur < 0) return 1;	/* never created, or already put */
			n = P[i].cur;
			if (!cont && P[i].owner != me) return 1;
			/* a continuation may come from any thread that runs a work function of any pool (not from a NULL-pool item: -2) */
			if (cont && P[i].owner != me && inwork[me] < 0) return 1;
			W[x].state = 1; W[x].inst = n; W[x].submitter = me;
			mt_log("API %s %s x%d\n", op, PI[n].name, x);
			P[i].submitting++;
			if (cont) iv_work_pool_submit_continuation(&P[i].pool, &W[x].item);
			else iv_work_pool_submit_work(&P[i].pool, &W[x].item);
			P[i].submitting--;
			mt_log("RET\n");
		}
		return 1;
	}
	if (!strcmp(op, "put")) {
		int i = mt_objnum(a1, 'p'), n;
		if (!P[i].exists || P[i].owner != me || P[i].cur < 0) return 1;
		/* the user promises that no submission is made after (or concurrently with) put: a continuation that a
		   worker (of this or of another pool) has begun but not finished makes this put invalid use, so it is not performed */
		if (P[i].submitting > 0) return 1;
		n = P[i].cur;
		mt_log("API put %s\n", PI[n].name);
		P[i].cur = -1;
		iv_work_pool_put(&P[i].pool);
		mt_log("RET handle=%d\n", P[i].pool.priv != NULL);
		memset(&P[i].pool, 0x5a, sizeof(P[i].pool));	/* the caller may reuse the structure at once */
		return 1;
	}
	if (!strcmp(op, "spawn")) {
		int i = mt_objnum(a1, 'h'), m, r;
		char nm[16];
		if (!H[i].exists || H[i].spawned || !iv_inited()) return 1;
		for (m = 0; m < 5; m++)
			if (a2 != NULL && !strcmp(a2, mode_name[m]))
				break;
		if (m == 5) m = M_RET;
		H[i].mode = m;
		H[i].spawned = 1;
		sprintf(nm, "h%d", i);
		mt_log("API spawn h%d mode=%s dead:%d\n", i, mode_name[m], ndr);
		r = do_thread_create(nm, thr_body, (void *)(long)i, -1);
		mt_log("RET %d\n", r);
		return 1;
	}
	return 0;
}

static int w_mutex_name(const void *m, char *buf)
{
	int i;
	for (i = 0; i < npi; i++)
		if (PI[i].alive && PI[i].priv != NULL && m == (const void *)&PI[i].priv->lock) {
			sprintf(buf, "poolmu:%s", PI[i].name);
			return 1;
		}
	return 0;
}

static int item_index(struct iv_list_head *ilh)
{
	struct iv_work_item *it = iv_container_of(ilh, struct iv_work_item, list);
	struct work_obj *w = iv_container_of(it, struct work_obj, item);
	if (w < W || w >= W + MT_MAXO)
		return -1;
	return (int)(w - W);
}

static void w_before_unlock(const void *m)
{
	int i, k, first;
	struct pool_inst *pi = NULL;
	struct work_pool_priv *p;
	struct iv_list_head *ilh;

	for (i = 0; i < npi; i++)
		if (PI[i].alive && PI[i].priv != NULL && m == (const void *)&PI[i].priv->lock)
			pi = &PI[i];
	if (pi == NULL)
		return;
	p = pi->priv;
	printf("T%d SNAP poolmu:%s started=%d max=%d shut=%d head=%u tail=%u queued=", mt_me(), pi->name,
	       p->started_threads, p->max_threads, p->shutting_down, (uint32_t)(p->seq_head - seq0), (uint32_t)(p->seq_tail - seq0));
	first = 1;
	iv_list_for_each (ilh, &p->work_items) { printf("%sx%d", first ? "" : ",", item_index(ilh)); first = 0; }
	printf(" done=");
	first = 1;
	iv_list_for_each (ilh, &p->work_done) { printf("%sx%d", first ? "" : ",", item_index(ilh)); first = 0; }
	printf(" idle=");
	first = 1;
	iv_list_for_each (ilh, &p->idle_threads) {
		struct work_pool_thread *thr = iv_container_of(ilh, struct work_pool_thread, list);
		struct worker *w = worker_of_thr(thr);
		printf("%sT%d", first ? "" : ",", w ? w->vt : -1);
		first = 0;
	}
	printf(" workers=");
	first = 1;
	for (k = 0; k < nwk; k++)
		if (WK[k].used && WK[k].alive && WK[k].vt >= 0 && WK[k].inst == (int)(pi - PI)) {
			printf("%sT%d:k%d:t%d", first ? "" : ",", WK[k].vt, WK[k].thr->kicked, iv_timer_registered(&WK[k].thr->idle_timer) ? 1 : 0);
			first = 0;
		}
	printf("\n");
}

static void w_at_end(void)
{
	int i;
	for (i = 0; i < MT_MAXO; i++)
		if (W[i].exists && (W[i].runs || W[i].state))
			printf("T%d ITEM x%d inflight=%d runs=%d dones=%d\n", mt_me(), i, W[i].state, W[i].runs, W[i].dones);
	for (i = 0; i < npi; i++)
		printf("T%d POOL %s freed=%d\n", mt_me(), PI[i].name, !PI[i].alive);
	for (i = 0; i < ndr; i++)
		if (DR[i].used && (DR[i].ev != NULL || DR[i].seen))
			printf("T%d THR dead:%d thread=T%d creator=T%d joined=%d registered=%d\n", mt_me(), i, DR[i].vt, DR[i].creator, DR[i].joined, DR[i].alive);
}

static void w_init(void)
{
	int i;
	for (i = 0; i < MT_MAXT; i++)
		inwork[i] = -1;
}

static struct mt_ext work_ext = {
	.name = "work",
	.init = w_init,
	.cfg = w_cfg,
	.declare = w_declare,
	.action = w_action,
	.mutex_name = w_mutex_name,
	.event_name = internal_event_name,
	.before_unlock = w_before_unlock,
	.fail_thread_create = w_fail_thread_create,
	.at_end = w_at_end,
};

static void reg(void) __attribute__((constructor));
static void reg(void) { mt_register_ext(&work_ext); }
