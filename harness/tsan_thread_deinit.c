/* C13/C14 free-running program: creators that leave their loop with iv_quit() and call iv_deinit() while threads
 * they created with iv_thread_create() are still alive, have just exited, or have been joined -- all three orders,
 * chosen by timing.  Real threads on the real kernel (no baton scheduler); meant to be built twice:
 *   -fsanitize=thread              no data race between the exiting child (iv_thread_destructor) and the creator's
 *                                  iv_thread_tls_deinit_thread
 *   -fsanitize=address (+leaks)    no use of the creator's freed iv_state, every struct iv_thread and its name freed
 *                                  exactly once (LeakSanitizer at process exit, after every thread has gone)
 *   usage: tsan_thread_deinit <seed> <children per creator> <ms> [creators in flight]
 * Every way a child can end is used: return after iv_deinit, pthread_exit after iv_deinit, return without iv_deinit,
 * pthread_exit without iv_deinit, never calling iv_init.  Valid use: the first iv_init() is complete before any
 * thread is started; objects are touched by their owning thread only.
 */
#include <iv.h>
#include <iv_thread.h>
#include "tsan_util.h"

static atomic_int created, finished, creators_done, quit_with_live, quit_after_all;
static atomic_int stop_all;

struct child {
	uint64_t rng;
	int mode;
	struct iv_timer t;
};

static void nop(void *x) { (void)x; }

static void arm(struct iv_timer *t, unsigned usec)
{
	iv_validate_now();
	t->expires = iv_now;
	t->expires.tv_nsec += usec * 1000L;
	while (t->expires.tv_nsec >= 1000000000) {
		t->expires.tv_sec++;
		t->expires.tv_nsec -= 1000000000;
	}
	iv_timer_register(t);
}

static void child_main(void *arg)
{
	struct child *c = arg;
	int mode = c->mode;

	if (mode == 4) {
		usleep(tsu_rand(&c->rng) % 300);
	} else {
		iv_init();
		IV_TIMER_INIT(&c->t);
		c->t.handler = nop;
		arm(&c->t, tsu_rand(&c->rng) % 400);
		iv_main();
		if (mode == 0 || mode == 1)
			iv_deinit();
	}
	free(c);
	atomic_fetch_add(&finished, 1);
	if (mode == 1 || mode == 3)
		pthread_exit(NULL);
}

struct creator {
	uint64_t rng;
	int idx;
	int mine;
	struct iv_timer q;
};

static void quit_handler(void *_cr)
{
	(void)_cr;
	iv_quit();
}

static void *creator_main(void *arg)
{
	struct creator *cr = arg;
	int i, n, before;

	iv_init();
	n = 1 + tsu_rand(&cr->rng) % g_nthr;
	for (i = 0; i < n; i++) {
		struct child *c = calloc(1, sizeof(*c));
		char name[32];

		c->rng = tsu_rand(&cr->rng) * 2654435761ULL + 1;
		c->mode = tsu_rand(&cr->rng) % 5;
		snprintf(name, sizeof(name), "k%d.%d", cr->idx, i);
		if (iv_thread_create(name, child_main, c) < 0) {
			free(c);
			continue;
		}
		atomic_fetch_add(&created, 1);
		cr->mine++;
	}
	if (tsu_rand(&cr->rng) % 4 != 0) {
		IV_TIMER_INIT(&cr->q);
		cr->q.cookie = cr;
		cr->q.handler = quit_handler;
		arm(&cr->q, tsu_rand(&cr->rng) % 500);
		before = atomic_load(&finished);
		iv_main();		/* returns through iv_quit() or because every child has been joined */
		if (iv_timer_registered(&cr->q)) {
			iv_timer_unregister(&cr->q);
			atomic_fetch_add(&quit_after_all, 1);
		} else {
			atomic_fetch_add(&quit_with_live, 1);
		}
		(void)before;
	}
	/* else: deinitialise right away, without ever running the loop */
	if (tsu_rand(&cr->rng) & 1)
		iv_deinit();
	/* else: leave it to the TLS destructor of this thread */
	atomic_fetch_add(&creators_done, 1);
	free(cr);
	return NULL;
}

int main(int argc, char **argv)
{
	struct timespec t0, t;
	int inflight, idx = 0;
	uint64_t rng;

	tsu_args(argc, argv, 3, 600);
	inflight = argc > 4 ? atoi(argv[4]) : 3;
	if (inflight < 1) inflight = 1;
	if (inflight > MAXT) inflight = MAXT;
	rng = tsu_seed(0);

	iv_init();
	clock_gettime(CLOCK_MONOTONIC, &t0);
	for (;;) {
		pthread_t th[MAXT];
		int i;

		clock_gettime(CLOCK_MONOTONIC, &t);
		if ((t.tv_sec - t0.tv_sec) * 1000 + (t.tv_nsec - t0.tv_nsec) / 1000000 >= g_dur_ms)
			break;
		for (i = 0; i < inflight; i++) {
			struct creator *cr = calloc(1, sizeof(*cr));
			cr->rng = tsu_rand(&rng) * 0x9e3779b97f4a7c15ULL + 1;
			cr->idx = idx++;
			pthread_create(&th[i], NULL, creator_main, cr);
		}
		for (i = 0; i < inflight; i++)
			pthread_join(th[i], NULL);
	}
	atomic_store(&stop_all, 1);
	/* detached children may still be running: wait for all of them, then give their TLS destructors time to finish */
	while (atomic_load(&finished) < atomic_load(&created))
		usleep(1000);
	usleep(20000);
	iv_deinit();
	printf("STATS creators=%d children=%d finished=%d quit_with_children_unjoined=%d\n",
	       atomic_load(&creators_done), atomic_load(&created), atomic_load(&finished),
	       atomic_load(&quit_with_live));
	return 0;
}
