/*
 * T-sched extension for C10 (iv_signal fan-out).  White-box on top of mt_proc.c (textual include, so that
 * the `obj sig` table S[] and the virtual pid are visible here; mt_proc.c itself is unchanged and must
 * NOT be compiled a second time: build with common.build_wrapped([mt_h.c, mt_sig.c], MT_WRAPS + SIG_WRAPS)).
 *
 * Additional library references redirected here (ld -r --wrap): iv_event_raw_post, iv_event_raw_register,
 * iv_event_raw_unregister - only iv_signal.c's (and other library files') references; the raw events that
 * belong to an `obj sig` interest are recognised by address.
 *
 * Extra log records:
 *   SIGADDR s<i> <address>       inside iv_signal_register: the address of the struct (the comparator's last key)
 *   SIGPOST s<i>                 iv_signal.c posts the raw event of interest i (__iv_signal_do_wake)
 *   SIGPOSTED s<i>               that post has been written to the descriptor (logged with no scheduling point after the write)
 *   SIGEVENT s<i>                the raw-event layer calls iv_signal_event for interest i (its read returned > 0);
 *                                written from a trampoline that then calls the library's own handler
 *   SIGSNAP active=s0,s3         at every SPINUNLOCK of sig_lock, while it is still held: the interests whose raw
 *                                event is registered and whose `active` flag is set
 *   SPINLOCK/SPINUNLOCK siglock  sig_lock gets a name as soon as it is known (first registration)
 *   PID <n>                      `setpid <n>`: from now on getpid() answers n (the scenario continues "in a forked child")
 *   CHILD-SIGNAL <n> / CHILD-SIGNAL-RETURN <n>
 *                                `childsig <n>`: one atomic episode "a forked child (pid 2) receives signal n before exec":
 *                                the installed handler is called with getpid() != owner pid; the child's memory is a
 *                                copy and its event descriptors are shared with the parent, so anything posted would
 *                                wake the parent
 * Extra actions: `setpid <n>`, `childsig <signum>`.
 */
#include "mt_proc.c"


static void (*saved_handler[MT_MAXO])(void *);
static int live[MT_MAXO];
static const void *last_locked[MT_MAXT];
static const void *sig_lock_addr;

static int sig_of_raw(const struct iv_event_raw *ev)
{
	int i;
	for (i = 0; i < MT_MAXO; i++)
		if (S[i].exists == 1 && S[i].o != NULL && &S[i].o->ev == ev)
			return i;
	return -1;
}

static void sig_tramp(void *cookie)
{
	int i;
	for (i = 0; i < MT_MAXO; i++)
		if (S[i].exists == 1 && (void *)S[i].o == cookie)
			break;
	if (i == MT_MAXO) {
		mt_log("SIGEVENT unknown\n");
		mt_finish("FIN");
	}
	mt_log("SIGEVENT s%d\n", i);
	saved_handler[i](cookie);
}

void __wrap_iv_event_raw_post(const struct iv_event_raw *ev)
{
	int i = sig_of_raw(ev);
	if (i >= 0)
		mt_log("SIGPOST s%d\n", i);
	iv_event_raw_post(ev);
	if (i >= 0)
		mt_log("SIGPOSTED s%d\n", i);	/* no scheduling point since the write(2) */
}

int __wrap_iv_event_raw_register(struct iv_event_raw *ev)
{
	int i = sig_of_raw(ev);
	if (i >= 0) {
		saved_handler[i] = ev->handler;
		ev->handler = sig_tramp;
		live[i] = 1;
		mt_log("SIGADDR s%d %lu\n", i, (unsigned long)S[i].o);
		if (sig_lock_addr == NULL)
			sig_lock_addr = last_locked[mt_me()];	/* iv_signal_register holds sig_lock here */
	}
	return iv_event_raw_register(ev);
}

void __wrap_iv_event_raw_unregister(struct iv_event_raw *ev)
{
	int i = sig_of_raw(ev);
	if (i >= 0)
		live[i] = 0;
	iv_event_raw_unregister(ev);
}

static int s_mutex_name(const void *m, char *buf)
{
	last_locked[mt_me()] = m;
	if (m == sig_lock_addr && m != NULL) {
		strcpy(buf, "siglock");
		return 1;
	}
	return 0;
}

static void s_before_unlock(const void *m)
{
	int i, first = 1;
	if (m != sig_lock_addr || m == NULL)
		return;
	printf("T%d SIGSNAP active=", mt_me());
	for (i = 0; i < MT_MAXO; i++)
		if (S[i].exists == 1 && live[i] && S[i].o->active) {
			printf("%ss%d", first ? "" : ",", i);
			first = 0;
		}
	printf("\n");
}

static int s_action(char *op, int guard, char *a1, char *a2, char *rest)
{
	(void)guard; (void)a2; (void)rest;
	if (!strcmp(op, "setpid")) {
		vpid = a1 ? atoi(a1) : 1;
		mt_log("PID %d\n", vpid);
		return 1;
	}
	if (!strcmp(op, "childsig")) {
		struct sigaction old;
		int signum = a1 ? atoi(a1) : SIGUSR1;
		int keep = vpid;
		if (mt_sigaction(signum, NULL, &old) < 0 || old.sa_handler == SIG_DFL)
			return 1;
		vpid = keep + 1;
		mt_log("CHILD-SIGNAL %d\n", signum);
		old.sa_handler(signum);
		mt_log("CHILD-SIGNAL-RETURN %d\n", signum);
		vpid = keep;
		return 1;
	}
	return 0;
}

static struct mt_ext sig_ext = {
	.name = "sig",
	.action = s_action,
	.mutex_name = s_mutex_name,
	.before_unlock = s_before_unlock,
};

static void sreg(void) __attribute__((constructor));
static void sreg(void) { mt_register_ext(&sig_ext); }
