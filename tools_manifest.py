#!/usr/bin/env python3
"""Regenerate MANIFEST.json from the table below (kept in one place so it stays valid)."""
import json, os
HERE = os.path.dirname(os.path.abspath(__file__))
props = [json.loads(l) for l in open(os.path.join(HERE, "properties.jsonl"))]
ALL = [p["id"] for p in props]

CLAIMED = {
 "C16": dict(
   text="Lean 4 theorems (Ivy/Props/C16.lean) prove, for every history of inserts/deletes of any length and any keys, that the model of iv_avl.c "
        "(stored heights, early-stop rebalance walk, victim choice) stays an ordered, exactly-height-labelled, balanced tree holding exactly the "
        "inserted-and-not-deleted keys, duplicates rejected unchanged, height logarithmic. The model is tied to the current iv_avl.c on every run by a "
        "differential run: every AVL shape up to height 4 (thorough: 5) x every insert position x every deletable node plus random histories, full "
        "dump compared after every operation; an independent reference oracle on the implementation's output supplies the failing input.",
   note="Trusted: Lean kernel; axioms propext/Classical.choice/Quot.sound; the C harness and the sampled correspondence; parent pointers checked at run time only.",
   technique="Lean 4 invariant proof by induction over histories + differential correspondence (exhaustive small shapes)",
   design="§7 C16"),
 "C05": dict(
   text="Lean 4 theorems (Ivy/Props/C05.lean) prove for the model of iv_timer.c's store (1-based binary heap with back indices in a radix tree "
        "modelled by capacity/truncation, pull_up/push_down incl. the NULL-tail test, growth and shrink tests) that HeapInv (order, slot<->index "
        "bijection, NULL tail, capacity bookkeeping) holds initially and after every register/unregister of any slot at any population, that each "
        "operation changes membership and expiry of no other timer, that the root is a minimum, and that iv_run_timers' batch is exactly the "
        "registered timers not after `now`, in non-decreasing expiry order. Tied to the current iv_timer.c by differential runs through the public "
        "API with the full slot array and every back index compared, incl. sweeps across 128 and 16384 (thorough: 40000) in both directions.",
   note="Trusted: Lean kernel; standard axioms; the harness and sampled correspondence; interior radix nodes modelled by capacity only; expires not modified while registered.",
   technique="Lean 4 heap invariant proof (unbounded population) + differential correspondence with white-box slot dump",
   design="§7 C05"),
 "C17": dict(
   text="Lean 4 theorems (Ivy/Props/C17.lean) prove for the model of iv_fd_pump_pump (both transfer modes) and every sequence of syscall results "
        "(partial counts, EAGAIN, EINTR chains, EOF, errors, FIONREAD values): src = sink ++ buffer is invariant (no loss, duplication, reordering), "
        "return value 0 iff EOF seen and drained, -1 iff an I/O error was consumed, else 1; requested bands equal the state; read never issued with "
        "count 0, after EOF or when full; shutdown exactly once, only when requested, only after the drain; done stays done. Tied to the current "
        "iv_fd_pump.c by replaying the log of the real file (white-box include with scripted read/write/splice/ioctl) through the model, which must "
        "predict every call, set_bands, return value and buffer ownership.",
   note="Trusted: Lean kernel; standard axioms; the scripted-syscall harness; kernel contract (read/write return 1..count); allocation failure not modelled.",
   technique="Lean 4 state-machine invariant proof over all syscall-result sequences + log-replay correspondence",
   design="§7 C17"),
}
NOT_YET = "check not built yet in this round; planned per DESIGN.md §7 (Lean model + theorems + correspondence)"

checks = []
for pid in ALL:
    if pid in CLAIMED:
        c = CLAIMED[pid]
        checks.append({
            "property_id": pid,
            "quick_cmd": f"./check.py {pid} --tier quick",
            "thorough_cmd": f"./check.py {pid} --tier thorough",
            "evidence_file": f"/verif/evidence/{pid}.json",
            "replay_cmd_template": "./check.py replay {path}",
            "engine": "lean4-proof+correspondence",
            "level_claimed": {"category": "proof", "text": c["text"], "design_ref": c["design"]},
            "level_note": c["note"],
            "technique": c["technique"],
        })
manifest = {
    "version": 1,
    "setup_cmd": "./setup.sh",
    "hooks": {"guard": "IVYKIS_VERIF", "enable": "none needed: the library is compiled unmodified from /repo's working tree and interposed at link time / by white-box inclusion",
              "baseline_off_cmd": "make -C /repo && make -C /repo/test check", "source_commits": [], "add_only": True},
    "engines": [{"name": "lean4-proof+correspondence", "path": "/verif/check.py", "serves_properties": sorted(CLAIMED),
                 "kind_free_text": "Lean 4 theorems over hand-written executable models; models tied to /repo by differential / log-replay correspondence and regenerated constants"}],
    "checks": checks,
    "notes": "See DESIGN.md. Evidence is rewritten by every run of check.py.",
    "not_applicable": [{"property_id": pid, "reason": NOT_YET} for pid in ALL if pid not in CLAIMED],
}
json.dump(manifest, open(os.path.join(HERE, "MANIFEST.json"), "w"), indent=1)
print("claimed:", sorted(CLAIMED))
