#!/usr/bin/env python3
"""Regenerate MANIFEST.json from the table below (kept in one place so it stays valid)."""
import json, os
HERE = os.path.dirname(os.path.abspath(__file__))
props = [json.loads(l) for l in open(os.path.join(HERE, "properties.jsonl"))]
ALL = [p["id"] for p in props]

CLAIMED = {
 "C16": dict(
   text="Lean 4 theorems (Ivy/Props/C16.lean) prove, for every history of inserts/deletes of any length and any keys, that the model of iv_avl.c "
        "(stored heights, early-stop rebalance walk, victim choice) stays an ordered, exactly-height-labelled, balanced tree holding exactly the "
        "inserted-and-not-deleted keys, duplicates rejected unchanged, height logarithmic. The model is tied to the current iv_avl.c on every run by a "
        "differential run: every AVL shape up to height 4 (thorough: 5) x every insert position x every deletable node plus random histories, full "
        "dump compared after every operation; an independent reference oracle on the implementation's output supplies the failing input.",
   note="Trusted: Lean kernel; axioms propext/Classical.choice/Quot.sound; the C harness and the sampled correspondence; parent pointers checked at run time only.",
   technique="Lean 4 invariant proof by induction over histories + differential correspondence (exhaustive small shapes)",
   design="§7 C16"),
 "C05": dict(
   text="Lean 4 theorems (Ivy/Props/C05.lean) prove for the model of iv_timer.c's store (1-based binary heap with back indices in a radix tree "
        "modelled by capacity/truncation, pull_up/push_down incl. the NULL-tail test, growth and shrink tests) that HeapInv (order, slot<->index "
        "bijection, NULL tail, capacity bookkeeping) holds initially and after every register/unregister of any slot at any population, that each "
        "operation changes membership and expiry of no other timer, that the root is a minimum, and that iv_run_timers' batch is exactly the "
        "registered timers not after `now`, in non-decreasing expiry order. Tied to the current iv_timer.c by differential runs through the public "
        "API with the full slot array and every back index compared, incl. sweeps across 128 and 16384 (thorough: 40000) in both directions.",
   note="Trusted: Lean kernel; standard axioms; the harness and sampled correspondence; interior radix nodes modelled by capacity only; expires not modified while registered.",
   technique="Lean 4 heap invariant proof (unbounded population) + differential correspondence with white-box slot dump",
   design="§7 C05"),
 "C17": dict(
   text="Lean 4 theorems (Ivy/Props/C17.lean) prove for the model of iv_fd_pump_pump (both transfer modes) and every sequence of syscall results "
        "(partial counts, EAGAIN, EINTR chains, EOF, errors, FIONREAD values): src = sink ++ buffer is invariant (no loss, duplication, reordering), "
        "return value 0 iff EOF seen and drained, -1 iff an I/O error was consumed, else 1; requested bands equal the state; read never issued with "
        "count 0, after EOF or when full; shutdown exactly once, only when requested, only after the drain; done stays done. Tied to the current "
        "iv_fd_pump.c by replaying the log of the real file (white-box include with scripted read/write/splice/ioctl) through the model, which must "
        "predict every call, set_bands, return value and buffer ownership.",
   note="Trusted: Lean kernel; standard axioms; the scripted-syscall harness; kernel contract (read/write return 1..count); allocation failure not modelled.",
   technique="Lean 4 state-machine invariant proof over all syscall-result sequences + log-replay correspondence",
   design="§7 C17"),
}
L1_NOTE = ("Trusted: Lean kernel; axioms propext/Classical.choice/Quot.sound; the statement = the monitor Ivy/Mon/{id}.lean and the environment "
           "contract envOk (valid API use, kernel contract K1, monotone normalised clock) in Ivy/L1/Exec.lean; the hand-written machine Ivy/L1/Machine.lean "
           "tied to /repo by sampled log replay (vos-lite harness: real kernel objects, virtual time, wrapped syscalls); gcc+ASan/UBSan.")
L1_TEXTS = {
 "C04": ("never-early / exactly-once / no-oversleep for timers", "Mon.C04: a timer callback only for a registered timer (consuming it), only when the loop clock is at or past its "
         "expiry; at every kernel wait no registered timer's expiry lies before the requested timeout (ns exact, ms rounded up, 24h cap) or the kernel timer is armed at or before it"),
 "C06": ("task exactly-once / no blocking wait with a task pending / no task twice per round", "Mon.C06"),
 "C03": ("descriptor callbacks only for registered descriptors, set handlers and kernel-reported bands, once per iteration", "Mon.C03"),
 "C02": ("kernel interest = handlers at every wait; every reported band whose handler stays set is dispatched", "Mon.C02 (rule (c), lost readiness against ground truth, is an implementation-side oracle)"),
 "C07": ("iv_main returns iff quit or nothing registered; no blocking wait with nothing registered; callbacks one at a time inside iv_main", "Mon.C07 (the spin oracle runs on implementation logs only)"),
 "C01": ("no callback after unregister returned, one-shot objects unregistered at entry, no access to freed object memory", "Mon.C01 (+ AddressSanitizer with free-on-unregister scenarios on the implementation)"),
}
for _id, (_what, _mon) in L1_TEXTS.items():
    if os.path.exists(os.path.join(HERE, "lean", "Ivy", "L1", f"Proofs{_id}.lean")):
        CLAIMED[_id] = dict(
            text=f"Lean 4 theorem Ivy.Props.{_id}.monitor_accepts: for every poll method, every configuration of optional kernel facilities, every user program "
                 f"(any API calls from set-up code and from any handler), every kernel answer allowed by the contract (wait results, EINTR, ENOSYS fallbacks, clock "
                 f"values, foreign-thread posts) the trace of the L1 loop machine is accepted by the monitor stating: {_what} [{_mon}]. The machine mirrors iv_main, "
                 f"iv_fd*, iv_task, the timer heap, iv_event/raw at basic-block granularity; it is tied to the current /repo on every run by replaying logs of the real "
                 f"library (families targeted at this property, all four methods, injected faults) — every library record must be predicted — and the same monitor is "
                 f"evaluated on the implementation's own records to produce concrete failing scenarios.",
            note=L1_NOTE.format(id=_id),
            technique="Lean 4 simulation proof (monitor state vs machine state, induction over traces) + log-replay correspondence",
            design=f"§7 {_id}")

CLAIMED["C18"] = dict(
    text="Partly proof, partly runtime. Proved in Lean (Ivy.Props.C18): the resource ledger of a loop instance — for every history of init / kernel-timer "
         "creation / timer-store growth and shrink / raw-event (un)registration / deinit, any number of cycles, everything acquired is released at deinit and the "
         "books are exact in between. Use of freed object memory and poll-array indexing are covered by the C01/C02 theorems on the L1 machine. What the model cannot "
         "exhibit (byte-level ownership) is carried by the correspondence runs: every scenario family under ASan/UBSan/LeakSanitizer on all four methods, "
         "init-use-deinit cycles with the descriptor table and live heap compared across cycles and the live delta (epoll fd, timerfd) checked against the ledger "
         "model, O_NONBLOCK/FD_CLOEXEC verified after every successful registration, thread churn under the deterministic scheduler. Level: proof for the ledger logic; "
         "partial for memory safety (sanitizer-backed exploration).",
    note="Trusted: Lean kernel; standard axioms; sanitizers and the harnesses; the ledger model's list of acquisitions (read off iv_init/iv_deinit and the poll methods); "
         "memory safety at byte level is NOT proved — it is explored under sanitizers.",
    technique="Lean 4 ledger invariant + sanitizer/ledger exploration through the replay harness",
    design="§7 C18")

CLAIMED["C15"] = dict(
    text="The L1 monitor theorems (Ivy.Props.C01..C07, those already proved are re-exported in Ivy.Props.C15) are stated for an arbitrary poll method, arbitrary "
         "availability of timerfd/epoll_pwait2 and arbitrary wait results (EINTR anywhere, ENOSYS/EPERM fallbacks incl. the mid-run ppoll->poll and "
         "epoll-timerfd->epoll switches), so they are the statement 'the guarantees hold under every method, exclusion, interruption and missing call'; "
         "Ivy.Props.C15.method_selection proves which method is selected for any exclusion string as the C parses it. Tied to the code by fault enumeration: "
         "every base scenario x 4 methods x every applicable missing-facility configuration x EINTR at wait call k, each log replayed through the machine and all "
         "monitors, plus a differential run of method selection on random exclusion strings x epoll availability.",
    note="Trusted: as for the L1 checks; 'same behaviour' is claimed as 'same guarantees' (monitors), not trace equality; splice/pipe2 fallbacks of iv_fd_pump are "
         "covered by C17 (both transfer modes), eventfd->pipe fallbacks by the noeventfd configurations here and by C09.",
    technique="Lean 4 theorems quantified over configurations and fault inputs + exhaustive fault-position enumeration per scenario",
    design="§7 C15")

if os.path.exists(os.path.join(HERE, "lean", "Ivy", "L3", "InotifyProofs.lean")):
    CLAIMED["C20"] = dict(
        text="Lean 4 theorems (Ivy/Props/C20.lean, 13) over a model of iv_inotify.c's walk (byte-offset buffer with the len+16 stride, watch tree as an "
             "association list unique by wd, the `term` mechanism): for every buffer, watch set and reaction program under valid use — no fault; the calls "
             "of a walk are exactly, in buffer order, the records whose wd had a registered watch when reached, each to that watch; IN_IGNORED / one-shot "
             "watches are absent from the instance at handler entry; after a watch or instance unregister nothing more is delivered to it and a dead "
             "instance is never touched. Tied to the current iv_inotify.c by replaying logs of the real file (white-box include, scripted read/"
             "inotify_add_watch, every struct malloc'ed and freed at unregister under ASan) through the model; 1 case in 20 runs on the real kernel inotify; "
             "an implementation-only oracle yields the failing input.",
        note="Trusted: Lean kernel; standard axioms; harness; kernel contract (whole records, len fields valid); AVL layer verified separately (C16); valid use "
             "(unregister only registered things, a dropped watch is not unregistered again).",
        technique="Lean 4 invariant + trace-specification proofs over all buffers and reaction programs + log-replay correspondence",
        design="§7 C20")

if os.path.exists(os.path.join(HERE, "lean", "Ivy", "L3", "PopenProofs.lean")):
    CLAIMED["C19"] = dict(
        text="Lean 4 theorems (Ivy/Props/C19.lean, 17) over a model of iv_popen.c: the running-child record (attached/detached, timer, kill count, wait "
             "interest through its interface) x the child's fate as environment, and an abstract descriptor table for the child/parent wiring. For every "
             "reachable state (every action sequence = every fate and timing): no fault (no use of the freed record, no double (un)registration); after close "
             "the signals are TERM for the first MAX_SIGTERM_COUNT firings then KILL, SIGNAL_INTERVAL apart, the first at once (constants regenerated from the "
             "source and pinned by a theorem); no kill() after the terminal status was collected; the record is freed exactly once and holds no loop object then; "
             "a fair loop releases everything within 7 rounds; child 0/1/2 wiring for 'r' and 'w' and the failure paths leave no descriptor behind. Tied to the "
             "current iv_popen.c by replaying logs of the real file under the deterministic scheduler with virtual children/time (white-box include; the child "
             "side runs against a virtual descriptor table), plus a real-kernel smoke run.",
        note="Trusted: Lean kernel; standard axioms; the T-sched engine and mt_popen extension; iv_wait used through its interface (C11); kernel contract (kill on an "
             "unreaped child succeeds, SIGKILL ends it, pipe/open return unused descriptors); valid use incl. descriptors 0/1/2 open at submit (witness of what "
             "happens otherwise: corpus/C19/f1-stdin-closed-in-parent.scn); malloc/open failure not modelled.",
        technique="Lean 4 reachability invariant over all action sequences + log-replay correspondence under a deterministic scheduler",
        design="§7 C19")

if os.path.exists(os.path.join(HERE, "lean", "Ivy", "L2", "RawProofs.lean")):
    CLAIMED["C09"] = dict(
        text="Lean 4 theorems (Ivy/Props/C09.lean, 13) over an LTS of one iv_event_raw object: the kernel object in both representations (eventfd counter / "
             "pipe with capacity), O_NONBLOCK tracked per description, the eventfd2->eventfd->pipe latch, any number of posters (threads, signal handlers, a "
             "forked child), the owner's drain-then-handler dispatch, kernel answers (ok/EAGAIN/EINTR) as part of the action. For every kernel configuration and "
             "every reachable state: no lost post (a blocked owner with an unreadable descriptor means every completed post was followed by a handler entry "
             "strictly after its write), posting never blocks (O_NONBLOCK on every description written), the owner's read never blocks, iv_fatal unreachable, "
             "readable <=> an accepted write is undrained, handler entries <= accepted writes, and both representations refine one abstract one-bit machine. "
             "Tied to the code by replaying T-sched logs (3 transports x 4 poll methods, posts from threads, virtual signal handlers, a child stand-in, bursts "
             "beyond the pipe capacity, scheduling points between drain and handler) through the LTS; implementation-only oracle for lost posts/blocking writes.",
        note="Trusted: Lean kernel; standard axioms; T-sched engine + mt_raw extension (two trampolines); kernel contract for eventfd/pipe; LoopSpec (a readable registered "
             "descriptor with an in-handler is dispatched before the loop blocks) assumed here and provided in spirit by C02/C03; real cross-process posting and "
             "true asynchronous signal context are outside the model (signal handlers run at scheduling points; the child is a thread with only the write fd).",
        technique="Lean 4 LTS invariant proof over all interleavings and kernel configurations + deterministic-schedule log replay",
        design="§7 C09")
if os.path.exists(os.path.join(HERE, "lean", "Ivy", "L2", "SignalProofs.lean")):
    CLAIMED["C10"] = dict(
        text="Lean 4 theorems (Ivy/Props/C10.lean, 15) over an LTS of iv_signal.c: per-thread and process-wide interest sets ordered by the C comparator, "
             "find_first/walk, `active`, per-signal counts and dispositions, owner pid, raw-event writes as separate actions, register/unregister with the "
             "hand-off, fork. For every history and interleaving: the invariant; fan-out = exactly the documented rule (thread's own interests first: first "
             "exclusive else all; else the process-wide set under the lock); a delivery during a running handler re-arms it; a delivery noted for an exclusive "
             "interest that is unregistered first is handed to what a fresh delivery would reach (thread's remaining interests, else process-wide — the repaired "
             "D7); disposition is default iff no interest is registered; a forked child posts nothing. Tied to the code by replaying T-sched logs (virtual signals "
             "delivered at scheduling points of chosen threads, white-box `active` snapshots under sig_lock) through the LTS; grant-based implementation oracle.",
        note="Trusted: Lean kernel; standard axioms; T-sched engine + mt_sig extension; raw-event layer abstract (C09); AVL as sorted list (C16); signals arrive only at "
             "scheduling points, kernel coalescing of pending signals not modelled; fork is virtual (getpid switches); progress of pending writes is fairness, not proved.",
        technique="Lean 4 LTS invariant + decision-logic theorems over all interleavings + deterministic-schedule log replay",
        design="§7 C10")

if os.path.exists(os.path.join(HERE, "lean", "Ivy", "L2", "EventProofs.lean")):
    CLAIMED["C08"] = dict(
        text="Lean 4 theorems (Ivy/Props/C08.lean, 15) over an LTS of iv_event per owner thread, at critical-section granularity: pending list under the owner's "
             "mutex, the owner's stolen batch and pc, the wake sources (epoll one-shot kick / raw-event counter / local task), any number of poster threads each in "
             "{outside, inCs, afterCs}. For every interleaving, any number of posters and events, both transports: the invariant WakeOwed (pending non-empty => a "
             "transport-correct kick is pending, or the local task, or a poster is between its critical section and its kick, or the owner is woken), no lost post "
             "(owner idle/blocked with no wake source and no kick in flight => nothing pending, nothing owed), every post in a trace ending quiescent is followed by a "
             "handler start of that event or its unregister, deliveries(e)+queued(e) <= posts(e), each handler start justified by a post since the previous start, "
             "handler only in the owner. Tied to the code by replaying T-sched logs through the LTS, comparing after every critical section the white-box pending "
             "list, the task flag, the kernel's one-shot bit (fdinfo) and the eventfd count; implementation-only oracle (lost post at quiescence, wrong thread, "
             "over-delivery, handler after unregister).",
        note="Trusted: Lean kernel; standard axioms; T-sched engine + mt_c08 extension; kernel contract for the one-shot kick and raw fd; iv_main runs a registered task "
             "before blocking (C06); valid use (no unregister while another thread is inside a post of that event); liveness in the safety form above.",
        technique="Lean 4 LTS invariant proof over all interleavings + deterministic-schedule log replay with white-box snapshots",
        design="§7 C08")
if os.path.exists(os.path.join(HERE, "lean", "Ivy", "L3", "WaitProofs.lean")):
    CLAIMED["C11"] = dict(
        text="Lean 4 theorems (Ivy/Props/C11.lean, 17) over an LTS of iv_wait.c: the pid-keyed interest set under iv_wait_lock, per-interest queue and dead flag, the "
             "SIGCHLD reap loop (one wait4 result per action, post as a separate action), completion steal/deliver, register / register_spawn (fork+insert in one "
             "critical section) / unregister / kill, virtual children with pid reuse. For every reachable state: a reaped status goes to the interest registered for "
             "that pid and to no other; queued = the child's reaped history since insertion; delivered statuses are a prefix of it, in order, in the owner thread; only "
             "the last can be terminal and then the interest is out of the set (also under pid reuse); a spawned child is never missed; reaping a stranger changes "
             "nothing (the repaired D1, with the pre-repair body proved to fault exactly there); kill() is issued only while the dead flag is clear, i.e. never after "
             "the termination was reaped. Tied to the code by T-sched log replay with per-interest snapshots under the lock; implementation-only oracle.",
        note="Trusted: Lean kernel; standard axioms; T-sched engine + mt_proc/mt_wait; virtual kernel contract for wait4/SIGCHLD/pid reuse; iv_event reduced to one owed "
             "bit (C08), signal routing abstract (C10), AVL as association list (C16); valid use (one interest per pid, kill/unregister from the owner).",
        technique="Lean 4 LTS invariant proof over all interleavings and histories + deterministic-schedule log replay",
        design="§7 C11")
if os.path.exists(os.path.join(HERE, "lean", "Ivy", "L3", "WorkProofs.lean")):
    CLAIMED["C12"] = dict(
        text="Lean 4 theorems (Ivy/Props/C12.lean, 13) over an LTS of iv_work.c (18 actions = its critical sections and handler entries; owed flags for pool->ev, "
             "thread_needed and each worker's kick; one pc per worker and for the owner). For every interleaving, any max_threads >= 1 and any submission program "
             "(owner submissions, continuations from workers): each item moves queued -> running in a worker != owner -> done -> completed in the owner, each stage "
             "exactly once; running <= started <= max_threads; WorkOwed (queued work => a worker is inside got_event, or has its kick owed, or a thread is starting, or "
             "thread_needed is owed) hence no quiescent state with an incomplete item; iv_fatal unreachable; NULL pool: work then completion once, in order, in the "
             "submitter. Tied to the code by T-sched log replay with a white-box snapshot of the private pool struct at every release of the pool lock (struct copy "
             "token-checked against the source on every run), virtual time across the 10 s idle timeout; implementation-only oracle.",
        note="Trusted: Lean kernel; standard axioms; T-sched engine + mt_work; iv_event as an owed-delivery primitive (C08); timers fire once (C04); pthread_create "
             "succeeds (witness of what happens otherwise: corpus/C12/thread-create-fails.scn); < 2^31 outstanding items; valid use (no submission after put).",
        technique="Lean 4 LTS invariant proof over all interleavings + deterministic-schedule log replay with white-box snapshots",
        design="§7 C12")
    CLAIMED["C13"] = dict(
        text="Lean 4 theorems (Ivy/Props/C13.lean, 10) over the same LTS plus a thread-lifetime machine: put clears the handle at once and cancels nothing; at quiescence "
             "after put all items are completed, all workers joined, the pool freed and its loop objects released; thread_start/thread_stop paired exactly once per "
             "worker; the pool's two events are unregistered only with started = 0, done = [], queue = []; iv_thread: the `dead` event is registered from create until "
             "the join for every exit mode (return, pthread_exit, with/without iv_deinit). One genuine defect is recorded, not repaired (KNOWN-FINDING, theorem "
             "finding_creator_deinit_uaf): the creator de-initialising its loop while a created thread is alive; the positive thread theorems are stated for runs in "
             "which the creator stays in its loop. Tie and oracle as for C12, plus `put` injected at setup/completions/idle points and spawns in each exit mode.",
        note="Trusted: as C12; TLS destructors run at thread exit; joining an exited thread returns; iv_thread modelled one thread at a time.",
        technique="Lean 4 LTS invariant proof over all interleavings + deterministic-schedule log replay",
        design="§7 C13")
if os.path.exists(os.path.join(HERE, "lean", "Ivy", "L2", "Lockset.lean")):
    CLAIMED["C14"] = dict(
        text="Three parts. (a) Generic Lean 4 theorem lockset_sound (+ fork/join/message variants): in any well-formed trace, two accesses that hold a common lock are "
             "ordered by happens-before — no bound on length, threads or locks. (b) A table of every access to shared state in the cross-thread files (535 rows, 140 "
             "locations: file, function, struct.field or global, read/write/atomic, locks held, owner/foreign context) REGENERATED from the current source on every "
             "run by a flow-sensitive walk of the clang AST. (c) A policy mapping each location to a discipline (lockedBy, ownerOnly, ownerWritesLocked, "
             "immutableAfterPublication, guardedPublish, signalSafe, atomicOnly, oneWayFlag) and the theorem accesses_comply (decide +kernel over the table) and "
             "C14_drf: any two conflicting accesses admitted by the table are happens-before ordered, or both atomic, or a listed one-way flag, or under a listed "
             "exemption. Validation and search: six free-running multi-threaded programs under ThreadSanitizer (events, raw events, work pool, thread churn, signals, "
             "children) on two method families; any report in /repo/src not on an exempt flag is a violation with replay = program+seed.",
        note="Trusted: Lean kernel (axioms propext, Quot.sound); the extractor's aliasing/context classification and lock naming (documented in gen/gen_access.py); the listed "
             "exemptions (init before publication, tear-down after unpublication, stolen lists, refcount-guarded reads); assumption: the first iv_init of the process "
             "completes before other threads enter the library; TSan evidence is sampled over the schedules that ran. Stated as partial for that reason.",
        technique="Lean 4 lockset theorem + decide over an access table regenerated from the source (clang AST) + ThreadSanitizer search",
        design="§7 C14")

# post-build additions to the claims (extensions that landed after the first version of each check)
_TABLES = (" Finite-domain helper functions of the C code used by this property are EXECUTED on their whole domain by an extractor rebuilt from /repo on every "
           "run; their value tables are regenerated as Lean data and proved equal to the model's definitions (Ivy.L1.TablesAgree, re-exported in the Props file), "
           "so a change to one of them breaks a proof obligation.")
for _id, _extra in (("C02", _TABLES), ("C03", _TABLES), ("C04", _TABLES), ("C10", _TABLES), ("C15", _TABLES)):
    if _id in CLAIMED and os.path.exists(os.path.join(HERE, "lean", "Ivy", "L1", "TablesAgree.lean")):
        CLAIMED[_id]["text"] += _extra
if "C05" in CLAIMED and os.path.exists(os.path.join(HERE, "lean", "Ivy", "Props", "C05rat.lean")):
    CLAIMED["C05"]["text"] += (" Extension (Ivy/Props/C05rat.lean, 11 theorems): a pointer-free structural model of the radix tree itself (lazy allocation, one-level growth, "
                               "digit descent, remove_level with its break-at-first-NULL loops, deinit) is proved to refine the flat array for every bits >= 1, depth and index, "
                               "for any history of register/unregister/run_timers, and not to leak across shrink/regrowth (with the seeded 'only child[1] freed' bug as a counter-model).")
if "C07" in CLAIMED and os.path.exists(os.path.join(HERE, "lean", "Ivy", "Props", "C07progress.lean")):
    CLAIMED["C07"]["text"] += (" Extension (Ivy/Props/C07progress.lean): under the full kernel contract (reported bits within the requested mask, one-shot kick only when armed, "
                               "kernel timer only when armed, reported raw descriptors readable) every non-empty wake-up is followed, before the next wait, by a callback or by the "
                               "consumption of a kick / kernel timer / raw read (wake_progress); the source-aware idle oracle used on implementation logs is proved sound (idle_free); "
                               "the first-draft spin oracle is proved to admit a false positive (stale kick + stale kernel timer) and sound under an explicit hypothesis.")

def _has(name):
    return os.path.exists(os.path.join(HERE, "lean", "Ivy", "Props", name + ".lean"))
if "C16" in CLAIMED and _has("C16ptr"):
    CLAIMED["C16"]["text"] += (" Extension (Ivy/Props/C16ptr.lean, 14 theorems): a pointer-level model (heap of nodes with parent/left/right/height; find_reference, the four "
                               "rotations, rebalance_path with its early stop, insert, the three delete cases, min/max/next/prev transcribed statement by statement) is proved to "
                               "refine the functional model (insert_refines, delete_refines: memory outside the tree untouched, parent pointers consistent) and min+next / max+prev "
                               "are proved to visit exactly the ordered contents and to terminate; the pointer model runs on every differential case too, and the harness cuts "
                               "non-terminating traversals.")
    CLAIMED["C16"]["note"] = CLAIMED["C16"]["note"].replace("parent pointers checked at run time only", "the transcription of iv_avl.c into Ivy/L0/AvlPtr.lean (tied by the differential run); uint8_t height as Nat")
if "C17" in CLAIMED and os.path.exists(os.path.join(HERE, "lean", "Ivy", "L3", "PumpCache.lean")):
    CLAIMED["C17"]["text"] += (" Extension (6 more theorems): the per-thread buffer cache (buf_get/buf_put, LIFO, MAX_CACHED_BUFS from the source, a pipe that holds bytes is closed, "
                               "not cached) and several concurrently live pumps are modelled as a thread machine in which stale buffer content, if any existed, would really flow "
                               "to the sink; proved for every op sequence: cached buffers are empty and bounded (cache_clean), an acquired buffer is empty (acquire_empty), every "
                               "live pump keeps the stream invariant also after other pumps died with data buffered (pump_isolation, thread_stream), buffers are neither leaked nor "
                               "double-freed (no_buffer_leak, deinit_no_leak). The harness runs up to 32 pumps on one thread with per-pipe virtual content and exact accounting.")
if "C18" in CLAIMED and _has("C18tls"):
    CLAIMED["C18"]["text"] += (" Extensions: (Ivy/Props/C18tls.lean, 6 theorems) the iv_tls registry: for every sequence of module registrations each module's region is inside the "
                               "block iv_init allocates, above struct iv_state, aligned and disjoint from all others, every init/deinit hook is called once per thread in "
                               "registration order, registration is frozen after the first init; differential run of iv_tls.c (white-box) + layout oracle. The descriptor-flag oracle "
                               "covers every family and descriptor kind (sockets, pipe ends). The scenario families of C08/C10/C11/C19 are re-run under the deterministic scheduler "
                               "with LeakSanitizer: no library allocation may be unreachable when a run ends or can go no further.")
if "C15" in CLAIMED:
    CLAIMED["C15"]["text"] += (" The scenario programs of C09 are run in the three iv_event_raw transports (eventfd2 / old eventfd / pipe fallback) x four methods with C09's oracle as part "
                               "of this check (missing-facility clause).")
for _id in ("C01", "C02", "C03"):
    if _id in CLAIMED:
        CLAIMED[_id]["text"] += (" Besides the random families an ENUMERATED family (264 scenarios every run) covers same-iteration retraction: the handler dispatched first "
                                 "(descriptor, cross-thread iv_event, iv_event_raw) clears/unregisters/frees/recycles/re-registers another source already collected in that "
                                 "iteration, both arrival orders, all four methods, plus failed-then-successful registration of the same struct.")
if "C06" in CLAIMED and _has("C06list"):
    CLAIMED["C06"]["text"] += (" Extensions: (Ivy/Props/C06list.lean, 21 theorems) the intrusive circular list the task queue and every other queue of the library is "
                               "built from (iv_list.h, __iv_list_steal_elements) is modelled at pointer level (heap of next/prev records, statement-by-statement "
                               "transcription) and proved to refine Lean lists with exact frames and separation: add/add_tail/del/del_init from anywhere, the four "
                               "splices (and that a non-_init splice leaves the source head stale), steal, for_each and for_each_safe with deletion of the current element; "
                               "differential run of the real inline functions on random op files with an independent ring oracle. The servicing clause is judged with the "
                               "monitors of C04/C02/C03 on an enumerated 'starve' family (task rings keeping a deferred task pending while a timer, a descriptor and a "
                               "cross-thread event become due; 4 methods).")
for _id in ("C08", "C09", "C10", "C11", "C12", "C13", "C19"):
    if _id in CLAIMED and os.path.exists(os.path.join(HERE, "vlib", "sched.py")):
        CLAIMED[_id]["text"] += (" Besides PRNG-chosen interleavings the deterministic scheduler enumerates systematically (vlib/sched.py), for a few small multi-thread "
                                 "base scenarios, every schedule within a preemption bound of the non-preemptive run (quick: bound 1; thorough: bound 2), each executed on "
                                 "the real library and replayed through the model.")
if "C01" in CLAIMED:
    CLAIMED["C01"]["text"] += (" For the object kinds outside the loop machine (signal interests, child-wait interests, inotify watches/instances) this check also runs the "
                               "scenario families of C10, C11 and C20 and reports the after-unregister / use-after-free part of their oracles.")
for _id in ("C04", "C07", "C15"):
    if _id in CLAIMED:
        CLAIMED[_id]["text"] += (" An enumerated family (140 scenarios every run) drives the timer-descriptor state machine: k = 2..8 consecutive wake-ups with an unchanged "
                                 "deadline (below/at/above the arming threshold), then a handler adds an earlier/later timer or (un/re)registers the pending one; 4 methods.")

if "C07" in CLAIMED and _has("C07tmo"):
    CLAIMED["C07"]["text"] += (" Extension (Ivy/Props/C07tmo.lean, 9 theorems): the timeout clause of 'every wake-up makes progress'. The oracle Mon.C07.tmoCapVerdict (a sleep "
                               "that ran out is followed by a callback before the next wait; at most two consecutive empty zero-timeout polls) is proved to accept every trace "
                               "of the machine that keeps an explicit timeout contract (tmo_cap_sound); the contract is evaluated on every replayed log (ENVBAD if the harness "
                               "breaks it); the proof found and the oracle excludes the 24 h cap of to_msec (day_cap_rejected), and shows the tolerance of two to be exact.")
if "C08" in CLAIMED and _has("C08loop"):
    CLAIMED["C08"]["text"] += (" Extension (Ivy/Props/C08loop.lean): the owner's side of iv_event inside ONE loop is also stated on the L1 loop machine (Mon.C08: no blocking wait "
                               "with a posted event undelivered and no wake-up outstanding) and proved for every trace; run on every loop log, incl. the enumerated families "
                               "(kick in the same batch as the expired timer descriptor, iv_quit from an event handler inside a batch).")
for _id in ("C01", "C02", "C03", "C06", "C07", "C15"):
    if _id in CLAIMED:
        CLAIMED[_id]["text"] += (" Further enumerated families (every run): iv_quit from a handler while other descriptors / tasks / events of the same iteration are "
                                 "undelivered and iv_main re-entered; descriptors whose only handler is the error handler; failed iv_fd_register_try followed by release of "
                                 "the object and table compaction; interrupted registration probes.")
for _id in ("C08", "C09", "C10", "C11", "C12", "C13", "C18", "C19"):
    if _id in CLAIMED:
        CLAIMED[_id]["text"] += (" Every block the library mallocs comes back filled with a per-scenario byte pattern and application objects are garbage-filled before "
                                 "IV_*_INIT, so a field the library forgets to initialise is read as garbage deterministically.")
if "C20" in CLAIMED:
    CLAIMED["C20"]["text"] += (" Instances of different threads: the ThreadSanitizer program tsan_inotify (one instance per loop thread, concurrent bursts) is part of this check; "
                               "any data race in iv_inotify.c is a violation.")
if "C18" in CLAIMED:
    CLAIMED["C18"]["text"] += (" iv_fd_pump's buffers and pipe descriptors: C17's pump programs (incl. a failing splice probe) are run here and the resource-accounting part of "
                               "C17's oracle is reported.")

if "C06" in CLAIMED:
    CLAIMED["C06"]["text"] += (" Several loops in one process: an enumerated 'threads' family on the multi-thread scheduler harness (another thread's loop goes round while a "
                               "task handler that will re-register runs; seed-chosen and systematically enumerated schedules) is judged by the rule that no task runs twice "
                               "in one thread without that thread's kernel poll in between.")
if "C09" in CLAIMED:
    CLAIMED["C09"]["text"] += (" Enumerated 'regorder' family: every order (up to renaming) of five register/unregister toggles on three raw events, before iv_main or from a "
                               "timer handler, under all four poll methods; a post whose write completed and is followed by ten completed kernel polls of the owner "
                               "without the handler counts as lost.")
if "C05" in CLAIMED:
    CLAIMED["C05"]["text"] += (" Enumerated 'victims' cases: with the k-th timer in heap slot k, exactly the timer of a chosen slot (1, 2, 63-65, 126-130, last) is unregistered "
                               "for populations around both radix boundaries (128, 16384).")
if "C16" in CLAIMED:
    CLAIMED["C16"]["text"] += (" Deep trees: Fibonacci trees of height 17-21 and 'spine' shapes (a path of h nodes with Fibonacci siblings) give retraces over every level "
                               "of trees 16-21 levels deep.")
if "C19" in CLAIMED:
    CLAIMED["C19"]["text"] += (" Enumerated kill/reap races: another thread ends and reaps the child at the instant of the k-th signal, both placements of the threads, every "
                               "schedule within the preemption bound.")

if "C15" in CLAIMED and _has("C15poll") and _has("C15epoll"):
    CLAIMED["C15"]["text"] += (" Extensions: the back ends' own bookkeeping is modelled statement by statement. Ivy/Props/C15poll.lean (26 theorems; iv_fd_poll.c: dense "
                               "pollfd array, swap-remove, slot numbers, revents->bands): for every op sequence the polled array is a permutation of the abstract poll set "
                               "{(fd, mask(wanted))}, no object in two slots, frames, no mis-attribution of revents. Ivy/Props/C15epoll.lean (25 theorems; iv_fd_epoll.c: "
                               "deferred notify list, ADD/MOD/DEL choice, unregister flush, batch dispatch): the library's belief equals the kernel's interest list, "
                               "every epoll_ctl it issues succeeds except the probing ADD of register_try, after flush_pending the kernel watches exactly that same poll "
                               "set (both back ends present the same set to the kernel), minimality, negative theorems for mutants. Assumed: epoll_ctl's "
                               "EEXIST/ENOENT/EBADF semantics. Tie: differential runs of the real code (harness/fdpoll_h.c, fdepoll_h.c; random + enumerated op files) "
                               "against `ivyreplay fdpoll|fdepoll`, with an independent reference for replays. Also enumerated: one descriptor number offered to two "
                               "iv_fd objects (accepted by poll/ppoll, refused by the epoll methods; the first keeps being served).")

if "C04" in CLAIMED and _has("C04time"):
    CLAIMED["C04"]["text"] += (" Extension (Ivy/Props/C04time.lean, 58 theorems): the loop's time arithmetic modelled statement by statement (timespec_gt, to_relative, "
                               "to_msec, the cached clock, the timer descriptor's arm value): to_msec is the least millisecond count >= the remaining time (never early, "
                               "< 1 ms late, in [-1, 86400000]), to_relative = max 0 (abs - now) without 64-bit overflow for |sec| < 2^62, the ms and ns wait primitives "
                               "agree up to rounding, a sleep of the returned length makes the timer due, the clock is read at most once per invalidation; tied by a "
                               "differential run of the real inline functions (harness/timearith_h.c) with an exact-integer reference.")

NOT_YET = "check not built yet in this round; planned per DESIGN.md §7 (Lean model + theorems + correspondence)"

checks = []
for pid in ALL:
    if pid in CLAIMED:
        c = CLAIMED[pid]
        checks.append({
            "property_id": pid,
            "quick_cmd": f"./check.py {pid} --tier quick",
            "thorough_cmd": f"./check.py {pid} --tier thorough",
            "evidence_file": f"/verif/evidence/{pid}.json",
            "replay_cmd_template": "./check.py replay {path}",
            "engine": "lean4-proof+correspondence",
            "level_claimed": {"category": "proof", "text": c["text"], "design_ref": c["design"]},
            "level_note": c["note"],
            "technique": c["technique"],
        })
manifest = {
    "version": 1,
    "setup_cmd": "./setup.sh",
    "hooks": {"guard": "IVYKIS_VERIF", "enable": "none needed: the library is compiled unmodified from /repo's working tree and interposed at link time / by white-box inclusion",
              "baseline_off_cmd": "make -C /repo && make -C /repo/test check", "source_commits": [], "add_only": True},
    "engines": [{"name": "lean4-proof+correspondence", "path": "/verif/check.py", "serves_properties": sorted(CLAIMED),
                 "kind_free_text": "Lean 4 theorems over hand-written executable models; models tied to /repo by differential / log-replay correspondence and regenerated constants"}],
    "checks": checks,
    "notes": "See DESIGN.md. Evidence is rewritten by every run of check.py.",
    "not_applicable": [{"property_id": pid, "reason": NOT_YET} for pid in ALL if pid not in CLAIMED],
}
json.dump(manifest, open(os.path.join(HERE, "MANIFEST.json"), "w"), indent=1)
print("claimed:", sorted(CLAIMED))
