#!/usr/bin/env python3
"""T-gen for C14: extract the table of shared-memory accesses with the locks held at each access
from the CURRENT ivykis source tree and emit it as Lean data (Ivy/Generated/AccessTable.lean).

    generate(repo, outdir) -> dict of facts        (hook for gen/gen_all.py; cached by content hash)
    python3 gen/gen_access.py [repo] [outdir]      (stand-alone; prints the rows)

How it works
------------
Every translation unit in FILES is dumped with `clang -Xclang -ast-dump=json -fsyntax-only` and every
function DEFINED in that .c file is walked in source order with a flow-sensitive set of held locks.
Functions with a body that are called directly (static helpers of the same file and the `static inline`
helpers of mutex.h / spinlock.h / pthr.h / iv_private.h / iv_event_private.h / eventfd-linux.h / iv.h ...)
are walked again AT EVERY CALL SITE with the caller's lock set and with pointer parameters bound to the
caller's arguments (call-site sensitive, depth <= 8).  A static function that is only ever called directly is
not walked on its own; everything else defined in the .c file (external functions, callbacks whose address is
taken, constructors) is a root and is walked with the lock set ROOT_LOCKS.get(name, {}).

Lock tracking (flow sensitive)
  * `___mutex_lock(&X)` / `___mutex_unlock(&X)`, `spin_lock(&X)` / `spin_unlock(&X)` add / remove lock(X);
    `spin_lock_sigmask` / `spin_unlock_sigmask` add / remove lock(X) AND the pseudo lock `sigmask`;
    `pthr_sigmask(SIG_BLOCK, ..)` adds `sigmask`, `pthr_sigmask(SIG_SETMASK, ..)` removes it.
    `sigmask` means "every signal is blocked in the calling thread" (also true inside the signal handler,
    which is installed with a full sa_mask): it excludes the handler of THIS thread, not other threads.
  * if/else: each branch starts from a copy; the state after the statement is the INTERSECTION of the states
    of the branches that can fall through.  A branch that ends in return / break / continue / goto /
    iv_fatal() / exit() / abort() does not fall through.  Loops: the body is re-walked until the state at the
    loop head is stable (intersection with the back edge); the state after the loop is the intersection of the
    condition-false exit (not for `while (1)`) and all `break` states.  goto: the state is merged at the label.
  * `if (pthreads_available()) A [else B]` / `if (pthread_spinlocks_available()) ...` (pthr.h, spinlock.h): B, or the
    code after an `A` that returns, runs only when libpthread is not linked in, i.e. in a process that cannot have a
    second thread: those rows carry the pseudo lock `nothreads` and comply with every discipline.
  * roots start with ROOT_LOCKS[name] (the signal handler runs with every signal blocked: {sigmask}; the atfork parent /
    child handlers run with what the prepare handler took: {sig_lock, sigmask}).  An avl comparison callback (two
    `const struct iv_avl_node *` parameters) runs inside iv_avl_tree_insert/delete: it starts with the intersection of
    the lock sets of all such call sites of its file.  `pthr_once`, `___mutex_init/destroy`, `spin_init` are
    synchronisation-object operations: not walked, no rows.
  * canonical lock names: `&G` -> `G`;  `&p->event_list_mutex` for any `struct iv_state *p` ->
    `event_list_mutex(owner)` (TRUSTED: in iv_event.c the state whose mutex is taken is always the state that
    owns the event / pending list being accessed: `this->owner`, or the running thread's own state for its own
    pending list);  `&p->f` for another record -> `<LOCK_BASE[record]>->f` (work_pool_priv -> `pool->lock`).

What is an access (a row)
  (i)  every read / write of a variable with static storage that is not const and not declared in a system
       header (location = its name; for header-defined statics such as `eventfd_in_use` one per TU);
  (ii) every read / write of a field reached through a pointer (or through a global): the location is
       `<record>.<field path>` where <record> is the INNERMOST record of the member chain that is defined by
       ivykis and is not a container (struct iv_list_head / iv_avl_node / iv_avl_tree), e.g. `thr->kick.cookie`
       is `iv_event.cookie`, `st->u.epoll.epoll_fd` is `iv_state.u.epoll.epoll_fd`, `this->list.next` is
       `iv_event.list`; the path stops at the first field whose type is a container or a system record
       (`thr->idle_timer.expires.tv_sec` is `iv_timer.expires`).  Locals and parameters themselves are private.
  (iii) containers: the inline list / avl primitives are NOT walked but summarised:
       iv_list_empty(h): read h; INIT_IV_LIST_HEAD(h): write h; iv_list_add[_tail](n, h): write n, write h;
       iv_list_del[_init](n): write n (its neighbours belong to the same class or to the head protected by the
       same lock -- TRUSTED); __iv_list_steal_elements(o, n) and iv_list_splice*(a, b): write both;
       iv_avl_tree_insert/delete(t, n): write t, write n; iv_avl_tree_next/prev/min/max/empty: read;
       INIT_IV_AVL_TREE(t, cmp): write t.
       A local pointer to a container node (`struct iv_list_head *ilh`, `struct iv_avl_node *an`) or a pointer
       parameter is BOUND to the set of locations it was loaded from / called with, and an access through it
       is an access to those locations (`tree->root`, `iter->left` in iv_signal.c; `ilh->next` in
       iv_list_for_each).  A local list head that received `__iv_list_steal_elements` is a STOLEN list: element
       pointers obtained from it, and accesses through them, are tagged priv (thread-private detached list).
  (iv) `&field` passed to a function without a body in the TU: if the field's type is an ivykis object type
       (iv_event, iv_event_raw, iv_task, iv_timer, iv_fd, iv_signal, ...) nothing is recorded here -- the
       callee's accesses are recorded under that type's name in its own TU; otherwise (timespec, pthread_t,
       key, sigset, int, ...) a read is recorded when the parameter points to const, else a write.
  (v)  `__atomic_load_n(&X, ..)` / `__atomic_store_n(&X, v, ..)` (and the read-modify-write builtins) are recorded as
       read / write (both) of X with the flag atomic = true; every other access is a plain access.
  Not recorded: the lock objects themselves; const-qualified objects; calls through function pointers are a
  read of the pointer field.  Expressions the walker cannot classify are listed in facts["unclassified"].

Context classification (TRUSTED; this is the aliasing assumption of C14_drf)
  ctx = owner   the accessed object is owned by the calling thread (its own loop state / TLS block / an object
                it registered), ctx = foreign otherwise (another thread's object, or a global).
  * global variables: foreign.
  * `struct iv_state` reached through pointer p: owner iff p was initialised from `iv_get_state()`, or the
    function is not in FOREIGN_STATE_FNS and p is not named `dst` / `dest` (ivykis convention: `st`, `me`, `_st`
    are always the running thread's state -- iv_event_unregister's `st = this->owner` is the caller's state
    because objects are unregistered by their owner); in FOREIGN_STATE_FNS (the cross-thread post paths
    iv_event_post, iv_fd_epoll_event_send and friends) only an `iv_get_state()` pointer is owner.
  * per-thread TLS blocks (`*_thr_info`): owner (only reachable through iv_tls_user_ptr() of the running thread
    or the init/deinit callbacks).
  * every other record: foreign iff (record, function) is in FOREIGN_CTX -- the functions that by design run in
    a thread other than the object's owner: iv_event_post, iv_event_raw_post (any thread); the pool-thread
    functions of iv_work.c for work_pool_priv and the owner-side functions for work_pool_thread;
    iv_work_submit_pool (continuations come from pool threads); the signal handler path for process-wide
    interests; iv_wait_got_sigchld / __iv_wait_interest_find / iv_wait_interest_kill (whichever thread reaps);
    iv_thread_handler / iv_thread_destructor (the child) -- else owner.
  * iv_signal fields are split by variant: `@thread` (IV_SIGNAL_FLAG_THIS_THREAD interests, living in the
    thread's own tree `thr_sigs`) and `@process` (tree `process_sigs`).  The variant is taken from an enclosing
    `if (x->flags & IV_SIGNAL_FLAG_THIS_THREAD)` or from the tree the walked helper was called with; when
    unknown BOTH rows are emitted.
  entry = the function is (or is walked under) a cross-thread / signal-handler entry point (ENTRY_POINTS).
"""
import hashlib, json, os, re, subprocess, sys
from concurrent.futures import ThreadPoolExecutor

FILES = ["iv_event.c", "iv_event_raw_posix.c", "iv_work.c", "iv_signal.c", "iv_wait.c", "iv_fd_epoll.c",
         "iv_thread_posix.c", "iv_main_posix.c", "iv_tls.c", "iv_fd.c", "iv_time_posix.c", "iv_fd_pump.c"]

LOCK_FNS = {"___mutex_lock": (+1, False), "___mutex_unlock": (-1, False), "spin_lock": (+1, False), "spin_unlock": (-1, False),
            "spin_lock_sigmask": (+1, True), "spin_unlock_sigmask": (-1, True)}
LOCK_LIFECYCLE = {"___mutex_init", "___mutex_destroy", "spin_init", "pthr_once"}
NORETURN = {"iv_fatal", "exit", "_exit", "abort", "pthread_exit"}
CONTAINERS = {"iv_list_head", "iv_avl_node", "iv_avl_tree"}
LOCK_BASE = {"work_pool_priv": "pool"}
# primitive summaries: name -> list of (argument index, 'r'|'w')
PRIMS = {
    "iv_list_empty": [(0, "r")], "INIT_IV_LIST_HEAD": [(0, "w")],
    "iv_list_add": [(0, "w"), (1, "w")], "iv_list_add_tail": [(0, "w"), (1, "w")],
    "iv_list_del": [(0, "w")], "iv_list_del_init": [(0, "w")],
    "__iv_list_steal_elements": [(0, "w"), (1, "w")],
    "iv_list_splice": [(0, "w"), (1, "w")], "iv_list_splice_init": [(0, "w"), (1, "w")],
    "iv_list_splice_tail": [(0, "w"), (1, "w")], "iv_list_splice_tail_init": [(0, "w"), (1, "w")],
    "iv_avl_tree_insert": [(0, "w"), (1, "w")], "iv_avl_tree_delete": [(0, "w"), (1, "w")],
    "iv_avl_tree_next": [(0, "r")], "iv_avl_tree_prev": [(0, "r")],
    "iv_avl_tree_min": [(0, "r")], "iv_avl_tree_max": [(0, "r")], "iv_avl_tree_empty": [(0, "r")],
    "INIT_IV_AVL_TREE": [(0, "w")],
}
PRIM_RETURNS_ARG = {"iv_avl_tree_next": 0, "iv_avl_tree_prev": 0, "iv_avl_tree_min": 0, "iv_avl_tree_max": 0}
# ivykis object types whose address may be handed to another TU without recording an access here
HANDOFF = {"iv_event", "iv_event_raw", "iv_task", "iv_task_", "iv_timer", "iv_timer_", "iv_fd", "iv_fd_", "iv_signal",
           "iv_wait_interest", "iv_work_item", "iv_work_pool", "iv_tls_user", "iv_state", "iv_list_head", "iv_avl_node",
           "iv_avl_tree", "iv_fd_pump", "iv_popen_request", "iv_inotify", "iv_inotify_watch"}
ROOT_LOCKS = {"iv_signal_handler": {"sigmask"}, "iv_signal_parent": {"sig_lock", "sigmask"}, "iv_signal_child": {"sig_lock", "sigmask"}}
ENTRY_POINTS = {"iv_event_post", "iv_event_raw_post", "iv_work_pool_submit_continuation", "iv_work_pool_submit_work",
                "iv_signal_handler", "iv_wait_got_sigchld", "iv_wait_interest_kill", "iv_thread_handler", "iv_thread_destructor",
                "iv_fd_epoll_event_send", "iv_work_thread", "iv_work_thread_got_event", "iv_work_thread_idle_timeout"}
FOREIGN_STATE_FNS = {"iv_event_post", "iv_fd_epoll_event_send", "event_send", "iv_event_raw_post"}
WORKER_FNS = {"__iv_work_thread_die", "iv_work_thread_got_event", "iv_work_thread_idle_timeout", "iv_work_thread"}
POOL_OWNER_FNS = {"iv_work_event", "iv_work_thread_needed", "iv_work_pool_create", "iv_work_pool_put", "iv_work_start_thread"}
FOREIGN_CTX = (
    {("iv_event", "iv_event_post"), ("iv_event_raw", "iv_event_raw_post")}
    | {("work_pool_priv", f) for f in WORKER_FNS | {"iv_work_submit_pool"}}
    | {("work_pool_thread", f) for f in POOL_OWNER_FNS | {"iv_work_submit_pool"}}
    | {("iv_work_pool", "iv_work_submit_pool"), ("iv_work_item", "iv_work_submit_pool")}
    | {("iv_work_item", f) for f in WORKER_FNS}
    | {(r, f) for r in ("iv_wait_interest", "wait_event") for f in ("iv_wait_got_sigchld", "__iv_wait_interest_find", "iv_wait_interest_kill")}
    | {("iv_thread", "iv_thread_handler"), ("iv_thread", "iv_thread_destructor")}
)
VARIANT_FLAG = {("iv_signal", "flags", 2): ("thread", "process")}   # mask IV_SIGNAL_FLAG_THIS_THREAD
VARIANT_OF_TREE = {"iv_signal_thr_info.thr_sigs": "thread", "process_sigs": "process"}
VARIANT_RECORDS = {"iv_signal"}


def clang_ast(repo, src):
    cmd = ["clang", "-Xclang", "-ast-dump=json", "-fsyntax-only", "-D_GNU_SOURCE", "-DHAVE_CONFIG_H",
           f"-I{repo}", f"-I{repo}/src", f"-I{repo}/src/include", f"{repo}/src/{src}"]
    r = subprocess.run(cmd, stdout=subprocess.PIPE, stderr=subprocess.PIPE)
    if r.returncode != 0 or not r.stdout:
        raise RuntimeError(f"clang failed on {src}: {r.stderr.decode()[-400:]}")
    return json.loads(r.stdout)


def annotate_locs(root):
    """clang's JSON omits file/line when unchanged from the previously printed location: resolve them"""
    cur = {"file": None, "line": None}
    stack = [root]
    # iterative pre-order walk in key order
    def walk(o):
        if isinstance(o, dict):
            if "offset" in o:
                if "file" in o:
                    cur["file"] = o["file"]
                if "line" in o:
                    cur["line"] = o["line"]
                o["_f"] = cur["file"]
                o["_l"] = cur["line"]
            for k, v in o.items():
                if isinstance(v, (dict, list)):
                    walk(v)
        elif isinstance(o, list):
            for v in o:
                walk(v)
    sys.setrecursionlimit(max(sys.getrecursionlimit(), 20000))
    walk(root)


def node_pos(n):
    b = n.get("range", {}).get("begin", {})
    if "expansionLoc" in b:
        b = b["expansionLoc"]
    return b.get("_f"), b.get("_l")


def decl_pos(n):
    b = n.get("loc", {})
    if "expansionLoc" in b:
        b = b["expansionLoc"]
    if "_f" not in b:
        return node_pos(n)
    return b.get("_f"), b.get("_l")


def rec_of_type(qt):
    """record name of a (pointer to) struct/union type string, '' for anonymous, None when not a record"""
    if qt is None:
        return None
    t = qt.replace("const ", "").replace("volatile ", "").strip()
    t = re.sub(r"\s*\*+\s*(const)?$", "", t).strip()
    m = re.match(r"^(struct|union)\s+\((unnamed|anonymous)", t)
    if m:
        return ""
    m = re.match(r"^(struct|union)\s+(\w+)$", t)
    if m:
        return m.group(2)
    return None


def strip(e):
    while e.get("kind") in ("ParenExpr", "ImplicitCastExpr", "CStyleCastExpr", "ConstantExpr"):
        e = e["inner"][0]
    return e


class TU:
    def __init__(self, repo, src, ast, typedefs_extra=None):
        self.repo, self.src, self.ast = repo, src, ast
        self.main = f"{repo}/src/{src}"
        self.funcs = {}        # id -> node (with body)
        self.fname = {}        # id -> name
        self.fpos = {}         # id -> (file, line)
        self.globals = {}      # id -> (name, file, is_const)
        self.records = {}      # name -> file of definition
        self.typedefs = {}     # typedef name -> underlying qualType
        self.rows = {}         # key -> row
        self.unclassified = set()
        self.avl_site_locks = []
        self._src = {}
        self.collect()

    # ---------------------------------------------------------------- collection
    def collect(self):
        for n in self.ast.get("inner", []):
            k = n.get("kind")
            if k == "FunctionDecl":
                body = next((c for c in n.get("inner", []) if c.get("kind") == "CompoundStmt"), None)
                self.fname[n["id"]] = n.get("name")
                if body is not None:
                    self.funcs[n["id"]] = n
                    self.fpos[n["id"]] = decl_pos(n)
                    # a later definition supersedes the earlier prototype ids: map previousDecl chain
                    p = n.get("previousDecl")
                    if p:
                        self.funcs[p] = n
            elif k == "VarDecl":
                f, _ = decl_pos(n)
                qt = n.get("type", {}).get("qualType", "")
                self.globals[n["id"]] = (n.get("name"), f, qt.startswith("const ") and "*" not in qt or bool(re.match(r"^const [^*]*$", qt)))
                p = n.get("previousDecl")
                if p:
                    self.globals[p] = self.globals[n["id"]]
            elif k == "RecordDecl" and n.get("name") and n.get("completeDefinition"):
                f, _ = decl_pos(n)
                self.records[n["name"]] = f
            elif k == "TypedefDecl":
                self.typedefs[n.get("name")] = n.get("type", {}).get("qualType")
        # all FunctionDecl ids by name (prototypes and definitions) -> definition
        byname = {}
        for i, n in list(self.funcs.items()):
            byname[n["name"]] = n
        self.func_by_name = byname
        # references to functions other than as direct callee, and constructors
        self.addr_taken = set()
        self.called = set()
        self._scan_refs(self.ast, False)

    def _scan_refs(self, n, is_callee):
        if not isinstance(n, dict):
            return
        k = n.get("kind")
        if k == "DeclRefExpr" and n.get("referencedDecl", {}).get("kind") == "FunctionDecl":
            (self.called if is_callee else self.addr_taken).add(n["referencedDecl"].get("name"))
            return
        inner = n.get("inner", [])
        if k == "CallExpr" and inner:
            c = inner[0]
            cc = strip(c)
            self._scan_refs(cc, cc.get("kind") == "DeclRefExpr")
            for a in inner[1:]:
                self._scan_refs(a, False)
            return
        for c in inner:
            self._scan_refs(c, False)

    def source_text(self, f):
        if f not in self._src:
            self._src[f] = open(f, "rb").read().decode("latin1")
        return self._src[f]

    def ivykis_record(self, name):
        f = self.records.get(name)
        return bool(f) and f.startswith(self.repo + "/")

    # ---------------------------------------------------------------- roots
    def roots(self):
        out = []
        for i, n in self.funcs.items():
            if n["id"] != i:
                continue
            f, _ = self.fpos[i]
            if f != self.main:
                continue
            name = n["name"]
            static = n.get("storageClass") == "static"
            ctor = any(c.get("kind") == "ConstructorAttr" for c in n.get("inner", []))
            if static and not ctor and name in self.called and name not in self.addr_taken:
                continue
            out.append(n)
        return out

    # ---------------------------------------------------------------- rows
    def add_row(self, w, loc, rw, node, ctx, priv=False, rec="", atomic=False):
        f, l = node_pos(node)
        if f is None:
            f, l = w.pos_hint
        fn = w.fn_name
        ffile = os.path.basename(w.fn_file or self.main)
        row = dict(file=ffile, fn=fn, line=l or 0, rec=rec or "", loc=loc, rw=rw, locks=sorted(w.locks), ctx=ctx,
                   entry=bool(w.entry), priv=bool(priv), atomic=bool(atomic), root=w.root_name)
        key = (ffile, fn, l, loc, rw, tuple(row["locks"]), ctx, row["entry"], row["priv"], row["atomic"])
        self.rows.setdefault(key, row)


class Walker:
    """walks one function body in one calling context"""
    def __init__(self, tu, fn, locks, binds, root_name, entry, depth, stack, variant=None):
        self.tu, self.fn = tu, fn
        self.fn_name = fn["name"]
        self.fn_file = tu.fpos[fn["id"]][0] if fn["id"] in tu.fpos else tu.main
        self.pos_hint = tu.fpos.get(fn["id"], (tu.main, 0))
        self.locks = set(locks)
        self.binds = dict(binds)      # decl id -> {"locs": set(str), "priv": bool, "own_state": bool|None, "init": str}
        self.root_name = root_name
        self.entry = entry or self.fn_name in ENTRY_POINTS
        self.depth, self.stack = depth, stack
        self.variant = variant        # None | 'thread' | 'process'
        self.break_states = []
        self.goto_states = {}
        self.returns = []             # pointer targets of return expressions
        self.stolen_heads = set()     # decl ids of local list heads holding stolen elements

    # ------------------------------------------------------------ helpers
    def is_global(self, ref):
        return ref.get("id") in self.tu.globals and ref.get("kind") == "VarDecl"

    def var_kind(self, e):
        """for a DeclRefExpr: ('global', name) | ('local', id, name) | None"""
        ref = e.get("referencedDecl", {})
        if ref.get("kind") not in ("VarDecl", "ParmVarDecl"):
            return None
        if ref.get("kind") == "VarDecl" and ref.get("id") in self.tu.globals:
            name, f, const = self.tu.globals[ref["id"]]
            if const or (f and not f.startswith(self.tu.repo + "/")):
                return ("skip",)
            return ("global", name)
        return ("local", ref.get("id"), ref.get("name"))

    def ctx_for(self, record, base_var, locname):
        fn = self.fn_name
        if record == "iv_state":
            if base_var is None:
                return "foreign"
            b = self.binds.get(base_var[1], {})
            if b.get("init") == "iv_get_state":
                return "owner"
            if b.get("own_state") is not None:
                return "owner" if b["own_state"] else "foreign"
            names_foreign = base_var[2] in ("dst", "dest")
            if fn in FOREIGN_STATE_FNS or self.root_name in FOREIGN_STATE_FNS:
                return "foreign"
            return "foreign" if names_foreign else "owner"
        if record.endswith("_thr_info"):
            return "owner"
        if (record, fn) in FOREIGN_CTX:
            return "foreign"
        if record == "iv_signal":
            # tree walks: the interests met in the thread's own tree are its own, those in the process-wide tree
            # belong to arbitrary threads (also when the walk is started from iv_signal_unregister)
            if fn in ("__iv_signal_do_wake", "__iv_signal_find_first", "iv_signal_compare"):
                return "owner" if self.variant == "thread" else "foreign"
        return "owner"

    def variants(self, record):
        if record not in VARIANT_RECORDS:
            return [None]
        if self.variant:
            return [self.variant]
        return ["thread", "process"]

    def emit(self, locinfo, rw, node, atomic=False):
        """locinfo: list of (locname, record, base_var, priv)"""
        for (loc, record, base_var, priv) in locinfo:
            if record is None:
                ctx = "foreign"      # global
                self.tu.add_row(self, loc, rw, node, ctx, priv, "", atomic)
                continue
            for v in self.variants(record):
                saved = self.variant
                self.variant = v or saved
                ctx = self.ctx_for(record, base_var, loc)
                self.variant = saved
                name = loc + ("@" + v if v else "")
                self.tu.add_row(self, name, rw, node, ctx, priv, record, atomic)

    # ------------------------------------------------------------ lvalues
    def lvalue(self, e):
        """abstract locations denoted by lvalue expression e: list of (loc, record|None, base_var, priv); [] = private"""
        e = strip(e)
        k = e.get("kind")
        if k == "DeclRefExpr":
            vk = self.var_kind(e)
            if vk is None or vk[0] == "skip":
                return []
            if vk[0] == "global":
                return [(vk[1], None, None, False)]
            return []
        if k == "ArraySubscriptExpr":
            base = e["inner"][0]
            self.rvalue(e["inner"][1])
            b = strip(base)
            if b.get("kind") in ("DeclRefExpr", "MemberExpr"):
                # array object (global / field) or pointer field: the element belongs to that location
                r = self.lvalue(b)
                if r or b.get("kind") == "DeclRefExpr":
                    return r
            self.rvalue(base)
            return []
        if k == "UnaryOperator" and e.get("opcode") == "*":
            return self.pointee(e["inner"][0], e)
        if k == "MemberExpr":
            return self.member(e)
        if k in ("CallExpr", "StmtExpr", "ConditionalOperator", "BinaryOperator", "CompoundLiteralExpr", "StringLiteral",
                 "IntegerLiteral", "PredefinedExpr"):
            self.rvalue(e)
            return []
        self.tu.unclassified.add(f"{self.fn_name}: lvalue {k}")
        return []

    def pointee(self, p, node):
        """locations a pointer expression may point to (for *p, p->container-field, and pointer arguments)"""
        p = strip(p)
        k = p.get("kind")
        if k == "UnaryOperator" and p.get("opcode") == "&":
            return self.lvalue(p["inner"][0])
        if k == "DeclRefExpr":
            vk = self.var_kind(p)
            if vk and vk[0] == "local":
                b = self.binds.get(vk[1])
                if b and b.get("locs"):
                    return [(l, r, bv, b.get("priv", False) or pr) for (l, r, bv, pr) in b["locs"]]
            if vk and vk[0] == "global":
                self.emit([(vk[1], None, None, False)], "r", p)
            return []
        if k == "CallExpr":
            callee = strip(p["inner"][0])
            name = callee.get("referencedDecl", {}).get("name") if callee.get("kind") == "DeclRefExpr" else None
            if name in PRIM_RETURNS_ARG:
                return self.pointee(p["inner"][1 + PRIM_RETURNS_ARG[name]], node)
            rets = self.call(p, want_returns=True)
            return rets or []
        if k == "MemberExpr":
            # pointer loaded from a field (e.g. pool->idle_threads.next, tree->root): the pointee is an element of
            # the container the pointer was loaded from
            l = self.member(p)
            self.emit(l, "r", p)
            return l if self._is_container_ptr(p) else []
        if k == "ConditionalOperator":
            self.rvalue(p["inner"][0])
            return self.pointee(p["inner"][1], node) + self.pointee(p["inner"][2], node)
        self.rvalue(p)
        return []

    def _is_container_ptr(self, e):
        return rec_of_type(e.get("type", {}).get("qualType")) in CONTAINERS

    def member(self, e):
        """MemberExpr chain -> locations"""
        chain = []          # innermost last: (field name, record name of the base, field type)
        cur = e
        while True:
            cur = strip(cur)
            if cur.get("kind") != "MemberExpr":
                break
            base = cur["inner"][0]
            bt = strip(base).get("type", {}).get("qualType") if not cur.get("isArrow") else base.get("type", {}).get("qualType")
            if bt is None:
                bt = base.get("type", {}).get("qualType")
            chain.append((cur.get("name"), rec_of_type(self.tu.typedefs.get(bt, bt)), cur.get("type", {}).get("qualType")))
            if cur.get("isArrow"):
                cur = base
                arrow = True
                break
            cur = base
            arrow = False
        chain.reverse()                      # outermost first
        base = strip(cur)
        base_var = None
        base_locs = None                     # for container records reached through a bound pointer
        priv = False
        if base.get("kind") == "DeclRefExpr":
            vk = self.var_kind(base)
            if vk is None or vk[0] == "skip":
                return []
            if vk[0] == "global":
                gname = vk[1]
                if not chain or not arrow and True:
                    pass
                if not (chain and arrow) :
                    # field of a global object: G.f...
                    if chain and chain[0][1] in CONTAINERS:
                        return [(gname, None, None, False)]
                    if chain and chain[0][1] and self.tu.ivykis_record(chain[0][1]) and chain[0][1] not in CONTAINERS:
                        pass
                    else:
                        return [(gname, None, None, False)]
                else:
                    # pointer global dereferenced (method->name): read of the pointer, pointee const data
                    self.emit([(gname, None, None, False)], "r", base)
                    pq = base.get("type", {}).get("qualType", "")
                    if pq.startswith("const "):
                        return []
            else:
                base_var = vk
                b = self.binds.get(vk[1], {})
                priv = bool(b.get("priv"))
                if not arrow:
                    # local struct object: private, unless it is a stolen list head (still private)
                    return []
                if b.get("locs") and chain and chain[0][1] in CONTAINERS:
                    return [(l, r, bv, pr or priv) for (l, r, bv, pr) in b["locs"]]
        elif arrow:
            # p->f where p is itself an expression: a call, &x, a member holding a pointer ...
            if base.get("kind") == "UnaryOperator" and base.get("opcode") == "&":
                inner = self.lvalue(base["inner"][0])
                if chain and chain[0][1] in CONTAINERS:
                    return inner
            elif base.get("kind") == "MemberExpr":
                inner = self.member(base)
                self.emit(inner, "r", base)
                if chain and chain[0][1] in CONTAINERS:
                    return inner
            else:
                pts = self.pointee(base, e)
                if chain and chain[0][1] in CONTAINERS:
                    return pts
        else:
            self.rvalue(base)
            return []
        # choose the innermost ivykis, non-container record of the chain
        idx = None
        for i, (fld, rec, fty) in enumerate(chain):
            if rec and rec not in CONTAINERS and self.tu.ivykis_record(rec):
                idx = i
        if idx is None:
            # only anonymous / system / container records: name it after the outermost named record if any
            for i, (fld, rec, fty) in enumerate(chain):
                if rec:
                    idx = i
                    break
            if idx is None:
                b = self.binds.get(base_var[1], {}) if base_var is not None else {}
                if b.get("locs"):
                    return [(l, r, bv, pr or priv) for (l, r, bv, pr) in b["locs"]]
                self.tu.unclassified.add(f"{self.fn_name}: member chain {[c[0] for c in chain]}")
                return []
            if chain[idx][1] in CONTAINERS:
                if base_var is not None:
                    self.tu.unclassified.add(f"{self.fn_name}: unbound container pointer `{base_var[2]}`")
                return []
        rec = chain[idx][1]
        if not self.tu.ivykis_record(rec):
            # a system record (struct timespec, ...) reached through a pointer: what the pointer was bound to, else private
            b = self.binds.get(base_var[1], {}) if base_var is not None else {}
            if b.get("locs"):
                return [(l, r, bv, pr or priv) for (l, r, bv, pr) in b["locs"]]
            return []
        path = []
        for (fld, r, fty) in chain[idx:]:
            path.append(fld)
            fr = rec_of_type(self.tu.typedefs.get(fty, fty))
            if fr is not None and (fr in CONTAINERS or (fr != "" and not self.tu.ivykis_record(fr))):
                break
        return [(rec + "." + ".".join(path), rec, base_var, priv)]

    # ------------------------------------------------------------ rvalues / expressions
    def rvalue(self, e):
        """walk an expression evaluated for its value: record reads; handles assignments, calls ..."""
        if not isinstance(e, dict):
            return
        k = e.get("kind")
        if k in ("ParenExpr", "ConstantExpr"):
            return self.rvalue(e["inner"][0])
        if k in ("ImplicitCastExpr", "CStyleCastExpr"):
            inner = e["inner"][0]
            if e.get("castKind") == "LValueToRValue":
                self.emit(self.lvalue(inner), "r", inner)
                return
            if e.get("castKind") in ("ArrayToPointerDecay", "FunctionToPointerDecay"):
                s = strip(inner)
                if s.get("kind") in ("DeclRefExpr", "MemberExpr", "StringLiteral", "PredefinedExpr"):
                    if s.get("kind") == "MemberExpr":
                        self.lvalue(s)      # address computation only; walk the base for reads
                    return
            return self.rvalue(inner)
        if k in ("IntegerLiteral", "StringLiteral", "CharacterLiteral", "FloatingLiteral", "PredefinedExpr", "OffsetOfExpr",
                 "UnaryExprOrTypeTraitExpr", "GNUNullExpr", "ImplicitValueInitExpr"):
            return
        if k == "DeclRefExpr":
            return          # bare lvalue without load (e.g. function designator)
        if k == "MemberExpr":
            self.lvalue(e)
            return
        if k == "UnaryOperator":
            op = e.get("opcode")
            sub = e["inner"][0]
            if op in ("++", "--"):
                l = self.lvalue(sub)
                self.emit(l, "r", sub)
                self.emit(l, "w", sub)
                return
            if op == "&":
                self.lvalue(sub)        # address-of: no access (bases are walked inside lvalue)
                return
            if op == "*":
                self.lvalue(e)
                return
            return self.rvalue(sub)
        if k == "BinaryOperator":
            op = e.get("opcode")
            a, b = e["inner"]
            if op == "=":
                self.rvalue(b)
                self.assign(a, b, e)
                return
            if op in ("&&", "||", ","):
                self.rvalue(a)
                self.rvalue(b)
                return
            self.rvalue(a)
            self.rvalue(b)
            return
        if k == "CompoundAssignOperator":
            a, b = e["inner"]
            self.rvalue(b)
            l = self.lvalue(a)
            self.emit(l, "r", a)
            self.emit(l, "w", a)
            return
        if k == "ConditionalOperator":
            for c in e["inner"]:
                self.rvalue(c)
            return
        if k == "CallExpr":
            self.call(e)
            return
        if k == "StmtExpr":
            self.stmt(e["inner"][0])
            return
        if k == "AtomicExpr":
            # __atomic_load_n(&X, order) / __atomic_store_n(&X, v, order) / read-modify-write builtins: an ATOMIC access
            inner = e.get("inner", [])
            op = self.atomic_op(e)
            pts = self.pointee(inner[0], e) if inner else []
            for c in inner[1:]:
                self.rvalue(c)
            if op == "load":
                self.emit(pts, "r", e, atomic=True)
            elif op == "store":
                self.emit(pts, "w", e, atomic=True)
            else:
                self.emit(pts, "r", e, atomic=True)
                self.emit(pts, "w", e, atomic=True)
            return
        if k == "ArraySubscriptExpr":
            self.lvalue(e)
            return
        if k in ("InitListExpr", "CompoundLiteralExpr", "VAArgExpr", "BinaryConditionalOperator", "DesignatedInitExpr"):
            for c in e.get("inner", []):
                self.rvalue(c)
            return
        self.tu.unclassified.add(f"{self.fn_name}: expr {k}")
        for c in e.get("inner", []):
            self.rvalue(c)

    def atomic_op(self, e):
        """clang 14's JSON does not name the builtin: read it from the source text, else go by arity / result type"""
        b = e.get("range", {}).get("begin", {})
        b = b.get("expansionLoc", b)
        try:
            f = b.get("_f")
            src = self.tu.source_text(f)
            tok = src[b["offset"]:b["offset"] + b.get("tokLen", 0)]
            if "load" in tok:
                return "load"
            if "store" in tok:
                return "store"
            if tok.startswith(("__atomic", "__c11_atomic", "__sync")):
                return "rmw"
        except Exception:
            pass
        n = len(e.get("inner", []))
        void = e.get("type", {}).get("qualType") == "void"
        return "load" if n == 2 and not void else ("store" if n == 3 and void else "rmw")

    def assign(self, lhs, rhs, node):
        l = strip(lhs)
        if l.get("kind") == "DeclRefExpr":
            vk = self.var_kind(l)
            if vk and vk[0] == "local":
                self.bind_local(vk[1], l.get("type", {}).get("qualType"), rhs)
                return
        self.emit(self.lvalue(lhs), "w", lhs)

    def bind_local(self, vid, qt, init):
        """remember what a local pointer was loaded from"""
        if init is None:
            return
        s = strip(init)
        info = {}
        if s.get("kind") == "CallExpr":
            callee = strip(s["inner"][0])
            if callee.get("kind") == "DeclRefExpr":
                info["init"] = callee.get("referencedDecl", {}).get("name")
        rec = rec_of_type(self.tu.typedefs.get(qt, qt))
        if qt and "*" in qt:
            if rec in CONTAINERS:
                pts = self._peek_pointee(init)
                if pts:
                    info["locs"] = pts
                    info["priv"] = any(p[3] for p in pts)
            # element pointer derived from a stolen local list (iv_container_of(local.next, ...))
            if self._mentions_stolen(init):
                info["priv"] = True
            if rec == "iv_state":
                ss = s
                if ss.get("kind") == "DeclRefExpr":
                    vk = self.var_kind(ss)
                    if vk and vk[0] == "local" and vk[1] in self.binds:
                        for key in ("init", "own_state"):
                            if key in self.binds[vk[1]]:
                                info.setdefault(key, self.binds[vk[1]][key])
        if info:
            self.binds[vid] = info
        elif vid in self.binds:
            del self.binds[vid]

    def _peek_pointee(self, e):
        """pointee() without emitting rows twice: rows were already emitted by rvalue(init)"""
        saved = self.tu.rows
        self.tu.rows = dict(saved)
        try:
            return self.pointee(e, e)
        finally:
            self.tu.rows = saved

    def _mentions_stolen(self, e):
        if not isinstance(e, dict):
            return False
        if e.get("kind") == "DeclRefExpr":
            rid = e.get("referencedDecl", {}).get("id")
            if rid in self.stolen_heads:
                return True
            b = self.binds.get(rid)
            return bool(b and b.get("priv") and rec_of_type(e.get("type", {}).get("qualType")) in CONTAINERS)
        return any(self._mentions_stolen(c) for c in e.get("inner", []))

    # ------------------------------------------------------------ calls
    def lock_name(self, arg):
        a = strip(arg)
        if a.get("kind") == "UnaryOperator" and a.get("opcode") == "&":
            t = strip(a["inner"][0])
            if t.get("kind") == "DeclRefExpr":
                return t.get("referencedDecl", {}).get("name")
            if t.get("kind") == "MemberExpr":
                base = t["inner"][0]
                rec = rec_of_type(base.get("type", {}).get("qualType"))
                if rec == "iv_state":
                    return f"{t.get('name')}(owner)"
                return f"{LOCK_BASE.get(rec, rec)}->{t.get('name')}"
        if a.get("kind") == "DeclRefExpr":
            vk = self.var_kind(a)
            if vk and vk[0] == "local":
                b = self.binds.get(vk[1], {})
                if b.get("lock"):
                    return b["lock"]
        return "?lock"

    def call(self, e, want_returns=False):
        inner = e["inner"]
        callee = strip(inner[0])
        args = inner[1:]
        name = None
        if callee.get("kind") == "DeclRefExpr" and callee.get("referencedDecl", {}).get("kind") == "FunctionDecl":
            name = callee["referencedDecl"].get("name")
        else:
            self.rvalue(inner[0])           # call through a pointer: read of the pointer
        if name in LOCK_FNS:
            d, mask = LOCK_FNS[name]
            ln = self.lock_name(args[0])
            if d > 0:
                self.locks.add(ln)
                if mask:
                    self.locks.add("sigmask")
            else:
                self.locks.discard(ln)
                if mask:
                    self.locks.discard("sigmask")
            return None
        if name in LOCK_LIFECYCLE:
            return None
        if name == "pthr_sigmask" or name == "pthread_sigmask" or name == "sigprocmask":
            how = strip(args[0])
            for i, a in enumerate(args[1:]):
                self.arg_access(a, "const sigset_t *" if i == 0 else "sigset_t *", e)
            if how.get("kind") == "IntegerLiteral":
                if how.get("value") == "0":
                    self.locks.add("sigmask")
                elif how.get("value") == "2":
                    self.locks.discard("sigmask")
            return None
        if name in ("iv_avl_tree_insert", "iv_avl_tree_delete"):
            self.tu.avl_site_locks.append(set(self.locks))
        if name in PRIMS:
            for (i, rw) in PRIMS[name]:
                if i < len(args):
                    pts = self.pointee(args[i], e)
                    self.emit(pts, rw, args[i])
                    if name == "__iv_list_steal_elements" and i == 1:
                        t = strip(args[i])
                        if t.get("kind") == "UnaryOperator" and t.get("opcode") == "&":
                            tt = strip(t["inner"][0])
                            if tt.get("kind") == "DeclRefExpr" and self.var_kind(tt) and self.var_kind(tt)[0] == "local":
                                self.stolen_heads.add(tt["referencedDecl"]["id"])
            for i, a in enumerate(args):
                if i not in [x for x, _ in PRIMS[name]]:
                    self.rvalue(a)
            return None
        fn = self.tu.func_by_name.get(name) if name else None
        if fn is not None and self.depth < 8 and name not in self.stack:
            return self.inline(fn, args, e)
        # external call / call through pointer
        ptypes = self.param_types(inner[0])
        for i, a in enumerate(args):
            self.arg_access(a, ptypes[i] if i < len(ptypes) else None, e)
        return None

    def param_types(self, callee):
        qt = strip(callee).get("type", {}).get("qualType", "")
        m = re.search(r"\((?:\*\))?\((.*)\)$", qt) or re.search(r"\((.*)\)$", qt)
        if not m:
            return []
        s = m.group(1)
        out, depth, cur = [], 0, ""
        for ch in s:
            if ch == "," and depth == 0:
                out.append(cur.strip()); cur = ""
            else:
                depth += ch == "("
                depth -= ch == ")"
                cur += ch
        if cur.strip():
            out.append(cur.strip())
        return out

    def arg_access(self, a, ptype, node):
        s = strip(a)
        pts = None
        if s.get("kind") == "UnaryOperator" and s.get("opcode") == "&":
            t = strip(s["inner"][0])
            pts = self.lvalue(t)
            frec = rec_of_type(self.tu.typedefs.get(t.get("type", {}).get("qualType"), t.get("type", {}).get("qualType")))
            if frec in HANDOFF:
                return
        elif s.get("kind") == "DeclRefExpr":
            vk = self.var_kind(s)
            if vk and vk[0] == "local" and self.binds.get(vk[1], {}).get("locs") and "*" in s.get("type", {}).get("qualType", ""):
                prec = rec_of_type(s.get("type", {}).get("qualType"))
                if prec in HANDOFF and prec not in CONTAINERS:
                    self.rvalue(a)
                    return
                pts = self.binds[vk[1]]["locs"]
                if prec in CONTAINERS:
                    pts = None          # passing a container pointer on to an unknown function: not summarised
        if pts is None:
            self.rvalue(a)
            return
        const = bool(ptype) and ptype.startswith("const ")
        self.emit(pts, "r" if const else "w", a)

    def inline(self, fn, args, node):
        params = [c for c in fn.get("inner", []) if c.get("kind") == "ParmVarDecl"]
        binds = {}
        variant = self.variant
        for i, p in enumerate(params):
            if i >= len(args):
                break
            a = args[i]
            qt = p.get("type", {}).get("qualType", "")
            info = {}
            if "*" in qt:
                rec = rec_of_type(self.tu.typedefs.get(qt, qt))
                s = strip(a)
                if rec in CONTAINERS or (rec is None and "*" in qt) or (rec and rec not in HANDOFF) or rec in ("iv_list_head",):
                    pts = self._peek_pointee(a)
                    if pts:
                        info["locs"] = pts
                        info["priv"] = any(x[3] for x in pts)
                        for (l, r, bv, pr) in pts:
                            if l in VARIANT_OF_TREE:
                                vs = {VARIANT_OF_TREE[x[0]] for x in pts if x[0] in VARIANT_OF_TREE}
                                variant = vs.pop() if len(vs) == 1 else None
                if s.get("kind") == "DeclRefExpr":
                    vk = self.var_kind(s)
                    if vk and vk[0] == "local":
                        b = self.binds.get(vk[1], {})
                        for key in ("init", "own_state", "priv", "lock"):
                            if key in b:
                                info.setdefault(key, b[key])
                        if rec == "iv_state" and "own_state" not in info and "init" not in info:
                            info["own_state"] = self.ctx_for("iv_state", vk, "") == "owner"
                if self._mentions_stolen(a):
                    info["priv"] = True
                if rec is None or rec == "":
                    # pointer to a lock object handed to a helper
                    t = strip(a)
                    if "mutex" in qt or "spinlock" in qt:
                        info["lock"] = self.lock_name(a)
            # evaluate the argument (reads)
            self.rvalue(a)
            if info:
                binds[p["id"]] = info
        for a in args[len(params):]:
            self.rvalue(a)
        w = Walker(self.tu, fn, self.locks, binds, self.root_name, self.entry, self.depth + 1, self.stack + [fn["name"]], variant)
        body = next(c for c in fn["inner"] if c.get("kind") == "CompoundStmt")
        w.stmt(body)
        # lock state after the call = callee's exit state (for helpers that lock/unlock for the caller)
        if w.exit_locks is not None:
            self.locks = set(w.exit_locks)
        return w.returns

    # ------------------------------------------------------------ statements
    exit_locks = None

    def stmt(self, s):
        """walk statement; returns True when control can fall through"""
        if not isinstance(s, dict):
            return True
        k = s.get("kind")
        if k == "CompoundStmt":
            top = self.depth_marker(s)
            for c in s.get("inner", []):
                if not self.stmt(c):
                    if top:
                        self._finish()
                    return False
            if top:
                self._record_exit()
                self._finish()
            return True
        if k == "DeclStmt":
            for d in s.get("inner", []):
                if d.get("kind") == "VarDecl":
                    init = next((c for c in d.get("inner", []) if "Expr" in c.get("kind", "") or c.get("kind", "").endswith("Operator")
                                 or c.get("kind") in ("InitListExpr",)), None)
                    if d.get("storageClass") == "static":
                        continue
                    if init is not None:
                        self.rvalue(init)
                        self.bind_local(d["id"], d.get("type", {}).get("qualType"), init)
            return True
        if k == "IfStmt":
            inner = s["inner"]
            cond, then = inner[0], inner[1]
            els = inner[2] if len(inner) > 2 else None
            self.rvalue(cond)
            vt = self.variant_of_cond(cond)
            nt = self.nothreads_cond(cond)
            entry_locks, entry_binds, entry_var = set(self.locks), dict(self.binds), self.variant
            outs = []
            if vt:
                self.variant = vt[0] if self.variant is None else self.variant
            if self.stmt(then):
                outs.append(set(self.locks))
            self.locks, self.variant = set(entry_locks), entry_var
            if nt:
                self.locks.add("nothreads")
            if els is not None:
                if vt:
                    self.variant = vt[1] if self.variant is None else self.variant
                if self.stmt(els):
                    outs.append(set(self.locks))
                self.variant = entry_var
            else:
                outs.append(set(self.locks))
            if not outs:
                return False
            self.locks = set.intersection(*outs)
            return True
        if k in ("WhileStmt", "ForStmt", "DoStmt"):
            return self.loop(s)
        if k == "ReturnStmt":
            if s.get("inner"):
                self.rvalue(s["inner"][0])
                qt = s["inner"][0].get("type", {}).get("qualType", "")
                if "*" in qt:
                    self.returns += self._peek_pointee(s["inner"][0])
            self._record_exit()
            return False
        if k == "BreakStmt":
            self.break_states.append(("break", set(self.locks)))
            return False
        if k == "ContinueStmt":
            self.break_states.append(("continue", set(self.locks)))
            return False
        if k == "GotoStmt":
            self.goto_states.setdefault(s.get("targetLabelDeclId"), []).append(set(self.locks))
            return False
        if k == "LabelStmt":
            sts = self.goto_states.get(s.get("declId"), [])
            if sts:
                self.locks = set.intersection(self.locks, *sts) if self._flow else set.intersection(*sts)
            self._flow = True
            return self.stmt(s["inner"][0]) if s.get("inner") else True
        if k == "SwitchStmt":
            self.rvalue(s["inner"][0])
            entry = set(self.locks)
            saved = self.break_states
            self.break_states = []
            body = s["inner"][-1]
            flows = self.stmt(body)
            outs = [st for kind, st in self.break_states if kind == "break"]
            conts = [x for x in self.break_states if x[0] == "continue"]
            self.break_states = saved + conts
            if flows:
                outs.append(set(self.locks))
            outs.append(entry)
            self.locks = set.intersection(*outs)
            return True
        if k in ("CaseStmt", "DefaultStmt"):
            ok = True
            for c in s.get("inner", []):
                if "Stmt" in c.get("kind", "") or "Expr" in c.get("kind", "") or c.get("kind", "").endswith("Operator"):
                    if c.get("kind") in ("ConstantExpr", "IntegerLiteral"):
                        continue
                    ok = self.stmt(c)
            return ok
        if k == "NullStmt":
            return True
        if k in ("AttributedStmt",):
            return self.stmt(s["inner"][-1])
        # expression statement
        self.rvalue(s)
        if k == "CallExpr":
            callee = strip(s["inner"][0])
            if callee.get("kind") == "DeclRefExpr" and callee.get("referencedDecl", {}).get("name") in NORETURN:
                return False
        return True

    _flow = True
    _top = None

    def depth_marker(self, s):
        if self._top is None:
            self._top = s
            return True
        return False

    def _record_exit(self):
        self.exit_locks = set(self.locks) if self.exit_locks is None else (self.exit_locks & self.locks)

    def _finish(self):
        pass

    def loop(self, s):
        k = s["kind"]
        inner = s["inner"]
        if k == "WhileStmt":
            cond, body, init, inc = inner[0], inner[1], None, None
        elif k == "DoStmt":
            body, cond, init, inc = inner[0], inner[1], None, None
        else:
            init, _, cond, inc, body = inner[0], inner[1], inner[2], inner[3], inner[4]
        if init:
            self.stmt(init)
        infinite = False
        c = strip(cond) if cond else None
        if cond is None or cond == {} or (c and c.get("kind") == "IntegerLiteral" and c.get("value") != "0"):
            infinite = True
        saved_breaks = self.break_states
        head = set(self.locks)
        for _ in range(4):
            self.break_states = []
            self.locks = set(head)
            if k != "DoStmt" and cond:
                self.rvalue(cond)
            flows = self.stmt(body)
            conts = [st for kind, st in self.break_states if kind == "continue"]
            ends = ([set(self.locks)] if flows else []) + conts
            if k == "DoStmt" and cond and ends:
                self.locks = set.intersection(*ends)
                self.rvalue(cond)
            if inc and ends:
                self.locks = set.intersection(*ends)
                self.rvalue(inc)
            new_head = set.intersection(head, *ends) if ends else head
            if new_head == head:
                break
            head = new_head
        outs = [st for kind, st in self.break_states if kind == "break"]
        if not infinite:
            outs.append(set(head) if k != "DoStmt" else (set.intersection(*ends) if ends else set(head)))
        self.break_states = saved_breaks
        if not outs:
            return False
        self.locks = set.intersection(*outs)
        return True

    def nothreads_cond(self, cond):
        """`if (pthreads_available())` / `if (pthread_spinlocks_available())`: the else / fall-through side runs only
        when libpthread is not linked in, i.e. in a process that cannot have a second thread"""
        c = strip(cond)
        if c.get("kind") == "CallExpr":
            cal = strip(c["inner"][0])
            if cal.get("kind") == "DeclRefExpr" and cal.get("referencedDecl", {}).get("name") in ("pthreads_available", "pthread_spinlocks_available"):
                return True
        return False

    def variant_of_cond(self, cond):
        """`x->flags & IV_SIGNAL_FLAG_THIS_THREAD` (possibly negated) -> (variant in then, variant in else)"""
        c = strip(cond)
        neg = False
        while c.get("kind") == "UnaryOperator" and c.get("opcode") == "!":
            neg = not neg
            c = strip(c["inner"][0])
        if c.get("kind") == "BinaryOperator" and c.get("opcode") == "&":
            a, b = strip(c["inner"][0]), strip(c["inner"][1])
            if a.get("kind") == "MemberExpr" and b.get("kind") == "IntegerLiteral":
                rec = rec_of_type(a["inner"][0].get("type", {}).get("qualType"))
                key = (rec, a.get("name"), int(b.get("value", "0")))
                if key in VARIANT_FLAG:
                    t, f = VARIANT_FLAG[key]
                    return (f, t) if neg else (t, f)
        return None


def analyse_file(repo, src):
    ast = clang_ast(repo, src)
    annotate_locs(ast)
    tu = TU(repo, src, ast)
    def is_comparator(fn):
        ps = [c.get("type", {}).get("qualType") for c in fn.get("inner", []) if c.get("kind") == "ParmVarDecl"]
        return ps == ["const struct iv_avl_node *", "const struct iv_avl_node *"]
    roots = tu.roots()
    for fn in [f for f in roots if not is_comparator(f)] + [f for f in roots if is_comparator(f)]:
        locks = set(ROOT_LOCKS.get(fn["name"], set()))
        if is_comparator(fn) and tu.avl_site_locks:
            # avl comparison callbacks run inside iv_avl_tree_insert/delete: they hold what every such call site holds
            locks |= set.intersection(*tu.avl_site_locks)
        w = Walker(tu, fn, locks, {}, fn["name"], fn["name"] in ENTRY_POINTS, 0, [fn["name"]])
        body = next(c for c in fn["inner"] if c.get("kind") == "CompoundStmt")
        w.stmt(body)
    rows = list(tu.rows.values())
    return rows, sorted(tu.unclassified)


# ---------------------------------------------------------------------------------------------- output
def lean_str(s):
    return '"' + s.replace("\\", "\\\\").replace('"', '\\"') + '"'


def dedup_for_lean(rows):
    """one Lean row per (file, fn, loc, rw, locks, ctx, entry, priv): the first source line is kept"""
    best = {}
    for r in rows:
        k = (r["file"], r["fn"], r["loc"], r["rw"], tuple(r["locks"]), r["ctx"], r["entry"], r["priv"], r["atomic"])
        if k not in best or r["line"] < best[k]["line"]:
            best[k] = r
    return sorted(best.values(), key=lambda r: (r["file"], r["line"], r["fn"], r["loc"], r["rw"], r["locks"], r["ctx"]))


CHUNK = 80


def emit_lean(rows, path):
    L = ["-- GENERATED by /verif/gen/gen_access.py from the ivykis sources on every check run. Do not edit.",
         "-- One row per distinct (file, function, location, read/write, locks held, context, entry, private-list) access.",
         "import Ivy.L2.Lockset",
         "namespace Ivy.Generated",
         "open Ivy.L2.Lockset",
         ""]
    chunks = [rows[i:i + CHUNK] for i in range(0, len(rows), CHUNK)] or [[]]
    for ci, ch in enumerate(chunks):
        L.append(f"def accesses{ci} : List Access := [")
        for j, r in enumerate(ch):
            locks = "[" + ", ".join(lean_str(x) for x in r["locks"]) + "]"
            L.append(f"  ⟨{lean_str(r['file'])}, {lean_str(r['fn'])}, {r['line']}, {lean_str(r['rec'])}, {lean_str(r['loc'])}, "
                     f"{'.write' if r['rw'] == 'w' else '.read'}, {locks}, {'.owner' if r['ctx'] == 'owner' else '.foreign'}, "
                     f"{'true' if r['entry'] else 'false'}, {'true' if r['priv'] else 'false'}, {'true' if r['atomic'] else 'false'}⟩"
                     + ("," if j + 1 < len(ch) else ""))
        L.append("]")
        L.append("")
    L.append("/-- the table, as a list of chunks (each chunk is checked by its own `decide`) -/")
    L.append("def accessChunks : List (List Access) := [" + ", ".join(f"accesses{i}" for i in range(len(chunks))) + "]")
    L.append("")
    L.append("def accesses : List Access := accessChunks.flatten")
    L.append("")
    L.append("end Ivy.Generated")
    L.append("")
    text = "\n".join(L)
    if os.path.exists(path) and open(path).read() == text:
        return
    tmp = path + ".tmp%d" % os.getpid()
    with open(tmp, "w") as f:
        f.write(text)
    os.replace(tmp, path)


def tree_hash(repo):
    h = hashlib.sha256(open(os.path.abspath(__file__), "rb").read())
    for root, _, files in os.walk(os.path.join(repo, "src")):
        for f in sorted(files):
            if f.endswith((".c", ".h")):
                h.update(f.encode())
                h.update(open(os.path.join(root, f), "rb").read())
    cfg = os.path.join(repo, "config.h")
    if os.path.exists(cfg):
        h.update(open(cfg, "rb").read())
    return h.hexdigest()[:20]


def extract(repo):
    rows, uncl = [], []
    with ThreadPoolExecutor(max_workers=min(12, os.cpu_count() or 4)) as ex:
        for r, u in ex.map(lambda s: analyse_file(repo, s), FILES):
            rows += r
            uncl += u
    rows.sort(key=lambda r: (r["file"], r["line"], r["fn"], r["loc"], r["rw"], r["locks"], r["ctx"]))
    return rows, uncl


def generate(repo, outdir):
    """regenerate Ivy/Generated/AccessTable.lean (+ the full table with line numbers as JSON next to the build
    products); cached by the hash of the source tree and of this file"""
    os.makedirs(outdir, exist_ok=True)
    verif = os.path.dirname(os.path.dirname(os.path.abspath(__file__)))
    cache_dir = os.path.join(verif, "build")
    os.makedirs(cache_dir, exist_ok=True)
    h = tree_hash(repo)
    cache = os.path.join(cache_dir, f"c14-access-{h}.json")
    data = None
    if os.path.exists(cache):
        try:
            data = json.load(open(cache))
        except Exception:
            data = None
    if data is None:
        try:
            rows, uncl = extract(repo)
            data = {"rows": rows, "unclassified": uncl, "error": None}
        except Exception as e:       # the table must not silently go stale: an empty table with the error recorded
            data = {"rows": [], "unclassified": [], "error": f"{type(e).__name__}: {e}"}
        for e in os.listdir(cache_dir):
            if e.startswith("c14-access-") and e.endswith(".json"):
                try:
                    os.unlink(os.path.join(cache_dir, e))
                except OSError:
                    pass
        tmp = cache + ".tmp%d" % os.getpid()
        json.dump(data, open(tmp, "w"))
        os.replace(tmp, cache)
    lean_rows = dedup_for_lean(data["rows"])
    emit_lean(lean_rows, os.path.join(outdir, "AccessTable.lean"))
    return {"C14_access_rows": len(lean_rows), "C14_access_rows_with_lines": len(data["rows"]),
            "C14_locations": len({r["loc"] for r in lean_rows}), "C14_unclassified": data["unclassified"],
            "C14_extractor_error": data["error"], "C14_table_json": cache}


def load_rows(repo):
    """the full table (with line numbers) for the plugin"""
    verif = os.path.dirname(os.path.dirname(os.path.abspath(__file__)))
    cache = os.path.join(verif, "build", f"c14-access-{tree_hash(repo)}.json")
    if not os.path.exists(cache):
        generate(repo, os.path.join(verif, "lean", "Ivy", "Generated"))
    return json.load(open(cache))


if __name__ == "__main__":
    repo = sys.argv[1] if len(sys.argv) > 1 else os.environ.get("IVY_REPO", "/repo")
    if len(sys.argv) > 2:
        print(generate(repo, sys.argv[2]))
    else:
        rows, uncl = extract(repo)
        for r in dedup_for_lean(rows):
            print(f"{r['file']}:{r['line']:<4} {r['fn']:<34} {r['loc']:<40} {r['rw']} {','.join(r['locks']) or '-':<40} {r['ctx']:<8}"
                  f"{' entry' if r['entry'] else ''}{' priv' if r['priv'] else ''}{' atomic' if r['atomic'] else ''}")
        print(len(rows), "rows;", len(dedup_for_lean(rows)), "distinct;", "unclassified:", uncl, file=sys.stderr)
