/*
 * T-gen "finite tables" extractor (see /verif/gen/gen_tables.py, /verif/lean/Ivy/L1/TablesAgree.lean).
 *
 * The pure, finite-domain helper functions of ivykis are EXECUTED here on their whole domain (or, for the
 * timespec arithmetic and the exclude-string parser, on a fixed sample grid) and their value tables are
 * printed, one row per line.  gen_tables.py turns the rows into Lean data (Ivy/Generated/Tables.lean) and
 * Ivy/L1/TablesAgree.lean proves by `decide` that the model's definitions agree with every row.
 *
 * The functions are static, so the real source files are #included (white box).  Because names clash
 * (`bits_to_poll_mask` exists in iv_fd_epoll.c and in iv_fd_poll.c) this one file is compiled once per
 * part, selected with -DTG_PART=n, and each object REPLACES the library object of the file it includes;
 * the remaining library sources are compiled unmodified and everything is linked into one program:
 *
 *   TG_PART 0  main()                                     (no ivykis source included)
 *   TG_PART 1  #include "iv_fd.c"        recompute_wanted_flags, timespec_cmp, method_is_excluded,
 *                                        + iv_private.h timespec_gt / to_relative / to_msec
 *   TG_PART 2  #include "iv_fd_epoll.c"  bits_to_poll_mask, iv_fd_epoll_poll, iv_fd_epoll_timerfd_poll
 *                                        (epoll_wait / epoll_pwait2 redirected to a stub that returns one
 *                                        scripted event; nothing else of the kernel is touched)
 *   TG_PART 3  #include "iv_fd_poll.c"   bits_to_poll_mask, iv_fd_poll_activate_fds
 *   TG_PART 4  #include "iv_signal.c"    iv_signal_compare
 *
 * Band sets are printed in a canonical code that does not depend on the values of MASKIN/MASKOUT/MASKERR:
 * in = 1, out = 2, err = 4, and 8 if any other bit is set.  Kernel masks are printed as one 0/1 column per
 * named bit plus the residual bits (everything that is not one of the named bits) in decimal.
 *
 * Row formats (all fields separated by one blank):
 *   W  registered hin hout herr  bands                    recompute_wanted_flags
 *   EM bands  EPOLLIN EPOLLOUT residual                   iv_fd_epoll.c bits_to_poll_mask
 *   PM bands  POLLIN POLLOUT POLLHUP residual             iv_fd_poll.c  bits_to_poll_mask
 *   EE variant IN OUT ERR HUP  bands on_active            variant 0 iv_fd_epoll_poll, 1 iv_fd_epoll_timerfd_poll
 *   PE IN OUT ERR HUP  bands on_active                    iv_fd_poll_activate_fds
 *   TS asec ansec bsec bnsec  gt relsec relnsec msec cmp  timespec_gt(a,b), to_relative(now=b, abs=a),
 *                                                         to_msec(now=b, abs=a), timespec_cmp(a,b)
 *   TN bsec bnsec cmp                                     timespec_cmp(NULL, b)
 *   SO index signum exclusive this_thread                 the iv_signal objects (array: address order = index)
 *   SG i j sign                                           sign of iv_signal_compare(&obj[i].an, &obj[j].an)
 *   EX hex(exclude)|- hex(name) result                    method_is_excluded ("-" = NULL exclude)
 *   END                                                   last line; its absence means the run died
 */
#ifndef TG_PART
#error "compile with -DTG_PART=0..4"
#endif

#if TG_PART == 0
/* ------------------------------------------------------------------------------------------------ main */
#include <stdio.h>

void tg_fd(void);
void tg_epoll(void);
void tg_poll(void);
void tg_signal(void);

int main(void)
{
	tg_fd();
	tg_epoll();
	tg_poll();
	tg_signal();
	printf("END\n");
	return 0;
}
#endif

#if TG_PART != 0
static int __attribute__((unused)) tg_bands(int b, int in, int out, int err)
{
	return ((b & in) ? 1 : 0) | ((b & out) ? 2 : 0) | ((b & err) ? 4 : 0) | ((b & ~(in | out | err)) ? 8 : 0);
}
#endif

#if TG_PART == 1
/* ----------------------------------------------------------------------------------------------- iv_fd.c */
#include "iv_fd.c"

static void tg_dummy_handler(void *cookie)
{
	(void)cookie;
}

static const long tg_secs[] = { 0, 1, 2, 86399, 86400, 86401 };
static const long tg_nsecs[] = { 0, 1, 499999, 500000, 999999, 1000000, 999999999 };
#define TG_NSEC (sizeof(tg_secs) / sizeof(tg_secs[0]))
#define TG_NNSEC (sizeof(tg_nsecs) / sizeof(tg_nsecs[0]))

static void tg_hex(const char *s)
{
	if (*s == 0)
		printf("00");		/* the empty string: a single NUL, stripped by the reader */
	while (*s)
		printf("%02x", (unsigned char)*s++);
}

#define X10 "xxxxxxxxxx"
#define X63 X10 X10 X10 X10 X10 X10 "xxx"
#define X70 X10 X10 X10 X10 X10 X10 X10

static const char *const tg_excl[] = {
	NULL,
	"",
	" ",
	"epoll",
	"epoll-timerfd",
	"ppoll poll",
	"  epoll-timerfd\tppoll ",
	"epoll  poll",
	"\tpoll\t",
	"poll\nppoll\repoll\vepoll-timerfd\f",
	"epol",
	"epolll",
	"epoll-timerf",
	"epoll-timerfdx ppol pol",
	"epoll-timerfd,epoll",
	"Epoll POLL",
	"epoll-timerfd epoll ppoll poll",
	"x poll",
	X70,
	X70 " poll",
	"poll" X63,
	X63 "poll",
	X63 "poll ppoll",
};

static const char *const tg_names[] = {
	"epoll-timerfd", "epoll", "ppoll", "poll", "", "x", "xxxxxxx", X63, X70,
};

void tg_fd(void)
{
	unsigned int i, j, k, l;

	/* recompute_wanted_flags on all 16 combinations */
	for (i = 0; i < 16; i++) {
		struct iv_fd_ fd;

		memset(&fd, 0, sizeof(fd));
		fd.registered = !!(i & 8);
		fd.handler_in = (i & 4) ? tg_dummy_handler : NULL;
		fd.handler_out = (i & 2) ? tg_dummy_handler : NULL;
		fd.handler_err = (i & 1) ? tg_dummy_handler : NULL;
		fd.wanted_bands = 0xff;
		recompute_wanted_flags(&fd);
		printf("W %d %d %d %d %d\n", !!(i & 8), !!(i & 4), !!(i & 2), !!(i & 1),
		       tg_bands(fd.wanted_bands, MASKIN, MASKOUT, MASKERR));
	}

	/* timespec arithmetic on the grid */
	for (i = 0; i < TG_NSEC; i++)
	for (j = 0; j < TG_NNSEC; j++)
	for (k = 0; k < TG_NSEC; k++)
	for (l = 0; l < TG_NNSEC; l++) {
		struct timespec a, b, rel, *r;
		struct iv_state st;
		int gt, ms, cmp;

		a.tv_sec = tg_secs[i];
		a.tv_nsec = tg_nsecs[j];
		b.tv_sec = tg_secs[k];
		b.tv_nsec = tg_nsecs[l];

		gt = timespec_gt(&a, &b);

		memset(&st, 0, sizeof(st));
		st.time = b;
		st.time_valid = 1;
		rel.tv_sec = -7;
		rel.tv_nsec = -7;
		r = to_relative(&st, &rel, &a);
		if (r != &rel) {
			printf("ERROR to_relative did not return rel\n");
			exit(1);
		}

		memset(&st, 0, sizeof(st));
		st.time = b;
		st.time_valid = 1;
		ms = to_msec(&st, &a);

		cmp = timespec_cmp(&a, &b);

		printf("TS %ld %ld %ld %ld %d %ld %ld %d %d\n", (long)a.tv_sec, (long)a.tv_nsec,
		       (long)b.tv_sec, (long)b.tv_nsec, gt, (long)rel.tv_sec, (long)rel.tv_nsec, ms, cmp);
	}
	for (k = 0; k < TG_NSEC; k++)
	for (l = 0; l < TG_NNSEC; l++) {
		struct timespec b;

		b.tv_sec = tg_secs[k];
		b.tv_nsec = tg_nsecs[l];
		printf("TN %ld %ld %d\n", (long)b.tv_sec, (long)b.tv_nsec, timespec_cmp(NULL, &b));
	}

	/* method_is_excluded on the sample */
	for (i = 0; i < sizeof(tg_excl) / sizeof(tg_excl[0]); i++)
	for (j = 0; j < sizeof(tg_names) / sizeof(tg_names[0]); j++) {
		printf("EX ");
		if (tg_excl[i] == NULL)
			printf("-");
		else
			tg_hex(tg_excl[i]);
		printf(" ");
		tg_hex(tg_names[j]);
		printf(" %d\n", !!method_is_excluded(tg_excl[i], tg_names[j]));
	}
}
#endif

#if TG_PART == 2
/* ----------------------------------------------------------------------------------------- iv_fd_epoll.c */
#include <signal.h>
#include <sys/epoll.h>

static struct epoll_event tg_script;
static int tg_waits;

static int tg_epoll_wait(int epfd, struct epoll_event *events, int maxevents, int timeout)
{
	(void)epfd;
	(void)timeout;
	tg_waits++;
	if (maxevents < 1)
		return 0;
	events[0] = tg_script;
	return 1;
}

static int tg_epoll_pwait2(int epfd, struct epoll_event *events, int maxevents,
			   const struct timespec *timeout, const sigset_t *sigmask)
{
	(void)timeout;
	(void)sigmask;
	return tg_epoll_wait(epfd, events, maxevents, 0);
}

#define epoll_wait tg_epoll_wait
#define epoll_pwait2 tg_epoll_pwait2
#include "iv_fd_epoll.c"
#undef epoll_wait
#undef epoll_pwait2

typedef int (*tg_pollfn)(struct iv_state *, struct iv_list_head *, const struct timespec *);

static void tg_epoll_events(int variant, tg_pollfn fn)
{
	int c;

	for (c = 0; c < 16; c++) {
		struct iv_state *st;
		struct iv_list_head active;
		struct iv_fd_ fd;
		int before;

		st = calloc(1, sizeof(*st));
		if (st == NULL)
			exit(1);
		INIT_IV_LIST_HEAD(&st->u.epoll.notify);
		st->u.epoll.epoll_fd = -1;
		st->u.epoll.timer_fd = -1;
		st->numfds = 1;

		INIT_IV_LIST_HEAD(&active);
		memset(&fd, 0, sizeof(fd));
		fd.fd = -1;
		INIT_IV_LIST_HEAD(&fd.list_active);
		INIT_IV_LIST_HEAD(&fd.list_notify);
		fd.ready_bands = 0;

		memset(&tg_script, 0, sizeof(tg_script));
		tg_script.data.ptr = &fd;
		tg_script.events = ((c & 8) ? EPOLLIN : 0) | ((c & 4) ? EPOLLOUT : 0) |
				   ((c & 2) ? EPOLLERR : 0) | ((c & 1) ? EPOLLHUP : 0);

		before = tg_waits;
		fn(st, &active, NULL);
		if (tg_waits != before + 1) {
			printf("ERROR epoll wait stub called %d times\n", tg_waits - before);
			exit(1);
		}

		printf("EE %d %d %d %d %d %d %d\n", variant, !!(c & 8), !!(c & 4), !!(c & 2), !!(c & 1),
		       tg_bands(fd.ready_bands, MASKIN, MASKOUT, MASKERR),
		       !iv_list_empty(&active) && active.next == &fd.list_active);
		free(st);
	}
}

void tg_epoll(void)
{
	int b;

	for (b = 0; b < 8; b++) {
		int bits = ((b & 1) ? MASKIN : 0) | ((b & 2) ? MASKOUT : 0) | ((b & 4) ? MASKERR : 0);
		int mask = bits_to_poll_mask(bits);

		printf("EM %d %d %d %u\n", b, !!(mask & EPOLLIN), !!(mask & EPOLLOUT),
		       (unsigned int)mask & ~(unsigned int)(EPOLLIN | EPOLLOUT));
	}

	tg_epoll_events(0, iv_fd_epoll_poll);
#ifdef HAVE_TIMERFD_CREATE
	tg_epoll_events(1, iv_fd_epoll_timerfd_poll);
#endif
}
#endif

#if TG_PART == 3
/* ------------------------------------------------------------------------------------------ iv_fd_poll.c */
#include "iv_fd_poll.c"

void tg_poll(void)
{
	int b, c;

	for (b = 0; b < 8; b++) {
		int bits = ((b & 1) ? MASKIN : 0) | ((b & 2) ? MASKOUT : 0) | ((b & 4) ? MASKERR : 0);
		int mask = bits_to_poll_mask(bits);

		printf("PM %d %d %d %d %u\n", b, !!(mask & POLLIN), !!(mask & POLLOUT), !!(mask & POLLHUP),
		       (unsigned int)mask & ~(unsigned int)(POLLIN | POLLOUT | POLLHUP));
	}

	for (c = 0; c < 16; c++) {
		struct iv_state *st;
		struct iv_list_head active;
		struct iv_fd_ fd;
		struct iv_fd_ *fds[1];
		struct pollfd pfds[1];

		st = calloc(1, sizeof(*st));
		if (st == NULL)
			exit(1);
		INIT_IV_LIST_HEAD(&active);
		memset(&fd, 0, sizeof(fd));
		fd.fd = -1;
		INIT_IV_LIST_HEAD(&fd.list_active);
		fd.ready_bands = 0;
		fd.u.index = 0;

		fds[0] = &fd;
		pfds[0].fd = -1;
		pfds[0].events = 0;
		pfds[0].revents = ((c & 8) ? POLLIN : 0) | ((c & 4) ? POLLOUT : 0) |
				  ((c & 2) ? POLLERR : 0) | ((c & 1) ? POLLHUP : 0);
		st->u.poll.pfds = pfds;
		st->u.poll.fds = fds;
		st->u.poll.num_regd_fds = 1;

		iv_fd_poll_activate_fds(st, &active);

		printf("PE %d %d %d %d %d %d\n", !!(c & 8), !!(c & 4), !!(c & 2), !!(c & 1),
		       tg_bands(fd.ready_bands, MASKIN, MASKOUT, MASKERR),
		       !iv_list_empty(&active) && active.next == &fd.list_active);
		free(st);
	}
}
#endif

#if TG_PART == 4
/* ------------------------------------------------------------------------------------------- iv_signal.c */
#include "iv_signal.c"

/* (signum, exclusive, this_thread); the array gives the address order */
static const int tg_sig_univ[][3] = {
	{ 2, 1, 0 }, { 1, 0, 0 }, { 1, 1, 1 }, { 2, 0, 1 }, { 1, 1, 0 }, { 2, 1, 1 }, { 1, 0, 1 }, { 2, 0, 0 },
};
#define TG_NSIGOBJ (sizeof(tg_sig_univ) / sizeof(tg_sig_univ[0]))

void tg_signal(void)
{
	static struct iv_signal objs[TG_NSIGOBJ];
	unsigned int i, j;

	for (i = 0; i < TG_NSIGOBJ; i++) {
		memset(&objs[i], 0, sizeof(objs[i]));
		objs[i].signum = tg_sig_univ[i][0];
		objs[i].flags = (tg_sig_univ[i][1] ? IV_SIGNAL_FLAG_EXCLUSIVE : 0) |
				(tg_sig_univ[i][2] ? IV_SIGNAL_FLAG_THIS_THREAD : 0);
		printf("SO %u %d %d %d\n", i, tg_sig_univ[i][0], tg_sig_univ[i][1], tg_sig_univ[i][2]);
	}

	for (i = 0; i < TG_NSIGOBJ; i++)
	for (j = 0; j < TG_NSIGOBJ; j++) {
		int r = iv_signal_compare(&objs[i].an, &objs[j].an);

		printf("SG %u %u %d\n", i, j, r < 0 ? -1 : r > 0 ? 1 : 0);
	}
}
#endif
