#!/usr/bin/env python3
"""T-gen "finite tables": run the pure, finite-domain helper functions of the CURRENT ivykis sources on their
whole domain and emit the complete value tables as Lean data (Ivy/Generated/Tables.lean).

    generate(repo, outdir) -> dict of facts        (hook for gen/gen_all.py; cached by content hash)
    python3 gen/gen_tables.py [repo] [outdir]      (stand-alone; without outdir prints the raw rows)

What runs.  gen/tables_h.c is compiled five times (-DTG_PART=0..4): part 0 is main(), parts 1-4 each
`#include` one real source file (iv_fd.c, iv_fd_epoll.c, iv_fd_poll.c, iv_signal.c) to reach its static
functions and REPLACE that file's object; the other library sources are compiled unmodified from `repo` with
the flags of vlib/common.py CFLAGS_COMMON and everything is linked into one program, which is run once.  Nothing
of the extractor survives the call (temporary directory); only the rows are cached, under
/verif/build/tgen-tables-<hash>.json, where <hash> covers repo/src/*.[ch], repo/config.h, tables_h.c and this file.

What is emitted (namespace Ivy.Generated.Tables; plain tuples of Bool / Nat / Int / String, no imports):
    wanted, epollMask, pollMask, epollEventBand, epollTimerfdEventBand, pollEventBand      -- complete domains
    timespec, timespecCmpNull, exclude                                                     -- fixed sample grids
    signalObjs, signalCompare                                                              -- all pairs of a small universe
    extractorError : String                                                                -- "" when the extractor ran
The theorems that tie the model to these tables are in Ivy/L1/TablesAgree.lean (by `decide`); their table sizes
are pinned there (`example : Tables.xxx.length = n := rfl`), so an extractor that no longer builds or runs
(empty tables + extractorError) breaks the build as well -- the tables can never silently go stale or empty.

The file is only written when its content changes.
"""
import hashlib, json, os, shutil, subprocess, sys, tempfile

# the library sources linked unmodified next to the four white-box parts (= vlib/common.py LIB_SOURCES minus the
# four files that tables_h.c includes)
PARTS = {1: "iv_fd.c", 2: "iv_fd_epoll.c", 3: "iv_fd_poll.c", 4: "iv_signal.c"}
LIB_REST = ["iv_avl.c", "iv_event.c", "iv_event_raw_posix.c", "iv_fatal.c", "iv_fd_pump.c", "iv_inotify.c",
            "iv_main_posix.c", "iv_popen.c", "iv_task.c", "iv_thread_posix.c", "iv_tid_posix.c", "iv_time_posix.c",
            "iv_timer.c", "iv_tls.c", "iv_wait.c", "iv_work.c"]
HERE = os.path.dirname(os.path.abspath(__file__))
EXTRACTOR = os.path.join(HERE, "tables_h.c")
KINDS = ("W", "EM", "PM", "EE", "PE", "TS", "TN", "SO", "SG", "EX")


def cflags(repo):
    return ["-g", "-D_GNU_SOURCE", "-DHAVE_CONFIG_H", f"-I{repo}", f"-I{repo}/src", f"-I{repo}/src/include"]


def tree_hash(repo):
    h = hashlib.sha256(open(os.path.abspath(__file__), "rb").read())
    h.update(open(EXTRACTOR, "rb").read())
    for root, _, files in sorted(os.walk(os.path.join(repo, "src"))):
        for f in sorted(files):
            if f.endswith((".c", ".h")):
                h.update(os.path.relpath(os.path.join(root, f), repo).encode())
                h.update(open(os.path.join(root, f), "rb").read())
    cfg = os.path.join(repo, "config.h")
    if os.path.exists(cfg):
        h.update(open(cfg, "rb").read())
    return h.hexdigest()[:20]


def extract(repo):
    """build the extractor from `repo`, run it, return the list of rows (lists of strings); raises on any failure"""
    d = tempfile.mkdtemp(prefix="tgen-tables-")
    try:
        jobs = []
        for part in (0, 1, 2, 3, 4):
            o = os.path.join(d, f"part{part}.o")
            jobs.append((f"tables_h.c part {part}", o,
                         ["gcc", "-O1"] + cflags(repo) + [f"-DTG_PART={part}", "-c", EXTRACTOR, "-o", o]))
        for src in LIB_REST:
            o = os.path.join(d, "lib_" + src[:-2] + ".o")
            jobs.append((src, o, ["gcc", "-O1"] + cflags(repo) + ["-c", os.path.join(repo, "src", src), "-o", o]))
        procs = [(name, o, subprocess.Popen(cmd, stdout=subprocess.PIPE, stderr=subprocess.STDOUT, text=True))
                 for name, o, cmd in jobs]
        errs = []
        for name, o, p in procs:
            out, _ = p.communicate()
            if p.returncode != 0:
                errs.append(f"{name}: {out.strip()[-400:]}")
        if errs:
            raise RuntimeError("extractor does not compile: " + " | ".join(errs)[:1200])
        exe = os.path.join(d, "tables")
        r = subprocess.run(["gcc", "-o", exe] + [o for _, o, _ in procs] + ["-lpthread"],
                           stdout=subprocess.PIPE, stderr=subprocess.STDOUT, text=True)
        if r.returncode != 0:
            raise RuntimeError("extractor does not link: " + r.stdout.strip()[-800:])
        r = subprocess.run([exe], stdout=subprocess.PIPE, stderr=subprocess.STDOUT, text=True, timeout=60,
                           env={"PATH": os.environ.get("PATH", "/usr/bin:/bin")})
        lines = r.stdout.splitlines()
        if r.returncode != 0 or not lines or lines[-1] != "END":
            raise RuntimeError(f"extractor run failed (exit {r.returncode}): " + " / ".join(lines[-3:])[:400])
        rows = [l.split(" ") for l in lines[:-1]]
        for row in rows:
            if row[0] not in KINDS:
                raise RuntimeError("extractor printed an unknown row: " + " ".join(row)[:200])
        return rows
    finally:
        shutil.rmtree(d, ignore_errors=True)


# ---------------------------------------------------------------------------------------------------- Lean output

def _b(s):
    return "true" if s == "1" else "false"


def _i(s):
    v = int(s)
    return str(v) if v >= 0 else f"({v})"


def _str(hexs):
    """Lean string literal of a hex-encoded byte string (ASCII only)"""
    bs = bytes.fromhex(hexs)
    if bs == b"\x00":
        bs = b""
    out = ['"']
    for c in bs:
        ch = chr(c)
        if ch == "\\":
            out.append("\\\\")
        elif ch == '"':
            out.append('\\"')
        elif ch == "\n":
            out.append("\\n")
        elif ch == "\t":
            out.append("\\t")
        elif ch == "\r":
            out.append("\\r")
        elif 32 <= c < 127:
            out.append(ch)
        else:
            out.append("\\x%02x" % c)
    out.append('"')
    return "".join(out)


CHUNK = 42      # tables longer than 64 rows are emitted as chunks of this many rows (cheap to elaborate, shallow terms)


def _table(name, typ, doc, rows, per_line=1):
    """small tables: one list of tuples.  Large tables: rows written as applications of a typed row constructor
    `name.row` (the elaborator then knows the type of every literal: ~5x faster than anonymous tuples) in chunk
    definitions `name.c<k>`, and `name` is their concatenation."""
    if len(rows) <= 64:
        out = [f"/-- {doc} -/", f"def {name} : List ({typ}) := ["]
        cells = ["(" + ", ".join(r) + ")" for r in rows]
        for k in range(0, len(cells), per_line):
            out.append("  " + ", ".join(cells[k:k + per_line]) + ("," if k + per_line < len(cells) else ""))
        out += ["]", ""]
        return out
    cols = [t.strip() for t in typ.split("×")]
    args = " ".join(f"(x{k} : {t})" for k, t in enumerate(cols))
    out = [f"def {name}.row {args} : {typ} := (" + ", ".join(f"x{k}" for k in range(len(cols))) + ")"]
    n = 0
    for k in range(0, len(rows), CHUNK):
        out.append(f"def {name}.c{n} : List ({typ}) := [")
        chunk = rows[k:k + CHUNK]
        for j in range(0, len(chunk), per_line):
            line = ", ".join(f"{name}.row " + " ".join(c if c[0] in "(\"" or " " not in c else f"({c})" for c in r)
                             for r in chunk[j:j + per_line])
            out.append("  " + line + ("," if j + per_line < len(chunk) else ""))
        out.append("]")
        n += 1
    out.append(f"/-- {doc} -/")
    out.append(f"def {name} : List ({typ}) :=")
    names = [f"{name}.c{j}" for j in range(n)]
    for j in range(0, n, 8):
        out.append("  " + " ++ ".join(names[j:j + 8]) + (" ++" if j + 8 < n else ""))
    out.append("")
    return out


def render(rows, error):
    by = {k: [r[1:] for r in rows if r[0] == k] for k in KINDS}
    so = by["SO"]
    if [r[0] for r in so] != [str(k) for k in range(len(so))]:
        raise RuntimeError("SO rows are not numbered 0..n-1")
    L = ["-- GENERATED by /verif/gen/gen_tables.py: value tables obtained by EXECUTING the real functions of the",
         "-- ivykis sources (white-box extractor gen/tables_h.c, rebuilt from the current tree). Do not edit.",
         "-- Band sets are coded in = 1, out = 2, err = 4 (+ 8: some other bit was set).",
         "namespace Ivy.Generated.Tables",
         "",
         "/-- \"\" when the extractor was built and ran; otherwise why it did not (and every table is empty) -/",
         "def extractorError : String := " + (_str(error.encode("ascii", "replace").hex()) if error else '""'),
         ""]
    L += _table("wanted", "Bool × Bool × Bool × Bool × Nat",
                "iv_fd.c `recompute_wanted_flags`: (registered, handler_in ≠ NULL, handler_out ≠ NULL, handler_err ≠ NULL, wanted_bands)",
                [[_b(r[0]), _b(r[1]), _b(r[2]), _b(r[3]), r[4]] for r in by["W"]], 4)
    L += _table("epollMask", "Nat × Bool × Bool × Nat",
                "iv_fd_epoll.c `bits_to_poll_mask`: (bands, EPOLLIN set, EPOLLOUT set, all other bits of the result)",
                [[r[0], _b(r[1]), _b(r[2]), r[3]] for r in by["EM"]], 4)
    L += _table("pollMask", "Nat × Bool × Bool × Bool × Nat",
                "iv_fd_poll.c `bits_to_poll_mask`: (bands, POLLIN set, POLLOUT set, POLLHUP set, all other bits of the result)",
                [[r[0], _b(r[1]), _b(r[2]), _b(r[3]), r[4]] for r in by["PM"]], 4)
    ev = lambda rs: [[_b(r[0]), _b(r[1]), _b(r[2]), _b(r[3]), r[4], _b(r[5])] for r in rs]
    L += _table("epollEventBand", "Bool × Bool × Bool × Bool × Nat × Bool",
                "`iv_fd_epoll_poll` driven with one scripted event: (EPOLLIN, EPOLLOUT, EPOLLERR, EPOLLHUP reported, "
                "resulting ready_bands, descriptor was put on the active list)",
                ev([r[1:] for r in by["EE"] if r[0] == "0"]), 4)
    L += _table("epollTimerfdEventBand", "Bool × Bool × Bool × Bool × Nat × Bool",
                "`iv_fd_epoll_timerfd_poll`, same experiment", ev([r[1:] for r in by["EE"] if r[0] == "1"]), 4)
    L += _table("pollEventBand", "Bool × Bool × Bool × Bool × Nat × Bool",
                "`iv_fd_poll_activate_fds` on a one-entry pfds/fds array: (POLLIN, POLLOUT, POLLERR, POLLHUP in revents, "
                "resulting ready_bands, descriptor was put on the active list)", ev(by["PE"]), 4)
    L += _table("timespec", "Int × Int × Int × Int × Bool × Int × Int × Int × Int",
                "SAMPLED grid. (a.sec, a.nsec, b.sec, b.nsec, `timespec_gt(a,b)`, `to_relative` with now = b, abs = a "
                "(sec, nsec), `to_msec` with now = b, abs = a, `timespec_cmp(a,b)`)",
                [[_i(r[0]), _i(r[1]), _i(r[2]), _i(r[3]), _b(r[4]), _i(r[5]), _i(r[6]), _i(r[7]), _i(r[8])] for r in by["TS"]], 3)
    L += _table("timespecCmpNull", "Int × Int × Int", "(b.sec, b.nsec, `timespec_cmp(NULL, b)`)",
                [[_i(r[0]), _i(r[1]), _i(r[2])] for r in by["TN"]], 7)
    L += _table("signalObjs", "Nat × Bool × Bool",
                "the iv_signal objects of the comparator experiment, in address order: (signum, EXCLUSIVE, THIS_THREAD)",
                [[r[1], _b(r[2]), _b(r[3])] for r in so], 8)
    L += _table("signalCompare", "Nat × Nat × Int", "(i, j, sign of `iv_signal_compare(obj i, obj j)`)",
                [[r[0], r[1], _i(r[2])] for r in by["SG"]], 8)
    L += _table("exclude", "Option String × String × Bool",
                "SAMPLE. (IV_EXCLUDE_POLL_METHOD value or none = NULL, method name, `method_is_excluded` ≠ 0)",
                [["none" if r[0] == "-" else "some " + _str(r[0]), _str(r[1]), _b(r[2])] for r in by["EX"]], 1)
    L.append("end Ivy.Generated.Tables\n")
    return "\n".join(L)


def _write_if_changed(path, text):
    if os.path.exists(path) and open(path).read() == text:
        return False
    tmp = path + ".tmp%d" % os.getpid()
    with open(tmp, "w") as f:
        f.write(text)
    os.replace(tmp, path)
    return True


def generate(repo, outdir):
    """regenerate Ivy/Generated/Tables.lean from `repo`; cached by the hash of the sources, the extractor and this file"""
    os.makedirs(outdir, exist_ok=True)
    verif = os.path.dirname(HERE)
    cache_dir = os.path.join(verif, "build")
    os.makedirs(cache_dir, exist_ok=True)
    cache = os.path.join(cache_dir, f"tgen-tables-{tree_hash(repo)}.json")
    data = None
    if os.path.exists(cache):
        try:
            data = json.load(open(cache))
        except Exception:
            data = None
    if data is None:
        try:
            data = {"rows": extract(repo), "error": None}
        except Exception as e:          # never silently stale: empty tables with the reason recorded
            data = {"rows": [], "error": f"{type(e).__name__}: {e}"}
        for e in os.listdir(cache_dir):
            if e.startswith("tgen-tables-") and e.endswith(".json"):
                try:
                    os.unlink(os.path.join(cache_dir, e))
                except OSError:
                    pass
        if data["error"] is None:       # failures are not cached: a transient failure must not stick
            tmp = cache + ".tmp%d" % os.getpid()
            with open(tmp, "w") as f:
                json.dump(data, f)
            os.replace(tmp, cache)
    try:
        text = render(data["rows"], data["error"])
    except Exception as e:
        data = {"rows": [], "error": f"{type(e).__name__}: {e}"}
        text = render([], data["error"])
    _write_if_changed(os.path.join(outdir, "Tables.lean"), text)
    counts = {}
    for r in data["rows"]:
        counts[r[0]] = counts.get(r[0], 0) + 1
    return {"TGEN_tables_rows": counts, "TGEN_tables_error": data["error"]}


if __name__ == "__main__":
    repo = sys.argv[1] if len(sys.argv) > 1 else os.environ.get("IVY_REPO", "/repo")
    if len(sys.argv) > 2:
        print(generate(repo, sys.argv[2]))
    else:
        for row in extract(repo):
            print(" ".join(row))
