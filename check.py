#!/usr/bin/env python3
"""Entry point: ./check.py <Cxx> [--tier quick|thorough]   |   ./check.py replay <path>   |   ./check.py pin"""
import argparse, importlib, json, os, sys, time
sys.path.insert(0, os.path.dirname(os.path.abspath(__file__)))
from vlib import common


def pin():
    """Record theorem names and statement-file hashes in lean/obligations.json (run by the author, never by a check)."""
    import re
    ob = {}
    pd = os.path.join(common.LEAN, "Ivy", "Props")
    for f in sorted(os.listdir(pd)):
        if not f.endswith(".lean"):
            continue
        prop = f[:-5]
        src = common.strip_comments(open(os.path.join(pd, f)).read())
        ns = re.search(r"namespace\s+(\S+)", src).group(1)
        thms = [ns + "." + m.group(1) for m in re.finditer(r"^theorem\s+(\S+)", src, flags=re.M)]
        ob[prop] = {"module": f"Ivy.Props.{prop}", "theorems": thms, "props_sha256": common.props_hash(prop)}
    json.dump(ob, open(os.path.join(common.LEAN, "obligations.json"), "w"), indent=1)
    print("pinned", {k: len(v["theorems"]) for k, v in ob.items()})


def main():
    if len(sys.argv) >= 2 and sys.argv[1] == "pin":
        return pin()
    if len(sys.argv) >= 3 and sys.argv[1] == "replay":
        path = sys.argv[2]
        prop = None
        for l in open(path):
            if l.startswith("# property "):
                prop = l.split()[2].rstrip(":")
                break
        if prop is None:
            print("cannot tell which property", path, "belongs to"); return 2
        mod = importlib.import_module("vlib." + prop.lower())
        return mod.replay(path)
    ap = argparse.ArgumentParser()
    ap.add_argument("prop")
    ap.add_argument("--tier", default=os.environ.get("VERIF_TIER", "quick"), choices=["quick", "thorough"])
    a = ap.parse_args()
    seed = int(os.environ.get("VERIF_SEED", "1"))
    t0 = time.time()
    mod = importlib.import_module("vlib." + a.prop.lower())
    proof = common.proof_phase(a.prop)
    if a.tier == "thorough" and not proof["failures"]:
        proof["failures"] += common.leanchecker(getattr(mod, "LEANCHECK_MODULES", []))
    res = mod.run(a.tier, seed, proof)
    search = (lambda: mod.search(a.tier, seed, proof)) if hasattr(mod, "search") else None
    return common.finish(a.prop, a.tier, seed, proof, res, t0, search)


if __name__ == "__main__":
    sys.exit(main() or 0)
