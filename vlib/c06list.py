"""C06 extension (pointer level): the intrusive circular doubly-linked list of iv_list.h and __iv_list_steal_elements of
iv_private.h -- T-diff of the REAL inline functions (harness/list_h.c) against the pointer-level Lean model Ivy.L0.ListPtr
(`ivyreplay listptr`; refinement to Lean lists proved in Ivy.Props.C06list), plus an independent reference (plain Python
lists) that judges the implementation's output alone.  Not a plugin of its own: vlib/c06.py calls check()."""
import concurrent.futures, os, random, re
from . import common

HARNESS = os.path.join(common.BUILD, "list_h")
N, NH = 64, 4
OPKINDS = ["init", "add", "addtail", "del", "delinit", "empty", "splice", "spliceinit", "splicetail", "splicetailinit",
           "steal", "walk", "walksafe", "dump"]


def build():
    return common.cc(HARNESS, [os.path.join(common.VERIF, "harness", "list_h.c")])


# ---------------------------------------------------------------- reference model: plain lists
class Ref:
    """heads: state 'uninit' | 'live' | 'stale' and (when live) a Python list of element ids;
    elements: ('raw',) NULL fields | ('self',) self-linked | ('in', h)"""

    def __init__(self):
        self.hstate = ["uninit"] * NH
        self.lists = [[] for _ in range(NH)]
        self.est = {x: ("raw",) for x in range(NH, N)}

    @staticmethod
    def ring(xs):
        return "F " + " ".join([str(x) for x in xs] + ["."]) + " B " + " ".join([str(x) for x in reversed(xs)] + ["."])

    def apply(self, op):
        """returns the exact line the implementation must print, or None when the line is not predicted (ring of a stale head)"""
        w = op.split()
        k, args = w[0], w[1:]
        try:
            ids = [int(a) for a in args]
        except ValueError:
            return "bad-op"
        if any(a < 0 for a in ids) or not re.fullmatch(r"[0-9 ]*", " ".join(args)):
            return "bad-op"
        idargs = ids[:1] if k == "walksafe" else ids
        if any(a >= N for a in idargs):
            return "bad-op"
        arity = {"init": 1, "add": 2, "addtail": 2, "del": 1, "delinit": 1, "empty": 1, "splice": 2, "spliceinit": 2,
                 "splicetail": 2, "splicetailinit": 2, "steal": 2, "walk": 1, "walksafe": 2, "dump": 1}
        if k not in arity or arity[k] != len(ids):
            return "bad-op"
        if k == "init":
            a = ids[0]
            if a < NH:
                if self.hstate[a] == "live" and self.lists[a]:
                    return "skip"
                self.hstate[a] = "live"; self.lists[a] = []
            else:
                if self.est[a][0] == "in":
                    return "skip"
                self.est[a] = ("self",)
            return "init " + self.ring([])
        if k in ("add", "addtail"):
            x, h = ids
            if not (x >= NH and h < NH and self.hstate[h] == "live" and self.est[x][0] != "in"):
                return "skip"
            if k == "add":
                self.lists[h].insert(0, x)
            else:
                self.lists[h].append(x)
            self.est[x] = ("in", h)
            return k + " " + self.ring(self.lists[h])
        if k in ("del", "delinit"):
            x = ids[0]
            if not (x >= NH and self.est[x][0] != "raw"):
                return "skip"
            tail = ""
            if self.est[x][0] == "in":
                h = self.est[x][1]
                self.lists[h].remove(x)
                tail = " " + self.ring(self.lists[h])
            if k == "del":
                self.est[x] = ("raw",)
                return "del n=N p=N" + tail
            self.est[x] = ("self",)
            return f"delinit n={x} p={x}" + tail
        if k == "empty":
            a = ids[0]
            if a < NH:
                return "empty 1" if (self.hstate[a] == "live" and not self.lists[a]) else "empty 0"
            return "empty 1" if self.est[a][0] == "self" else "empty 0"
        if k in ("splice", "spliceinit", "splicetail", "splicetailinit"):
            a, b = ids
            if not (a < NH and b < NH and a != b and self.hstate[a] == "live" and self.hstate[b] == "live"):
                return "skip"
            ys = self.lists[a]
            reinit = k.endswith("init")
            self.lists[b] = (self.lists[b] + ys) if "tail" in k else (ys + self.lists[b])
            for y in ys:
                self.est[y] = ("in", b)
            if ys:
                fa = f"n={ys[0]} p={ys[-1]}"       # non-init: the source head is not written
                if reinit:
                    fa = f"n={a} p={a}"
                    self.lists[a] = []
                else:
                    self.hstate[a] = "stale"; self.lists[a] = []
            else:
                fa = f"n={a} p={a}"
            return f"{k} {fa} " + self.ring(self.lists[b]) + (" | " + self.ring([]) if reinit else "")
        if k == "steal":
            a, b = ids
            if not (a < NH and b < NH and a != b and self.hstate[a] == "live"
                    and (self.hstate[b] != "live" or not self.lists[b])):
                return "skip"
            self.lists[b] = self.lists[a]; self.lists[a] = []
            self.hstate[b] = "live"
            for y in self.lists[b]:
                self.est[y] = ("in", b)
            return "steal " + self.ring([]) + " | " + self.ring(self.lists[b])
        if k == "walk":
            h = ids[0]
            if not (h < NH and self.hstate[h] == "live"):
                return "skip"
            return " ".join(["walk"] + [str(x) for x in self.lists[h]] + ["."])
        if k == "walksafe":
            h, mask = ids
            if not (h < NH and self.hstate[h] == "live"):
                return "skip"
            seen = list(self.lists[h])
            keep = []
            for i, x in enumerate(seen):
                if (mask >> i) & 1:
                    self.est[x] = ("raw",)
                else:
                    keep.append(x)
            self.lists[h] = keep
            return " ".join(["walksafe"] + [str(x) for x in seen] + ["."]) + " | " + self.ring(keep)
        if k == "dump":
            a = ids[0]
            if a < NH:
                if self.hstate[a] == "live":
                    return "dump " + self.ring(self.lists[a])
                if self.hstate[a] == "uninit":
                    return "dump F N B N"
                return None                         # stale head: fields point into another ring; not predicted
            e = self.est[a]
            if e[0] == "raw":
                return "dump F N B N"
            if e[0] == "self":
                return "dump " + self.ring([])
            h = e[1]
            r = [h] + self.lists[h]                 # the ring seen from element a: rotate so that a comes first, drop a
            i = r.index(a)
            return "dump " + self.ring(r[i + 1:] + r[:i])
        return "bad-op"


def ring_self_consistent(line):
    """every 'F a b c . B c b a .' group in a line must have forward == reverse(backward), both terminated by '.'"""
    for m in re.finditer(r"F ((?:[0-9]+ )*)([.N!?]) B ((?:[0-9]+ )*)([.N!?])", line):
        f, ft, b, bt = m.group(1).split(), m.group(2), m.group(3).split(), m.group(4)
        if ft == "." and bt == "." and f != list(reversed(b)):
            return f"ring forward {f} is not the reverse of ring backward {b}"
    return None


def oracle(ops, out):
    """Independent statement of the list contract on the implementation's output alone. Returns None or (op index, short, message)."""
    ref = Ref()
    for i, op in enumerate(ops):
        exp = ref.apply(op)
        if i >= len(out):
            return (i, "crash", f"implementation produced {len(out)} lines for {len(ops)} ops: died at op #{i} '{op}'")
        got = out[i]
        if exp is None:
            continue
        if got != exp:
            k = op.split()[0]
            why = ring_self_consistent(got)
            cut = lambda t: t if len(t) <= 160 else t[:150] + " ...[cut]"
            return (i, k, f"after op #{i} '{op}': implementation printed '{cut(got)}', list semantics require '{cut(exp)}'" + (f" ({why})" if why else ""))
    return None


# ---------------------------------------------------------------- generator
def gen_ops(rng, n):
    """mostly valid ops (the generator follows the reference model), ~8% arbitrary ones (mostly refused with `skip`)"""
    ref = Ref()
    ops = []
    heads = list(range(NH))
    span = rng.choice([8, 16, 30, N - NH])          # how many element ids are in play: small spans make lists collide more
    elems = list(range(NH, NH + span))
    while len(ops) < n:
        live = [h for h in heads if ref.hstate[h] == "live"]
        free = [x for x in elems if ref.est[x][0] != "in"]
        linked = [x for x in elems if ref.est[x][0] == "in"]
        selfl = [x for x in elems if ref.est[x][0] == "self"]
        r = rng.random()
        op = None
        if r < 0.08:
            k = rng.choice(OPKINDS)
            a, b = rng.randrange(N if rng.random() < 0.5 else 8), rng.randrange(N if rng.random() < 0.5 else 8)
            op = f"{k} {a}" if k in ("init", "del", "delinit", "empty", "walk", "dump") else f"{k} {a} {b}"
        elif not live or r < 0.12:
            cand = [h for h in heads if ref.hstate[h] != "live" or not ref.lists[h]]
            if cand and rng.random() < 0.8:
                op = f"init {rng.choice(cand)}"
            elif free:
                op = f"init {rng.choice(free)}"
        elif r < 0.45 and free:
            op = f"{rng.choice(['add', 'addtail', 'addtail'])} {rng.choice(free)} {rng.choice(live)}"
        elif r < 0.57 and (linked or selfl):
            x = rng.choice(linked) if (linked and (not selfl or rng.random() < 0.9)) else rng.choice(selfl)
            op = f"{rng.choice(['del', 'del', 'delinit'])} {x}"
        elif r < 0.60:
            op = f"empty {rng.choice(heads + elems)}"
        elif r < 0.72 and len(live) >= 2:
            a, b = rng.sample(live, 2)
            op = f"{rng.choice(['splice', 'spliceinit', 'splicetail', 'splicetailinit', 'spliceinit', 'splicetailinit'])} {a} {b}"
        elif r < 0.78 and live:
            a = rng.choice(live)
            cand = [b for b in heads if b != a and (ref.hstate[b] != "live" or not ref.lists[b])]
            if cand:
                op = f"steal {a} {rng.choice(cand)}"
        elif r < 0.85 and live:
            op = f"walk {rng.choice(live)}"
        elif r < 0.92 and live:
            h = rng.choice(live)
            n_el = len(ref.lists[h])
            mask = rng.choices([0, (1 << 60) - 1, rng.getrandbits(max(1, n_el)), rng.getrandbits(max(1, n_el)) & rng.getrandbits(max(1, n_el))],
                               weights=[1, 1, 3, 7])[0]
            op = f"walksafe {h} {mask}"
        else:
            op = f"dump {rng.choice(heads + elems)}"
        if op is None:
            continue
        ref.apply(op)
        ops.append(op)
    return ops


# ---------------------------------------------------------------- running
def run_both(ops):
    text = "\n".join(ops) + "\n"
    a = common.run_cmd([HARNESS], text, timeout=300)
    b = common.run_cmd([common.REPLAY_BIN, "listptr"], text, timeout=300)
    return a, b


def impl_fails(ops):
    a = common.run_cmd([HARNESS], "\n".join(ops) + "\n", timeout=120)
    return oracle(ops, [l.rstrip() for l in a.stdout.splitlines()]) is not None or a.returncode != 0


def check(tier, seed, res):
    """N random op files through harness (real iv_list.h) and `ivyreplay listptr` (Lean pointer model): the reference oracle judges the
    implementation (res.impl_violations), then the two outputs are compared line by line (res.divergences)."""
    ok, log = build()
    if not ok:
        res.divergences.append(("harness list_h.c (iv_list.h / iv_private.h) no longer compiles: " + log[-400:], None))
        return res
    nfiles, nops = (60, 300) if tier == "quick" else (1500, 600)
    rng = random.Random(f"c06list-{seed}")
    cases = [(f"list-{i}", gen_ops(random.Random(rng.getrandbits(64)), nops)) for i in range(nfiles)]
    dist = {k: 0 for k in OPKINDS}
    executed = {k: 0 for k in OPKINDS}
    total = 0
    ex = concurrent.futures.ThreadPoolExecutor(max_workers=common.NCPU)
    outs = ex.map(lambda c: run_both(c[1]), cases)
    for (name, ops), (a, b) in zip(cases, outs):
        res.evaluations += 1
        total += len(ops)
        al = [l.rstrip() for l in a.stdout.splitlines()]
        bl = [l.rstrip() for l in b.stdout.splitlines()]
        for op, line in zip(ops, al):
            k = op.split()[0]
            dist[k] += 1
            if line not in ("skip", "bad-op"):
                executed[k] += 1
        bad = oracle(ops, al)
        if bad is None and a.returncode != 0:
            bad = (len(al), "crash", f"harness exit {a.returncode}")
        if bad is not None:
            i, short, msg = bad
            small = common.shrink(ops[:i + 1], impl_fails, keep_head=0)
            if not impl_fails(small):
                small = ops[:i + 1]
            a2 = common.run_cmd([HARNESS], "\n".join(small) + "\n", timeout=120)
            bad2 = oracle(small, [l.rstrip() for l in a2.stdout.splitlines()])
            if bad2 is not None:
                short, msg = bad2[1], bad2[2]
            p = common.write_case("C06", name, small, tier, seed, ext="listops")
            san = common.san_line(a.stderr) or common.san_line(a2.stderr)
            res.impl_violations.append((f"C06:list:{short}", f"iv_list.h violates the list contract: {msg} {san}".strip(), p))
        else:
            d = next((j for j in range(max(len(al), len(bl))) if j >= len(al) or j >= len(bl) or al[j] != bl[j]), None)
            if d is not None or b.returncode != 0:
                d = d if d is not None else 0
                p = common.write_case("C06", name, ops[:d + 1], tier, seed, ext="listops")
                res.divergences.append((f"pointer-level model Ivy.L0.ListPtr and iv_list.h disagree at op #{d} '{ops[min(d, len(ops) - 1)]}': "
                                        f"impl={al[d] if d < len(al) else '<none>'} model={bl[d] if d < len(bl) else '<none>'}", p))
        if len(res.impl_violations) + len(res.divergences) >= 5:
            break
    res.extra["list_ops_compared"] = total
    res.extra["list_ops_distribution"] = {k: {"generated": dist[k], "executed_not_refused": executed[k]} for k in OPKINDS}
    res.assumptions.append("intrusive lists: pointer-level model Ivy.L0.ListPtr (heap of {next,prev} records; refinement to Lean lists, frame and "
                           "separation proved in Ivy.Props.C06list) tied to iv_list.h/__iv_list_steal_elements by a differential run over 64 static "
                           "records; addresses are abstract (Nat), struct layout / container_of offsets are not modelled")
    return res


def replay(path):
    """re-run a .listops case (or a replay-*.txt written by common.finish for a 'C06:list:' signature)"""
    ops = [l.strip() for l in open(path) if l.strip() and not l.startswith("#")]
    ok, log = build()
    if not ok:
        print(log); return 2
    common.lean_build(["ivyreplay"])
    a, b = run_both(ops)
    al = [l.rstrip() for l in a.stdout.splitlines()]
    bl = [l.rstrip() for l in b.stdout.splitlines()]
    for i, op in enumerate(ops):
        x, y = (al[i] if i < len(al) else "<none>"), (bl[i] if i < len(bl) else "<none>")
        print(f"#{i} {op}\n    impl : {x}" + ("" if x == y else f"\n    model: {y}"))
    if a.stderr.strip():
        print("--- implementation stderr:", common.san_line(a.stderr) or a.stderr.strip().splitlines()[-1])
    bad = oracle(ops, al)
    print("--- oracle:", bad[2] if bad else "ok")
    return 1 if (bad or a.returncode != 0 or al != bl) else 0
