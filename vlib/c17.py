"""C17: iv_fd_pump — T-replay: the real iv_fd_pump.c (white-box include, scripted read/write/splice/
ioctl results, several live pumps on one thread sharing the real per-thread buffer cache, real pipes
whose content is tracked per pipe) writes a log; the Lean thread machine Ivy.L3.PumpCache (on top of
Ivy.L3.Pump) replays it and must predict every call, set_bands, return value, buffer ownership and the
cache length / buffers alive after every operation. An independent per-slot stream oracle checks the
implementation's log alone."""
import glob, hashlib, os, random, re
from . import common

PROP = "C17"
LEANCHECK_MODULES = ["Ivy.L3.Pump", "Ivy.L3.PumpProofs", "Ivy.L3.PumpCache", "Ivy.L3.PumpCacheProofs", "Ivy.Props.C17"]
HARNESS = os.path.join(common.BUILD, "pump_h")
CORPUS = os.path.join(common.VERIF, "corpus", PROP)
MAX_CACHED = 20     # replaced by the value extracted from the source (gen facts) in run()



def for_model(log):
    """the harness' ground-truth records (TRUTH ...) are for the implementation-side oracle only; the model sees what the code did"""
    return "".join(l for l in log.splitlines(True) if not l.startswith("TRUTH "))

def build():
    ok, objs, log = common.build_lib()
    if not ok:
        return False, log
    objs = [o for o in objs if not o.endswith("iv_fd_pump.o")]
    return common.cc(HARNESS, [os.path.join(common.VERIF, "harness", "pump_h.c")] + objs,
                     extra=[f'-DPUMP_SRC="{common.REPO}/src/iv_fd_pump.c"'])


class _P:
    """what the log says about one live pump"""
    def __init__(self, relay):
        self.relay = relay
        self.src = self.sink = 0
        self.eof = False
        self.shut = 0
        self.full = False
        self.err = False
        self.last_bands = None
        self.buf = 0
        self.broken = False


def oracle(log, bufsize=4096, max_cached=None, stats=None):
    """C17 stated on the implementation's own log, per pump: byte stream (content and order, no bytes of
    another pump's stream), EOF relay, return values, bands; and for the thread: cached buffers are empty
    and bounded, buffers alive = held by live pumps + cached, nothing alive after thread deinit.
    No model involved. Returns None or the first violation (stream-level ones take precedence over the
    white-box cache observations)."""
    max_cached = MAX_CACHED if max_cached is None else max_cached
    slots = {}
    splice = None
    cur = None
    inpump = False
    fallback = None
    st = stats if stats is not None else {}
    for key in ("max_live", "pumps_created", "error_with_data", "final_seen"):
        st.setdefault(key, 0)
    st.setdefault("cache_depth", {})
    for n, l in enumerate(log, 1):
        w = l.split()
        if not w:
            continue
        P = slots.get(cur)
        if w[0] == "MODE":
            splice = int(w[1])
        elif w[0] == "NEW":
            cur = int(w[1])
            slots[cur] = _P(int(w[3]))
            st["pumps_created"] += 1
            st["max_live"] = max(st["max_live"], len(slots))
        elif w[0] == "ENDNEW":
            splice = int(w[2]); cur = None
        elif w[0] == "PUMP":
            cur = int(w[1]); inpump = True
            P = slots.get(cur)
            if P is None:
                return f"line {n}: harness error: pump on a slot without pump"
            P.err = False; P.last_bands = None
        elif w[0] == "DESTROY":
            cur = int(w[1])
        elif w[0] == "ENDDESTROY":
            if int(w[2]) != 0:
                return f"line {n}: slot {cur}: pump still owns a buffer after destroy"
            slots.pop(cur, None); cur = None
        elif w[0] == "OUT":
            if w[1] in ("BADCOOKIE",) or (len(w) > 2 and w[2] == "BADARGS"):
                return f"line {n}: slot {cur}: callback/shutdown with foreign arguments"
            if P is None or not inpump:
                continue
            if w[1] == "read":
                if int(w[2]) == 0:
                    return f"line {n}: read issued with count 0 (fakes an end-of-file)"
                if P.eof:
                    return f"line {n}: read issued after end-of-file was seen"
            elif w[1] == "write":
                if int(w[2]) != P.src - P.sink:
                    return f"line {n}: write offered {w[2]} bytes but {P.src - P.sink} are buffered"
            elif w[1] == "shutdown":
                P.shut += 1
                if not P.relay:
                    return f"line {n}: output shut down although EOF relay was not requested"
                if not P.eof or P.sink != P.src:
                    return f"line {n}: EOF relayed before all buffered data was delivered (src={P.src} sink={P.sink})"
                if P.shut > 1:
                    return f"line {n}: output shut down twice"
            elif w[1] == "setBands":
                P.last_bands = (int(w[2]), int(w[3]))
        elif w[0] == "BADFD":
            return f"line {n}: I/O on a foreign or closed descriptor ({' '.join(w[1:])})"
        elif w[0] == "HANG":
            return f"line {n}: slot {cur}: blocking splice issued on an empty pipe (the call would never return)"
        elif w[0] == "HARNESS":
            return f"line {n}: harness limit: {l}"
        elif w[0] == "EV":
            if P is None:
                continue
            if w[1] == "rd":
                if w[2] == "data":
                    P.src += int(w[3])
                    if not splice and P.src - P.sink > bufsize:
                        return f"line {n}: more than BUF_SIZE bytes buffered"
                elif w[2] == "eof":
                    P.eof = True
                elif w[2] == "err":
                    P.err = True
            elif w[1] == "fion":
                if int(w[2]) > 0:
                    P.full = True
            elif w[1] == "wr":
                if w[2] == "n":
                    P.sink += int(w[3]); P.full = False
                elif w[2] in ("err", "zero"):
                    P.err = True
        elif w[0] == "TRUTH":
            # splice mode: the kernel refused to take more into a pipe that holds data while input is pending = no buffer space remains
            if P is not None and w[1] == "pending" and int(w[2]) > 0:
                P.full = True
        elif w[0] == "CONTENT":
            if w[1] != "ok":
                why = " ".join(w[2:]) or "content"
                return (f"line {n}: bytes delivered to the output are not the next bytes of this pump's own input stream "
                        f"(loss, duplication, reordering or another pump's bytes: {why})")
        elif w[0] == "RET":
            r = int(w[1])
            if P.sink > P.src:
                return f"line {n}: delivered more than was read"
            if not splice:
                P.full = (P.src - P.sink) == bufsize
            want_done = P.eof and P.sink == P.src
            if P.err:
                if r != -1:
                    return f"line {n}: I/O error consumed but pump returned {r}"
                if P.src - P.sink > 0:
                    st["error_with_data"] += 1
            else:
                if want_done and r != 0:
                    return f"line {n}: all data delivered after EOF but pump returned {r}"
                if not want_done and r != 1:
                    return f"line {n}: pump returned {r} while more remains (eof={P.eof} buffered={P.src-P.sink})"
                if r == 0 and P.relay and P.shut != 1:
                    return f"line {n}: pump done but EOF was not relayed"
                exp = (0, 0) if want_done else ((0, 1) if P.eof else (int(not P.full), int(P.src - P.sink > 0)))
                if P.last_bands != exp:
                    return f"line {n}: bands requested {P.last_bands}, state says {exp} (eof={P.eof} buffered={P.src-P.sink} full={P.full})"
                if int(w[5]) != int(want_done):
                    return f"line {n}: is_done()={w[5]} but done={want_done}"
            P.buf = int(w[3])
            if r < 0:
                P.broken = True
            inpump = False
            cur = None
        elif w[0] == "CACHED":
            nc, alive, fds = int(w[1]), int(w[3]), int(w[4])
            dirty = int(w[10]) if len(w) > 10 else 0
            st["cache_depth"][nc] = st["cache_depth"].get(nc, 0) + 1
            held = sum(1 for q in slots.values() if q.buf)
            if fallback is None:
                if dirty:
                    fallback = f"line {n}: {dirty} cached pipe(s) still hold undelivered bytes (they will reach the output of the next pump that takes the pipe)"
                elif nc > max_cached:
                    fallback = f"line {n}: {nc} buffers cached, more than MAX_CACHED_BUFS={max_cached}"
                elif alive != held + nc:
                    fallback = f"line {n}: buffer accounting: {alive} buffers exist but {held} are held by pumps and {nc} cached (leak or double release)"
                elif fds != (2 * alive if splice else 0):
                    fallback = f"line {n}: descriptor accounting: {fds} pipe descriptors open for {alive} buffers (splice={splice})"
        elif w[0] == "FINAL":
            st["final_seen"] += 1
            if (int(w[2]), int(w[3])) != (0, 0) and fallback is None:
                fallback = f"line {n}: after thread deinit {w[2]} buffers and {w[3]} pipe descriptors are still alive"
    if inpump:
        return "log ends inside a pump call (crash or sanitizer abort)"
    return fallback


# ---------------------------------------------------------------- generators
MODES = ["0", "1", "probe-ok", "probe-fail"]


def pump_evs(rng, big, perr=0.08, peof=0.12):
    r, w, f = [], [], []
    for _ in range(rng.choice([0, 0, 1, 2])):
        r.append("i")
    k = rng.random()
    if k < 1.0 - 0.20 - peof - perr:
        r.append("d%d" % (rng.choice([1, 2, 7, 100, 4095, 4096, 5000, 70000]) if big else rng.choice([1, 2, 3, 9, 50])))
    elif k < 1.0 - peof - perr:
        r.append("a")
    elif k < 1.0 - perr:
        r.append("e")
    else:
        r.append("x")
    for _ in range(rng.choice([0, 0, 1, 2])):
        w.append("i")
    k = rng.random()
    if k < 0.62:
        w.append("n%d" % (rng.choice([1, 2, 5, 100, 4000, 4096, 100000]) if big else rng.choice([1, 2, 3, 9, 50, 1000])))
    elif k < 0.90:
        w.append("a")
    elif k < 0.90 + perr * 0.6:
        w.append("x")
    elif k < 0.90 + perr:
        w.append("z")
    else:
        w.append("a")
    f.append(str(rng.choice([0, 0, 1, 5, -999, -3])))
    return "R " + " ".join(r) + " W " + " ".join(w) + " F " + " ".join(f)


def gen_legacy(rng):
    """one pump at a time, old slot-less op forms (also keeps the old syntax exercised)"""
    ops = []
    for _ in range(rng.choice([1, 2, 3])):
        mode = rng.choice(["0", "0", "1", "1", "probe-ok", "probe-fail"])
        ops.append(f"new {mode} {rng.randrange(2)}")
        big = rng.random() < 0.4
        for _ in range(rng.choice([5, 15, 40])):
            ops.append("pump " + pump_evs(rng, big))
        if rng.random() < 0.5:
            ops += ["pump R e W n1000000", "pump R e W n1000000", "pump"]
        if rng.random() < 0.5:
            ops.append("destroy")
    return ops


def gen_multi(rng):
    """1-4 concurrent pumps with interleaved calls, errors, destroy/re-create, rare mode switches"""
    nslots = rng.choice([1, 2, 2, 3, 3, 4, 4])
    mode = rng.choice(["0", "1", "1", "1", "probe-ok", "probe-fail"])
    ops, live, suspect = [], set(), set()
    big = rng.random() < 0.25
    perr = rng.choice([0.03, 0.08, 0.2])
    for _ in range(rng.choice([20, 40, 80])):
        k = rng.randrange(nslots)
        if k not in live:
            if ops and rng.random() < 0.05:
                mode = rng.choice(MODES)
                live.clear(); suspect.clear()       # the harness destroys every pump on a mode switch
            ops.append(f"new {k} {mode} {rng.randrange(2)}")
            if mode.startswith("probe"):
                mode = "1" if mode == "probe-ok" else "0"   # later pumps keep the probed mode without probing again
            live.add(k)
        elif (k in suspect and rng.random() < 0.7) or rng.random() < 0.05:
            ops.append(f"destroy {k}")
            live.discard(k); suspect.discard(k)
        else:
            ev = pump_evs(rng, big, perr)
            ops.append(f"pump {k} {ev}")
            if " x" in ev or " z" in ev:
                suspect.add(k)
    if rng.random() < 0.5:
        for k in sorted(live):
            ops += [f"pump {k} R e W n1000000", f"pump {k} R e W n1000000"]
    if rng.random() < 0.3:
        ops.append("deinit-purge")
    return ops


def gen_error_reuse(rng):
    """a pump ends with an I/O error while it has data buffered; new pumps on the same thread follow"""
    mode = rng.choice(["1", "1", "1", "probe-ok", "0"])
    ops = []
    nxt = mode
    def new(k):
        nonlocal nxt
        ops.append(f"new {k} {nxt} {rng.randrange(2)}")
        if nxt.startswith("probe"):
            nxt = "1" if nxt == "probe-ok" else "0"
    other = rng.random() < 0.5
    if other:
        new(2)
        ops.append(f"pump 2 R d{rng.choice([1, 4, 30])} W a")
    for rnd in range(rng.choice([1, 1, 2, 3])):
        a = rng.choice([0, 1])
        new(a)
        for _ in range(rng.choice([1, 1, 2])):
            ops.append(f"pump {a} R d{rng.choice([1, 2, 3, 10, 500])} W {rng.choice(['a', 'a', 'n1', 'i a'])}")
        ops.append(f"pump {a} " + rng.choice(["R a W x", "R x", "R d3 W z", "R i x", "R d2 W i x", "R a W z", "R e W x"]))
        if other and rng.random() < 0.5:
            ops.append(f"pump 2 R d{rng.choice([1, 5])} W n{rng.choice([1, 3, 100])}")
        if rng.random() < 0.85:
            ops.append(f"destroy {a}")
        b = rng.choice([0, 1, 3])
        new(b)
        for _ in range(rng.choice([1, 2, 4])):
            ops.append(f"pump {b} R d{rng.choice([1, 2, 5, 40])} W {rng.choice(['n1', 'n2', 'n100', 'a', 'n3'])} F {rng.choice([0, 1])}")
        if rng.random() < 0.7:
            ops += [f"pump {b} R e W n1000000", f"pump {b} R e W n1000000"]
        if rng.random() < 0.5:
            ops.append(f"destroy {b}")
    return ops


def gen_cache_bound(rng):
    """more than MAX_CACHED_BUFS pumps hold a buffer at the same time and release them"""
    n = rng.choice([21, 22, 24, 26, 30])
    mode = rng.choice(["0", "1", "1"])
    ops = [f"new {k} {mode} {rng.randrange(2)}" for k in range(n)]
    for k in range(n):
        ops.append(f"pump {k} R d{rng.choice([1, 3, 8])} W a")
    order = list(range(n)); rng.shuffle(order)
    for k in order:
        c = rng.random()
        if c < 0.25:
            ops.append(f"destroy {k}")                 # rw: cached with data in it; splice: pipe closed
        elif c < 0.35:
            ops.append(f"pump {k} R a W x")            # error with data
        else:
            ops.append(f"pump {k} R a W n100000")      # drained: the buffer goes to the cache
    for k in rng.sample(range(n), rng.choice([3, 8, n])):
        ops.append(f"new {k} {mode} {rng.randrange(2)}")    # (destroys what is left in the slot)
        ops.append(f"pump {k} R d{rng.choice([2, 6])} W n{rng.choice([1, 2, 100])}")
        if rng.random() < 0.5:
            ops += [f"pump {k} R e W n1000000"]
    if rng.random() < 0.5:
        ops.append("deinit-purge")
        ops.append(f"new 0 {mode} 1")
        ops.append("pump 0 R d4 W n4")
    return ops


FAMILIES = [("multi", gen_multi, 45), ("errreuse", gen_error_reuse, 27), ("cachebound", gen_cache_bound, 8), ("legacy", gen_legacy, 20)]


def gen_case(rng, tier):
    x = rng.randrange(100)
    for name, fn, wgt in FAMILIES:
        if x < wgt:
            return name, fn(rng)
        x -= wgt
    return "multi", gen_multi(rng)


def corpus_cases():
    out = []
    for p in sorted(glob.glob(os.path.join(CORPUS, "*.ops"))):
        out.append(("corpus-" + os.path.basename(p)[:-4],
                    [l.strip() for l in open(p) if l.strip() and not l.startswith("#")]))
    return out


def gen_cases(tier, seed):
    rng = random.Random(seed * 104729 + 17)
    for i in range(500 if tier == "quick" else 4000):
        fam, ops = gen_case(rng, tier)
        yield (f"{fam}-{i}", ops)


def run_impl(ops):
    return common.run_cmd([HARNESS], "\n".join(ops) + "\n")


def impl_fails(ops, stats=None):
    a = run_impl(ops)
    log = a.stdout.splitlines()
    msg = oracle(log, stats=stats)
    if msg is None and a.returncode != 0:
        msg = f"harness exit {a.returncode} {common.san_line(a.stderr)}"
    if msg is None and not any(l.startswith("FINAL") for l in log):
        msg = "harness did not reach the end of the run"
    return msg, a


def signature(msg):
    return "pump:" + re.sub(r"\d+", "N", re.sub(r"line \d+: ", "", msg))[:60]


def shrink_impl(ops, msg):
    """smallest op file with the same kind of failure"""
    sig = signature(msg)
    def still(o):
        if not o[0].startswith("new"):
            return False
        m = impl_fails(o)[0]
        return m is not None and signature(m) == sig
    small = common.shrink(ops, still)
    return small, (impl_fails(small)[0] or msg)


def examine(name, ops, tier, seed, res, cov, stats):
    msg, a = impl_fails(ops, stats)
    res.evaluations += 1
    if msg is not None:
        small, msg2 = shrink_impl(ops, msg)
        p = common.write_case(PROP, name, small, tier, seed)
        res.impl_violations.append((signature(msg2), f"implementation violates C17: {msg2}", p))
        return
    b = common.run_cmd([common.REPLAY_BIN, "pump"], for_model(a.stdout))
    div = [l for l in b.stdout.splitlines() if l.startswith(("DIVERGE", "bad-log"))]
    for l in b.stdout.splitlines():
        if l.startswith("COV "):
            _, k, n = l.split()
            cov[k] = cov.get(k, 0) + int(n)
    if div or b.returncode != 0 or "SUMMARY" not in b.stdout:
        def still(o):
            if not o[0].startswith("new"):
                return False
            x = run_impl(o)
            y = common.run_cmd([common.REPLAY_BIN, "pump"], for_model(x.stdout))
            return any(l.startswith("DIVERGE") for l in y.stdout.splitlines())
        small = common.shrink(ops, still) if div else ops
        p = common.write_case(PROP, name, small, tier, seed)
        res.divergences.append((f"model Ivy.L3.PumpCache/Ivy.L3.Pump does not predict iv_fd_pump.c: {(div or ['replayer failed: ' + b.stderr[-200:]])[0][:400]}", p))


def run(tier, seed, proof):
    global MAX_CACHED
    res = common.Result()
    res.rule = ("scripted runs of 1-30 pumps living on ONE thread and sharing the real per-thread buffer cache (never purged between pumps "
                "except on a forced change of transfer mode): families multi (1-4 concurrent slots, interleaved pump calls, destroy/re-create, "
                "mode switches, thread-deinit purge), errreuse (a pump fails with an I/O error while data is buffered, new pumps follow on the "
                "same thread), cachebound (21-30 pumps hold buffers at once and release them: cache bound), legacy (one pump at a time, old "
                "op syntax), plus the corpus files; read/write or splice mode (forced or chosen by the availability probe), with or without "
                "EOF relay, random partial reads/writes (1..70000 bytes), EAGAIN, EINTR chains, EOF, errors, zero-length writes, FIONREAD "
                "values incl. failure. Splice mode tracks the content of every real pipe by inode; every slot has its own byte stream. "
                "Every call the code makes, set_bands, return value, buffer ownership, is_done, delivered-content verdict, cache length, "
                "buffers/descriptors alive and malloc/free counts after every operation are compared with the model's prediction; a "
                "per-slot stream oracle checks the implementation log alone (content, order, isolation between pumps, EOF relay, bands, "
                "return codes, cache emptiness/bound, buffer accounting, nothing alive after thread deinit). non-trivial = the case "
                "contains an EOF, an error, a full buffer or more than one pump; distinct by hash of the op file")
    res.assumptions = ["kernel contract: read/splice return 1..count bytes, write 1..count; malloc/pipe2 do not fail",
                       "splice-mode content order is the kernel pipe's FIFO order; splice(pipe->fd, n) delivers the first n bytes of the pipe",
                       "after iv_fd_pump_pump returned -1 the only call made on that pump is iv_fd_pump_destroy (the harness skips other calls)",
                       "all pumps of a thread use one transfer mode (splice_available is set once per process); a forced mode change in the harness "
                       "destroys all pumps and purges the cache first"]
    MAX_CACHED = int(proof.get("gen", {}).get("PUMP_MAX_CACHED_BUFS", 20) or 20)
    ok, log = build()
    if not ok:
        res.divergences.append(("white-box harness for iv_fd_pump.c no longer compiles: " + log[-400:], None))
        return res
    if not proof["driver_ok"]:
        return res
    cov, stats, fam = {}, {}, {}
    for name, ops in corpus_cases() + list(gen_cases(tier, seed)):
        examine(name, ops, tier, seed, res, cov, stats)
        fam[name.split("-")[0]] = fam.get(name.split("-")[0], 0) + 1
        txt = "\n".join(ops)
        if " e" in txt or " x" in txt or "d4096" in txt or "d5000" in txt or txt.count("new ") > 1:
            res.nontrivial.add(hashlib.sha1(txt.encode()).hexdigest()[:12])
        if len(res.samples) < 3 and not name.startswith("corpus"):
            res.samples.append({"case": name, "ops_head": ops[:8], "n_ops": len(ops)})
        if len(res.impl_violations) + len(res.divergences) >= 4:
            break
    res.extra["model_branch_coverage"] = cov
    res.extra["case_families"] = fam
    res.extra["max_live_pumps_in_a_case"] = stats.get("max_live", 0)
    res.extra["pumps_created"] = stats.get("pumps_created", 0)
    res.extra["cache_depth_histogram_impl"] = {str(k): v for k, v in sorted(stats.get("cache_depth", {}).items())}
    res.extra["error_with_data_buffered_events_impl"] = stats.get("error_with_data", 0)
    res.extra["acquisitions_from_cache_vs_fresh_model"] = {"cached": cov.get("acquire-cached", 0), "fresh": cov.get("acquire-fresh", 0)}
    res.extra["releases_model"] = {k: cov.get(k, 0) for k in ("release-cached", "release-closed-nonempty-pipe", "release-freed-cache-full")}
    return res


def search(tier, seed, proof):
    res = common.Result()
    ok, _ = build()
    if not ok:
        return res
    for s in range(seed + 900, seed + 903):
        for name, ops in corpus_cases() + list(gen_cases("quick", s)):
            res.evaluations += 1
            msg, a = impl_fails(ops)
            if msg:
                small, msg2 = shrink_impl(ops, msg)
                p = common.write_case(PROP, "search-" + name, small, tier, seed)
                res.impl_violations.append((signature(msg2), "implementation violates C17: " + msg2, p))
                return res
    return res


def replay(path):
    ops = [l.strip() for l in open(path) if l.strip() and not l.startswith("#")]
    ok, log = build()
    if not ok:
        print(log); return 2
    common.lean_build(["ivyreplay"])
    a = run_impl(ops)
    print("--- implementation log"); print(a.stdout[-4000:], a.stderr[-2000:])
    b = common.run_cmd([common.REPLAY_BIN, "pump"], for_model(a.stdout))
    print("--- model replay"); print(b.stdout[-2000:])
    msg = oracle(a.stdout.splitlines())
    print("--- oracle:", msg or "ok")
    return 1 if (msg or a.returncode != 0) else 0
