"""C17: iv_fd_pump — T-replay: the real iv_fd_pump.c (white-box include, scripted read/write/splice/
ioctl results) writes a log; the Lean model Ivy.L3.Pump replays it and must predict every call,
set_bands and return value. An independent stream oracle checks the implementation's log alone."""
import hashlib, os, random, re
from . import common

PROP = "C17"
LEANCHECK_MODULES = ["Ivy.L3.Pump", "Ivy.L3.PumpProofs", "Ivy.Props.C17"]
HARNESS = os.path.join(common.BUILD, "pump_h")


def build():
    ok, objs, log = common.build_lib()
    if not ok:
        return False, log
    objs = [o for o in objs if not o.endswith("iv_fd_pump.o")]
    return common.cc(HARNESS, [os.path.join(common.VERIF, "harness", "pump_h.c")] + objs,
                     extra=[f'-DPUMP_SRC="{common.REPO}/src/iv_fd_pump.c"'])


def oracle(log, bufsize=4096):
    """C17 stated on the implementation's own log: byte stream, EOF relay, return values, bands."""
    src = sink = 0
    relay = splice = 0
    eof = done = False
    shut = 0
    full = False
    inpump = False
    outs = []
    err = False
    last_bands = None
    eagain_with_bytes = False
    for n, l in enumerate(log, 1):
        w = l.split()
        if not w:
            continue
        if w[0] == "NEW":
            relay = int(w[2]); src = sink = 0; eof = done = False; shut = 0; full = False
        elif w[0] == "ENDNEW":
            splice = int(w[2])
        elif w[0] == "PUMP":
            inpump = True; outs = []; err = False; last_bands = None
        elif w[0] == "OUT":
            outs.append(w[1:])
            if w[1] == "read":
                if int(w[2]) == 0:
                    return f"line {n}: read issued with count 0 (fakes an end-of-file)"
                if eof:
                    return f"line {n}: read issued after end-of-file was seen"
            elif w[1] == "write":
                if int(w[2]) != src - sink:
                    return f"line {n}: write offered {w[2]} bytes but {src - sink} are buffered"
            elif w[1] == "shutdown":
                shut += 1
                if len(w) > 2:
                    return f"line {n}: shutdown with wrong arguments"
                if not relay:
                    return f"line {n}: output shut down although EOF relay was not requested"
                if not eof or sink != src:
                    return f"line {n}: EOF relayed before all buffered data was delivered (src={src} sink={sink})"
                if shut > 1:
                    return f"line {n}: output shut down twice"
            elif w[1] == "setBands":
                last_bands = (int(w[2]), int(w[3]))
            elif w[1] == "BADFD":
                return f"line {n}: I/O on a foreign descriptor"
        elif w[0] == "BADFD":
            return f"line {n}: I/O on a foreign descriptor"
        elif w[0] == "EV":
            if w[1] == "rd":
                if w[2] == "data":
                    src += int(w[3])
                    if not splice and src - sink > bufsize:
                        return f"line {n}: more than BUF_SIZE bytes buffered"
                elif w[2] == "eof":
                    eof = True
                elif w[2] == "err":
                    err = True
                elif w[2] == "eagain":
                    eagain_with_bytes = splice and (src - sink) > 0
            elif w[1] == "fion":
                if int(w[2]) > 0:
                    full = True
            elif w[1] == "wr":
                if w[2] == "n":
                    sink += int(w[3]); full = False
                elif w[2] in ("err", "zero"):
                    err = True
        elif w[0] == "CONTENT":
            if w[1] != "ok":
                return f"line {n}: bytes offered to the output are not the next bytes of the input stream (loss, duplication or reordering)"
        elif w[0] == "RET":
            r = int(w[1])
            if sink > src:
                return f"line {n}: delivered more than was read"
            if not splice:
                full = (src - sink) == bufsize
            want_done = eof and sink == src
            if err:
                if r != -1:
                    return f"line {n}: I/O error consumed but pump returned {r}"
            else:
                if want_done and r != 0:
                    return f"line {n}: all data delivered after EOF but pump returned {r}"
                if not want_done and r != 1:
                    return f"line {n}: pump returned {r} while more remains (eof={eof} buffered={src-sink})"
                if r == 0 and relay and shut != 1:
                    return f"line {n}: pump done but EOF was not relayed"
                exp = (0, 0) if want_done else ((0, 1) if eof else (int(not full), int(src - sink > 0)))
                if last_bands != exp:
                    return f"line {n}: bands requested {last_bands}, state says {exp} (eof={eof} buffered={src-sink} full={full})"
                if int(w[5]) != int(want_done):
                    return f"line {n}: is_done()={w[5]} but done={want_done}"
            inpump = False
    if inpump:
        return "log ends inside a pump call (crash or sanitizer abort)"
    return None


def gen_case(rng, tier):
    ops = []
    npumps = rng.choice([1, 2, 3])
    for _ in range(npumps):
        mode = rng.choice(["0", "0", "1", "1", "probe-ok", "probe-fail"])
        ops.append(f"new {mode} {rng.randrange(2)}")
        big = rng.random() < 0.4
        for _ in range(rng.choice([5, 15, 40])):
            r, w, f = [], [], []
            for _ in range(rng.choice([0, 1, 1, 2])):
                r.append("i")
            k = rng.random()
            if k < 0.60:
                r.append("d%d" % (rng.choice([1, 2, 7, 100, 4095, 4096, 5000, 70000]) if big else rng.choice([1, 2, 3, 9, 50])))
            elif k < 0.80:
                r.append("a")
            elif k < 0.92:
                r.append("e")
            else:
                r.append("x")
            for _ in range(rng.choice([0, 0, 1, 2])):
                w.append("i")
            k = rng.random()
            if k < 0.65:
                w.append("n%d" % (rng.choice([1, 2, 5, 100, 4000, 4096, 100000]) if big else rng.choice([1, 2, 3, 9, 50, 1000])))
            elif k < 0.90:
                w.append("a")
            elif k < 0.95:
                w.append("x")
            else:
                w.append("z")
            f.append(str(rng.choice([0, 0, 1, 5, -999, -3])))
            ops.append("pump R " + " ".join(r) + " W " + " ".join(w) + " F " + " ".join(f))
        if rng.random() < 0.5:
            # drain to completion
            ops.append("pump R e W n1000000")
            ops.append("pump R e W n1000000")
            ops.append("pump")
        if rng.random() < 0.5:
            ops.append("destroy")
    return ops


def gen_cases(tier, seed):
    rng = random.Random(seed * 104729 + 17)
    for i in range(300 if tier == "quick" else 4000):
        yield (f"rand-{i}", gen_case(rng, tier))


def fix_after_error(ops):
    return ops


def run_impl(ops):
    return common.run_cmd([HARNESS], "\n".join(ops) + "\n")


def impl_fails(ops):
    a = run_impl(ops)
    log = a.stdout.splitlines()
    msg = oracle(log)
    if msg is None and a.returncode != 0:
        msg = f"harness exit {a.returncode} {common.san_line(a.stderr)}"
    return msg, a


def examine(name, ops, tier, seed, res, cov):
    a = run_impl(ops)
    log = a.stdout.splitlines()
    res.evaluations += 1
    msg = oracle(log)
    if msg is None and a.returncode != 0:
        msg = f"harness exit {a.returncode} {common.san_line(a.stderr)}"
    if msg is not None:
        small = common.shrink(ops, lambda o: o[0].startswith("new") and impl_fails(o)[0] is not None)
        msg2 = impl_fails(small)[0] or msg
        p = common.write_case(PROP, name, small, tier, seed)
        res.impl_violations.append(("pump:" + re.sub(r"line \d+: ", "", msg2)[:50], f"implementation violates C17: {msg2}", p))
        return
    b = common.run_cmd([common.REPLAY_BIN, "pump"], a.stdout)
    div = [l for l in b.stdout.splitlines() if l.startswith(("DIVERGE", "bad-log"))]
    for l in b.stdout.splitlines():
        if l.startswith("COV "):
            _, k, n = l.split()
            cov[k] = cov.get(k, 0) + int(n)
    if div or b.returncode != 0 or "SUMMARY" not in b.stdout:
        def still(o):
            if not o[0].startswith("new"):
                return False
            x = run_impl(o)
            y = common.run_cmd([common.REPLAY_BIN, "pump"], x.stdout)
            return any(l.startswith("DIVERGE") for l in y.stdout.splitlines())
        small = common.shrink(ops, still) if div else ops
        p = common.write_case(PROP, name, small, tier, seed)
        res.divergences.append((f"model Ivy.L3.Pump does not predict iv_fd_pump.c: {(div or ['replayer failed: ' + b.stderr[-200:]])[0][:400]}", p))


def run(tier, seed, proof):
    res = common.Result()
    res.rule = ("scripted pump runs: 1-3 pumps per case, each in read/write or splice mode (forced or chosen by the availability probe), with or "
                "without EOF relay, 5-40 pump calls with random partial reads/writes (1..70000 bytes), EAGAIN, EINTR chains, EOF, errors, "
                "zero-length writes, FIONREAD values incl. failure. Every call the code makes, set_bands, return value, buffer ownership and "
                "is_done are compared with the model's prediction; a stream oracle checks the implementation log alone (content, order, EOF "
                "relay, bands, return codes). non-trivial = the case reached EOF-with-buffered-data or an error or a full buffer; distinct "
                "by hash of the op file")
    res.assumptions = ["kernel contract: read/splice return 1..count bytes, write 1..count; buffer allocation does not fail",
                       "splice-mode content order is the kernel pipe's FIFO order"]
    ok, log = build()
    if not ok:
        res.divergences.append(("white-box harness for iv_fd_pump.c no longer compiles: " + log[-400:], None))
        return res
    if not proof["driver_ok"]:
        return res
    cov = {}
    for name, ops in gen_cases(tier, seed):
        examine(name, ops, tier, seed, res, cov)
        txt = "\n".join(ops)
        if " e" in txt or " x" in txt or "d4096" in txt or "d5000" in txt:
            res.nontrivial.add(hashlib.sha1(txt.encode()).hexdigest()[:12])
        if len(res.samples) < 2:
            res.samples.append({"case": name, "ops_head": ops[:8], "n_ops": len(ops)})
        if len(res.impl_violations) + len(res.divergences) >= 4:
            break
    res.extra["model_branch_coverage"] = cov
    return res


def search(tier, seed, proof):
    res = common.Result()
    ok, _ = build()
    if not ok:
        return res
    for s in range(seed + 900, seed + 903):
        for name, ops in gen_cases("quick", s):
            res.evaluations += 1
            msg, a = impl_fails(ops)
            if msg:
                small = common.shrink(ops, lambda o: o[0].startswith("new") and impl_fails(o)[0] is not None)
                p = common.write_case(PROP, "search-" + name, small, tier, seed)
                res.impl_violations.append(("pump:" + re.sub(r"line \d+: ", "", msg)[:50], "implementation violates C17: " + msg, p))
                return res
    return res


def replay(path):
    ops = [l.strip() for l in open(path) if l.strip() and not l.startswith("#")]
    ok, log = build()
    if not ok:
        print(log); return 2
    common.lean_build(["ivyreplay"])
    a = run_impl(ops)
    print("--- implementation log"); print(a.stdout[-4000:], a.stderr[-2000:])
    b = common.run_cmd([common.REPLAY_BIN, "pump"], a.stdout)
    print("--- model replay"); print(b.stdout[-2000:])
    msg = oracle(a.stdout.splitlines())
    print("--- oracle:", msg or "ok")
    return 1 if (msg or a.returncode != 0) else 0
