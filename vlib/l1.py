"""Engine shared by the properties decided on the L1 loop machine (C01-C04, C06, C07, C15, C18):
run scenario families on the real library (vos-lite harness), replay every log through the Lean
machine (correspondence) and through the Lean monitors (property stated on the implementation's own
records), classify, shrink, and report."""
import collections, concurrent.futures, glob, hashlib, os, re, subprocess, tempfile
from . import common, loopgen

HARNESS = os.path.join(common.BUILD, "loop_h")
SCRATCH = os.path.join(common.BUILD, "scn")


def build():
    return common.build_wrapped(HARNESS, os.path.join(common.VERIF, "harness", "loop_h.c"), common.LOOP_WRAPS)


class CaseResult:
    __slots__ = ("name", "lines", "log", "rc", "san", "diverge", "envbad", "mon", "cov", "end", "replay_ok")


def run_case(name, lines, harness=None, leaks=False):
    """execute one scenario on the implementation and replay its log through the Lean model + monitors"""
    os.makedirs(SCRATCH, exist_ok=True)
    fd, path = tempfile.mkstemp(suffix=".scn", dir=SCRATCH)
    with os.fdopen(fd, "w") as f:
        f.write("\n".join(lines) + "\n")
    env = dict(os.environ, ASAN_OPTIONS="detect_stack_use_after_return=1:detect_leaks=%d:abort_on_error=0" % (1 if leaks else 0), UBSAN_OPTIONS="print_stacktrace=0")
    try:
        a = subprocess.run([harness or HARNESS, path], stdout=subprocess.PIPE, stderr=subprocess.PIPE, text=True, timeout=50, env=env)
        out, err, rc = a.stdout, a.stderr, a.returncode
    except subprocess.TimeoutExpired as e:
        out = e.stdout.decode() if isinstance(e.stdout, bytes) else (e.stdout or "")
        err, rc = "TIMEOUT", -9
    finally:
        os.unlink(path)
    r = CaseResult()
    r.name, r.lines, r.log, r.rc = name, lines, out, rc
    r.san = common.san_line(err) if rc != 0 else ""
    if rc in (-14, -27, -9) and not r.san:
        r.san = "TIMEOUT: the library did not return (killed by the harness watchdog)"
    if rc != 0 and not r.san:
        r.san = "harness exit %d %s" % (rc, err.strip().splitlines()[-1][:160] if err.strip() else "")
    b = common.run_cmd([common.REPLAY_BIN, "loop"], out, timeout=120)
    r.replay_ok = b.returncode == 0 and "SUMMARY" in b.stdout
    r.diverge = [l for l in b.stdout.splitlines() if l.startswith("DIVERGE")]
    r.envbad = [l for l in b.stdout.splitlines() if l.startswith("ENVBAD")]
    r.mon = {}
    r.cov = {}
    for l in b.stdout.splitlines():
        if l.startswith("MON "):
            w = l.split(None, 3)
            if w[2] == "VIOLATION":
                r.mon[w[1]] = w[3] if len(w) > 3 else ""
        elif l.startswith("COV "):
            _, k, n = l.split()
            r.cov[k] = int(n)
    if "ENVtmo" in r.mon:      # a hypothesis of a theorem evaluated on the log, not a property monitor
        r.envbad.append("ENVBAD " + r.mon.pop("ENVtmo"))
    last = out.strip().splitlines()[-1].split()[0] if out.strip() else "EMPTY"
    r.end = last
    return r


def norm_sig(msg):
    """stable signature of a failure message: object numbers and counters removed"""
    m = re.sub(r"==\d+==", "", msg)
    m = re.sub(r"0x[0-9a-f]+", "ADDR", m)
    m = re.sub(r"\b([ftker])\d+\b", r"\1N", m)
    m = re.sub(r"\d+", "N", m)
    return m.strip()[:120]


def san_kind(san):
    # a jump through a NULL function pointer inside the library: a handler slot that holds NULL was called
    if "SEGV" in san and re.search(r"\(pc 0x0+ ", san):
        return "null-call"
    for k in ("heap-use-after-free", "heap-buffer-overflow", "stack-buffer-overflow", "global-buffer-overflow", "SEGV", "double-free",
              "attempting free", "runtime error", "LeakSanitizer", "TIMEOUT"):
        if k in san:
            return k
    return "abort"


def corpus_cases(prop):
    out = []
    for p in sorted(glob.glob(os.path.join(common.VERIF, "corpus", prop, "*.scn"))):
        lines = [l.rstrip("\n") for l in open(p) if l.strip() and not l.startswith("#")]
        out.append(("corpus-" + os.path.basename(p)[:-4], lines))
    return out


# per-property oracles stated on the implementation's log alone (prop -> function(log text) -> message or None)
LOG_ORACLES = {}


def early_oracle(log):
    """a timer handler was entered while the loop's own clock (what iv_now yields) was still before the timer's expiry"""
    for l in log.splitlines():
        if l.startswith("EARLY "):
            w = l.split()
            return (f"handler of timer {w[1]} invoked while the loop's clock ({w[2]}) is before its expiry ({w[3]}): iv_now inside the handler "
                    "is earlier than the time the timer was set for")
    return None


def tryfail_oracle(log):
    """iv_fd_register_try reported failure for a descriptor that is open (sockets and pipes only in the harness): nothing but an interrupted
    probe can have caused that, and an interruption must not change behaviour"""
    for l in log.splitlines():
        if l.startswith("TRY-FAILED-ON-OPEN-FD "):
            return (f"iv_fd_register_try failed for the open descriptor {l.split()[1]} (the registration probe was interrupted and not retried): "
                    "the descriptor is left unregistered, its handlers never run")
    return None


def _both(log):
    return early_oracle(log) or tryfail_oracle(log)


for _p in ("C04", "C05"):
    LOG_ORACLES[_p] = early_oracle
for _p in ("C07", "C15", "C02"):
    LOG_ORACLES[_p] = _both


def failing(r, prop, mon_keys, san_kinds):
    """does this case show the implementation violating the property? returns (sig, msg) or None"""
    for k in mon_keys:
        if k in r.mon:
            return (f"{prop}:mon:{norm_sig(r.mon[k])}", f"monitor {k} rejects the implementation's log: {r.mon[k]}")
    if prop in LOG_ORACLES:
        m = LOG_ORACLES[prop](r.log)
        if m:
            return (f"{prop}:log:{norm_sig(m)}", m)
    if r.san and san_kind(r.san) in san_kinds:
        return (f"{prop}:san:{san_kind(r.san)}", f"sanitizer: {r.san}")
    return None


def diverging(r):
    if r.diverge:
        return r.diverge[0]
    if r.envbad:
        return r.envbad[0]
    if r.san:
        return f"implementation run aborted ({r.san}); log ends with {r.end}"
    if not r.replay_ok:
        return "replayer failed on this log"
    return None


def shrink_scenario(lines, pred, budget=120):
    """delta-debug on scenario lines (keeping cfg/exclude/obj/main), then on actions inside lines"""
    fixed = lambda l: l.startswith(("exclude", "cfg", "obj", "main"))
    cur = list(lines)
    tries = 0
    n = 2
    while tries < budget:
        idx = [i for i, l in enumerate(cur) if not fixed(l)]
        if not idx:
            break
        chunk = max(1, len(idx) // n)
        removed = False
        pos = 0
        while pos < len(idx) and tries < budget:
            drop = set(idx[pos:pos + chunk])
            cand = [l for i, l in enumerate(cur) if i not in drop]
            tries += 1
            if pred(cand):
                cur = cand
                idx = [i for i, l in enumerate(cur) if not fixed(l)]
                removed = True
            else:
                pos += chunk
        if not removed:
            if chunk == 1:
                break
            n = min(len(idx), n * 2)
    # action level
    i = 0
    while i < len(cur) and tries < budget:
        l = cur[i]
        if l.startswith(("on ", "at ", "do ")) and ";" in l:
            head, _, body = l.partition(":") if not l.startswith("do ") else ("do", "", l[3:])
            acts = [a.strip() for a in body.split(";")]
            j = 0
            while j < len(acts) and len(acts) > 1 and tries < budget:
                cand_acts = acts[:j] + acts[j + 1:]
                cl = (head + " : " if head != "do" else "do ") + " ; ".join(cand_acts)
                cand = cur[:i] + [cl] + cur[i + 1:]
                tries += 1
                if pred(cand):
                    cur, acts = cand, cand_acts
                else:
                    j += 1
        i += 1
    return cur


def run_property(prop, tier, seed, proof, families, mon_keys, san_kinds, nontrivial, rule, n_quick=60, n_thorough=5000,
                 extra_cases=None, gen_kw=None):
    """families: list of family names; nontrivial: function(log_text) -> bool"""
    res = common.Result()
    res.rule = rule
    res.assumptions = ["kernel behaviour as assumed by envOk (checked on every replayed log: ENVBAD)",
                       "virtual time: waits are executed with zero timeout and the clock jumps to the deadline",
                       "single owner thread plus foreign-thread posts injected at wait points"]
    ok, log = build()
    if not ok:
        res.divergences.append(("loop harness no longer builds against /repo: " + log[-500:], None))
        return res
    if not proof["driver_ok"]:
        return res
    cases = corpus_cases(prop)
    per = n_quick if tier == "quick" else n_thorough
    for fam in families:
        for i in range(per):
            s = seed * 100000 + i
            cases.append((f"{fam}-{s}", loopgen.scenario(s, family=fam, **(gen_kw or {}))))
    if extra_cases:
        cases += extra_cases(tier, seed)
    dist = collections.Counter()
    cov = collections.Counter()
    ends = collections.Counter()
    viol, div = [], []
    with concurrent.futures.ThreadPoolExecutor(max_workers=common.NCPU) as ex:
        for r in common.bounded_map(ex, lambda c: run_case(*c), cases):
            res.evaluations += 1
            ends[r.end] += 1
            for k, v in r.cov.items():
                cov[k] += v
            for l in r.log.splitlines():
                w = l.split()
                if w:
                    dist[w[0] + ("-" + w[1] if w[0] == "API" and len(w) > 1 else "")] += 1
                if w and w[0] == "CFG":
                    dist[l] += 1
                if w and w[0] == "FDFLAGS" and len(w) > 4:
                    dist["FDFLAGS-" + w[4]] += 1
            if nontrivial(r.log):
                res.nontrivial.add(hashlib.sha1(r.log.encode()).hexdigest()[:16])
            f = failing(r, prop, mon_keys, san_kinds)
            if f:
                viol.append((r, f))
            else:
                d = diverging(r)
                if d:
                    div.append((r, d))
            if len(res.samples) < 2 and nontrivial(r.log) and not f:
                res.samples.append({"case": r.name, "scenario_head": r.lines[:10], "log_head": r.log.splitlines()[:25]})
    # shrink and record (a few of each)
    seen = set()
    for r, (sig, msg) in viol:
        if sig in seen or len(seen) >= 4:
            continue
        seen.add(sig)
        def pred(ls, sig=sig):
            rr = run_case("shrink", ls)
            ff = failing(rr, prop, mon_keys, san_kinds)
            return ff is not None and ff[0] == sig
        small = shrink_scenario(r.lines, pred)
        p = common.write_case(prop, r.name, small, tier, seed, ext="scn")
        res.impl_violations.append((sig, msg, p))
    for r, d in div[:3]:
        def predd(ls):
            return diverging(run_case("shrink", ls)) is not None
        small = shrink_scenario(r.lines, predd, budget=60)
        p = common.write_case(prop, r.name + "-div", small, tier, seed, ext="scn")
        res.divergences.append((d[:500], p))
    res.extra["record_distribution"] = dict(dist.most_common(60))
    res.extra["model_block_coverage"] = dict(cov)
    res.extra["run_endings"] = dict(ends)
    res.extra["families"] = families
    res.extra["cases_with_divergence"] = len(div)
    res.extra["cases_with_impl_violation"] = len(viol)
    return res


def search_property(prop, tier, seed, families, mon_keys, san_kinds, n=400, gen_kw=None):
    """property-targeted search for a concrete failing input on the implementation alone"""
    res = common.Result()
    ok, _ = build()
    if not ok:
        return res
    cases = []
    for fam in families:
        for i in range(n):
            s = (seed + 7) * 100000 + 50000 + i
            cases.append((f"search-{fam}-{s}", loopgen.scenario(s, family=fam, **(gen_kw or {}))))
    with concurrent.futures.ThreadPoolExecutor(max_workers=common.NCPU) as ex:
        for r in common.bounded_map(ex, lambda c: run_case(*c), cases):
            res.evaluations += 1
            f = failing(r, prop, mon_keys, san_kinds)
            if f and not res.impl_violations:
                sig, msg = f
                def pred(ls, sig=sig):
                    ff = failing(run_case("shrink", ls), prop, mon_keys, san_kinds)
                    return ff is not None and ff[0] == sig
                small = shrink_scenario(r.lines, pred)
                p = common.write_case(prop, r.name, small, tier, seed, ext="scn")
                res.impl_violations.append((sig, msg, p))
    return res


def replay(path):
    lines = [l.rstrip("\n") for l in open(path) if l.strip() and not l.startswith("#")]
    ok, log = build()
    if not ok:
        print(log)
        return 2
    common.lean_build(["ivyreplay"])
    r = run_case("replay", lines)
    print("--- implementation log")
    print(r.log[-6000:])
    if r.san:
        print("--- sanitizer:", r.san)
    print("--- model replay:", r.diverge or "agrees", r.envbad or "")
    print("--- monitors:", r.mon or "all ok")
    return 1 if (r.mon or r.san or r.diverge) else 0
