"""C15 extension (poll/ppoll back end): the bookkeeping of /repo/src/iv_fd_poll.c (dense arrays pfds[]/fds[], per-descriptor
u.index, swap-remove, bits_to_poll_mask, revents -> bands) driven through the REAL API of iv_fd.c on real descriptors
(harness/fdpoll_h.c, methods `poll` and `ppoll`) -- T-diff against the Lean model Ivy.L0.FdPoll (`ivyreplay fdpoll`; invariant,
refinement to the abstract poll set, frame, dispatch attribution proved in Ivy.Props.C15poll for every call sequence), plus an
independent reference (a dict of wanted bands -> the expected poll set; well-formedness of the implementation's own dump lines;
kernel truth for the descriptors the harness made readable / hung up) that judges the implementation's output alone.
Not a plugin of its own: vlib/c15.py may call check()."""
import concurrent.futures, itertools, os, random, re, select
from . import common

HARNESS = os.path.join(common.BUILD, "fdpoll_h")
NOBJ = 8
MASKIN, MASKOUT, MASKERR = 1, 2, 4
OPKINDS = ["consts", "dump", "reg", "regtry", "regtrybad", "unreg", "setin", "setout", "seterr", "wr", "closepeer", "poll"]
BANDNAME = {1: "in", 2: "out", 4: "err"}


def build():
    return common.build_wrapped(HARNESS, os.path.join(common.VERIF, "harness", "fdpoll_h.c"), ["iv_fd_make_ready"])


# ---------------------------------------------------------------- independent reference
def mask_of(bands):
    """what poll(2) must be asked for a set of wanted bands (the documented contract, from <poll.h> as Python sees it)"""
    m = 0
    if bands & MASKIN:
        m |= select.POLLIN | select.POLLHUP
    if bands & MASKOUT:
        m |= select.POLLOUT | select.POLLHUP
    if bands & MASKERR:
        m |= select.POLLHUP
    return m


def bands_of(rev):
    b = []
    if rev & (select.POLLIN | select.POLLERR | select.POLLHUP):
        b.append(MASKIN)
    if rev & (select.POLLOUT | select.POLLERR | select.POLLHUP):
        b.append(MASKOUT)
    if rev & (select.POLLERR | select.POLLHUP):
        b.append(MASKERR)
    return b


class Ref:
    """per object: registered?, the three handlers, what the harness did to its descriptor; plus the slots of the last dump line"""

    def __init__(self):
        self.reg = [False] * NOBJ
        self.h = [[False, False, False] for _ in range(NOBJ)]      # in, out, err
        self.written = [False] * NOBJ
        self.closed = [False] * NOBJ
        self.slots = []                                             # object ids, from the implementation's last state line

    def bands(self, o):
        if not self.reg[o]:
            return 0
        return (MASKIN if self.h[o][0] else 0) | (MASKOUT if self.h[o][1] else 0) | (MASKERR if self.h[o][2] else 0)

    def poll_set(self):
        """the abstract poll set: object -> events mask"""
        return {o: mask_of(self.bands(o)) for o in range(NOBJ) if self.bands(o)}

    @staticmethod
    def parse(op):
        """-> (kind, o, v) or None for an ill-formed op"""
        w = op.split()
        if not w:
            return None
        k = w[0]
        if k in ("consts", "dump", "poll"):
            return (k, None, None) if len(w) == 1 else None
        if len(w) < 2 or not re.fullmatch(r"[0-9]{1,6}", w[1]) or int(w[1]) >= NOBJ:
            return None
        o = int(w[1])
        if k in ("reg", "regtry", "regtrybad", "unreg", "wr", "closepeer"):
            return (k, o, None) if len(w) == 2 else None
        if k in ("setin", "setout", "seterr"):
            return (k, o, int(w[2])) if len(w) == 3 and w[2] in ("0", "1") else None
        return None

    def check_state(self, line):
        """well-formedness of one `NUM n SLOTS ... OBJS ...` line against the wanted bands; returns None or a message"""
        m = re.fullmatch(r"NUM (-?[0-9]+) SLOTS((?: \S+)*) OBJS((?: \S+)*)", line)
        if not m:
            return f"unparsable state line '{line[:120]}'"
        n = int(m.group(1))
        want = self.poll_set()
        slots = [s.split(":") for s in m.group(2).split()]
        objs = [s.split(":") for s in m.group(3).split()]
        if n != len(want):
            return f"num_regd_fds = {n} but {len(want)} registered object(s) want a band ({sorted(want)})"
        if len(slots) != n:
            return f"{len(slots)} slots printed for num_regd_fds = {n}"
        seen = []
        for i, (o, idx, ev, fdok) in enumerate(slots):
            if o == "?":
                return f"slot {i}: fds[{i}] points at no known iv_fd"
            o = int(o)
            if o in seen:
                return f"object {o} occupies two slots ({seen.index(o)} and {i})"
            seen.append(o)
            if o not in want:
                return f"slot {i} polls object {o}, which " + ("wants no band" if self.reg[o] else "is not registered")
            if int(idx) != i:
                return f"object {o} sits in slot {i} but its u.index is {idx}"
            if int(ev) != want[o]:
                return f"slot {i} (object {o}, wanted bands {self.bands(o)}): pfds[{i}].events = {ev}, expected {want[o]}"
            if fdok != "1":
                return f"slot {i}: pfds[{i}].fd is not the descriptor of object {o} found in fds[{i}]"
        if [int(x[0]) for x in objs] != [o for o in range(NOBJ) if self.reg[o]]:
            return f"registered objects reported {[int(x[0]) for x in objs]}, expected {[o for o in range(NOBJ) if self.reg[o]]}"
        for o, idx, w in objs:
            o, idx, w = int(o), int(idx), int(w)
            if w != self.bands(o):
                return f"object {o}: wanted_bands = {w}, its handlers give {self.bands(o)}"
            if (idx != -1) != (w != 0):
                return f"object {o}: u.index = {idx} although wanted_bands = {w}"
            if idx != -1 and not (0 <= idx < n and seen[idx] == o):
                return f"object {o}: u.index = {idx} does not point at a slot holding it (num = {n}): object {o} is not polled"
        self.slots = seen
        return None

    def check_poll(self, line):
        m = re.fullmatch(r"POLL REV((?: [0-9]+)*) READY((?: -?[0-9]+:[0-9]+)*) RAN((?: -?[0-9]+:[0-9]+)*)", line)
        if not m:
            return f"unparsable poll line '{line[:120]}'"
        rev = [int(x) for x in m.group(1).split()]
        ready = [tuple(int(y) for y in x.split(":")) for x in m.group(2).split()]
        ran = [tuple(int(y) for y in x.split(":")) for x in m.group(3).split()]
        if len(rev) != len(self.slots):
            return f"{len(rev)} revents for {len(self.slots)} slots"
        exp_ready = [(o, b) for o, r in zip(self.slots, rev) for b in bands_of(r)]
        if ready != exp_ready:
            return f"iv_fd_make_ready calls {ready}, but revents {rev} of slots {self.slots} require {exp_ready}"
        order, rb = [], {}
        for o, b in ready:
            if o not in rb:
                order.append(o); rb[o] = 0
            rb[o] |= b
        exp_ran = []
        for o in order:
            for band, hi in ((MASKERR, 2), (MASKIN, 0), (MASKOUT, 1)):
                if rb[o] & band and self.h[o][hi]:
                    exp_ran.append((o, band))
        if ran != exp_ran:
            return f"handlers run {ran}, but ready bands {rb} and the handlers present require {exp_ran}"
        # kernel truth, independent of the arrays: what the harness did to each descriptor decides which handlers must (not) run
        for o in range(NOBJ):
            if not self.reg[o]:
                if any(x[0] == o for x in ran):
                    return f"a handler of unregistered object {o} ran"
                continue
            for band, hi in ((MASKIN, 0), (MASKOUT, 1), (MASKERR, 2)):
                if not self.h[o][hi]:
                    continue
                if self.closed[o]:
                    must = True
                elif band == MASKIN:
                    must = self.written[o]
                elif band == MASKOUT:
                    must = (o % 2 == 0)             # a connected socket with an empty send queue is writable; a pipe's read end never is
                else:
                    must = False
                if must and (o, band) not in ran:
                    return (f"object {o}'s descriptor is " + ("hung up" if self.closed[o] else "readable" if band == MASKIN else "writable") +
                            f" and it has an {BANDNAME[band]} handler, but the handler did not run (ran: {ran})")
                if not must and (o, band) in ran:
                    return f"object {o}'s {BANDNAME[band]} handler ran although nothing happened on its descriptor"
        return None

    def apply(self, op, got):
        """advance by one op and judge the line the implementation printed for it; returns None or a message"""
        p = self.parse(op)
        if p is None:
            return None if got == "bad-op" else f"ill-formed op answered with '{got[:80]}'"
        k, o, v = p
        if k == "consts":
            exp = (f"CONST MASKIN={MASKIN} MASKOUT={MASKOUT} MASKERR={MASKERR} POLLIN={select.POLLIN} POLLOUT={select.POLLOUT} "
                   f"POLLERR={select.POLLERR} POLLHUP={select.POLLHUP} MAXFD=65536")
            return None if got == exp else f"constants '{got}', expected '{exp}'"
        if k in ("wr", "closepeer"):
            if k == "wr" and not self.closed[o]:
                self.written[o] = True
            if k == "closepeer":
                self.closed[o] = True
            return None if got == "io" else f"'{got[:80]}' instead of 'io'"
        if k == "poll":
            return self.check_poll(got)
        if k in ("reg", "regtry", "regtrybad"):
            if self.reg[o]:
                return None if got == "skip" else f"'{got[:80]}' instead of 'skip'"
            if k != "regtrybad":
                self.reg[o] = True
        elif k == "unreg":
            if not self.reg[o]:
                return None if got == "skip" else f"'{got[:80]}' instead of 'skip'"
            self.reg[o] = False
        elif k in ("setin", "setout", "seterr"):
            self.h[o][("setin", "setout", "seterr").index(k)] = bool(v)
        if got.startswith("RET "):
            return f"iv_fd_register_try returned the wrong value: '{got[:40]}'"
        return self.check_state(got)


def oracle(ops, out):
    """Independent statement of the back end's contract on the implementation's output alone. Returns None or (op index, short, message)."""
    ref = Ref()
    for i, op in enumerate(ops):
        if i >= len(out):
            return (i, "crash", f"implementation produced {len(out)} lines for {len(ops)} ops: died at op #{i} '{op}'")
        why = ref.apply(op, out[i])
        if why is not None:
            return (i, op.split()[0] if op.split() else "empty", f"after op #{i} '{op}': {why}")
    return None


# ---------------------------------------------------------------- generators
def gen_ops(rng, n):
    """structured random: mostly valid ops following the reference, ~5% arbitrary ones"""
    ref = Ref()
    span = rng.choice([2, 3, 4, 4, 6, NOBJ])
    objs = list(range(span)) if rng.random() < 0.6 else sorted(rng.sample(range(NOBJ), span))
    ops = ["consts"] if rng.random() < 0.3 else []
    closes = 0
    p_poll = rng.choice([0.03, 0.08, 0.2])
    while len(ops) < n:
        r = rng.random()
        o = rng.choice(objs)
        regd = [x for x in objs if ref.reg[x]]
        unregd = [x for x in objs if not ref.reg[x]]
        if r < 0.05:
            k = rng.choice(OPKINDS + ["frob"])
            op = rng.choice([f"{k} {rng.randrange(12)}", f"{k} {rng.randrange(12)} {rng.randrange(3)}", k, f"{k} x"])
        elif r < 0.05 + p_poll:
            op = "poll"
        elif r < 0.30 and unregd:
            op = f"{rng.choice(['reg', 'reg', 'reg', 'regtry', 'regtry', 'regtrybad'])} {rng.choice(unregd)}"
        elif r < 0.48 and regd:
            # prefer removing an object that is not in the last slot: that is the swap
            cand = [x for x in regd if ref.bands(x) and ref.slots and x != ref.slots[-1]] or regd
            op = f"unreg {rng.choice(cand if rng.random() < 0.7 else regd)}"
        elif r < 0.86:
            hi = rng.choice([0, 0, 1, 1, 2])
            cur = ref.h[o][hi]
            v = (not cur) if rng.random() < 0.85 else cur
            op = f"{('setin', 'setout', 'seterr')[hi]} {o} {int(v)}"
        elif r < 0.92:
            op = f"wr {o}"
        elif r < 0.94 and closes < 2:
            closes += 1
            op = f"closepeer {o}"
        elif r < 0.97:
            op = "dump"
        else:
            op = "poll"
        ref_apply_blind(ref, op)
        ops.append(op)
    ops.append("poll")
    return ops


def ref_apply_blind(ref, op):
    """advance the reference's own bookkeeping without an implementation line (generation time): slots are simulated as the
    abstract order only -- used just to bias the generator"""
    p = Ref.parse(op)
    if p is None:
        return
    k, o, v = p
    before = ref.poll_set()
    if k in ("reg", "regtry") and not ref.reg[o]:
        ref.reg[o] = True
    elif k == "unreg" and ref.reg[o]:
        ref.reg[o] = False
    elif k in ("setin", "setout", "seterr"):
        ref.h[o][("setin", "setout", "seterr").index(k)] = bool(v)
    elif k == "wr" and not ref.closed[o]:
        ref.written[o] = True
    elif k == "closepeer":
        ref.closed[o] = True
    after = ref.poll_set()
    for x in before:
        if x not in after and x in ref.slots:            # swap-remove, as any dense array would do it
            i = ref.slots.index(x)
            last = ref.slots.pop()
            if last != x:
                ref.slots[i] = last
    for x in after:
        if x not in before:
            ref.slots.append(x)


TOGGLES = "RIO"     # per object: toggle registered / toggle in handler / toggle out handler


def canonical_sequences(length, maxobj):
    """every sequence of `length` toggles (kind, object) on at most `maxobj` objects, up to renaming of the objects: object k appears
    only after objects 0..k-1 did"""
    def rec(prefix, used):
        if len(prefix) == length:
            yield tuple(prefix)
            return
        for o in range(min(used + 1, maxobj)):
            for k in TOGGLES:
                prefix.append((k, o))
                yield from rec(prefix, max(used, o + 1))
                prefix.pop()
    yield from rec([], 0)


def toggles_to_ops(seq, baseline_in, objmap):
    """concrete op lines for one toggle sequence started from the baseline (nothing registered; in handlers set iff baseline_in),
    followed by a poll and by the ops that return to the baseline"""
    nobj = max(o for _, o in seq) + 1
    reg = [False] * nobj
    hin = [baseline_in] * nobj
    hout = [False] * nobj
    ops = []
    for k, o in seq:
        x = objmap[o]
        if k == "R":
            reg[o] = not reg[o]
            ops.append(f"reg {x}" if reg[o] else f"unreg {x}")
        elif k == "I":
            hin[o] = not hin[o]
            ops.append(f"setin {x} {int(hin[o])}")
        else:
            hout[o] = not hout[o]
            ops.append(f"setout {x} {int(hout[o])}")
    ops.append("poll")
    for o in range(nobj):
        x = objmap[o]
        if reg[o]:
            ops.append(f"unreg {x}")
        if hin[o] != baseline_in:
            ops.append(f"setin {x} {int(baseline_in)}")
        if hout[o]:
            ops.append(f"setout {x} 0")
    return ops


def enumerated_cases(tier, seed):
    """ENUMERATED part: all canonical toggle sequences of length 6 on up to 4 objects (136 323 of them), from both baselines in
    the thorough tier; a seed-chosen sample of them (plus all of length 4 on 3 objects) in the quick tier. Packed ~250 sequences per
    file; each sequence returns the back end to the baseline, so the stale slots left by one are the starting arrays of the next."""
    rng = random.Random(f"c15poll-enum-{seed}")
    seqs = list(canonical_sequences(6, 4))
    if tier == "quick":
        picked = [(s, rng.random() < 0.5) for s in rng.sample(seqs, 2500)]
        picked += [(s, b) for s in canonical_sequences(4, 3) for b in (False, True)]
    else:
        picked = [(s, b) for s in seqs for b in (False, True)]
    rng.shuffle(picked)
    cases = []
    per = 250
    for ci in range(0, len(picked), per):
        crng = random.Random(rng.getrandbits(64))
        ops = []
        cur_base = False
        for s, base in sorted(picked[ci:ci + per], key=lambda e: e[1]):    # one baseline switch per file
            objmap = crng.sample(range(NOBJ), 4)
            if base != cur_base:
                ops += [f"setin {x} {int(base)}" for x in range(NOBJ)]
                cur_base = base
            ops += toggles_to_ops(s, base, objmap)
        cases.append((f"enum-{ci // per}", crng.choice(["poll", "ppoll"]), ops))
    return cases, len(picked)


# ---------------------------------------------------------------- running
def model_input(ops, al):
    """the model driver takes the revents the harness observed as arguments: `poll` becomes `pollrev r0 .. r(n-1)`"""
    mops = []
    for i, op in enumerate(ops):
        if op.split() == ["poll"] and i < len(al) and al[i].startswith("POLL REV"):
            mops.append("pollrev" + al[i][len("POLL REV"):].split(" READY")[0])
        elif op.split()[:1] == ["pollrev"]:
            mops.append("frob")                     # not an op of the harness: keep it ill-formed for the model too
        else:
            mops.append(op)
    return mops


def run_impl(ops, mode):
    a = common.run_cmd([HARNESS, mode], "\n".join(ops) + "\n", timeout=300)
    return a, [l.rstrip() for l in a.stdout.splitlines()]


def run_both(ops, mode):
    a, al = run_impl(ops, mode)
    b = common.run_cmd([common.REPLAY_BIN, "fdpoll"], "\n".join(model_input(ops, al)) + "\n", timeout=300)
    return a, al, b, [l.rstrip() for l in b.stdout.splitlines()]


def impl_fails(ops, mode):
    a, al = run_impl(ops, mode)
    return oracle(ops, al) is not None or a.returncode != 0


def check(tier, seed, res):
    """random + enumerated op files through harness (real iv_fd.c / iv_fd_poll.c, methods poll and ppoll) and `ivyreplay fdpoll` (Lean
    model): the reference oracle judges the implementation alone (res.impl_violations), then the two outputs are compared line by
    line (res.divergences)."""
    ok, log = build()
    if not ok:
        res.divergences.append(("harness fdpoll_h.c (iv_fd_poll.c / iv_fd.c / iv_private.h) no longer compiles: " + log[-400:], None))
        return res
    nfiles, nops = (40, 250) if tier == "quick" else (600, 500)
    rng = random.Random(f"c15poll-{seed}")
    cases = [(f"poll-{i}", ("poll", "ppoll")[i % 2], gen_ops(random.Random(rng.getrandbits(64)), nops)) for i in range(nfiles)]
    ecases, nseq = enumerated_cases(tier, seed)
    cases += ecases
    dist = {k: 0 for k in OPKINDS}
    total = swaps = polls_ready = 0
    ex = concurrent.futures.ThreadPoolExecutor(max_workers=common.NCPU)
    outs = common.bounded_map(ex, lambda c: run_both(c[2], c[1]), cases)
    for (name, mode, ops), (a, al, b, bl) in zip(cases, outs):
        res.evaluations += 1
        total += len(ops)
        prev = None
        for op, line in zip(ops, al):
            k = op.split()[0]
            if k in dist and line not in ("skip", "bad-op"):
                dist[k] += 1
            if line.startswith("NUM "):
                cur = [s.split(":")[0] for s in line.split(" OBJS")[0].split()[3:]]
                if prev is not None and len(cur) == len(prev) - 1 and cur != prev[:-1]:
                    swaps += 1                      # a removal that moved the last slot
                prev = cur
            elif line.startswith("POLL ") and " READY " in line and not line.split(" READY")[1].startswith(" RAN"):
                polls_ready += 1
        bad = oracle(ops, al)
        if bad is None and a.returncode != 0:
            bad = (len(al), "crash", f"harness exit {a.returncode} {a.stderr.strip()[-200:]}")
        if bad is not None:
            i, short, msg = bad
            head = [f"# mode {mode}"]
            small = common.shrink(ops[:i + 1], lambda c: impl_fails(c, mode), keep_head=0)
            if not impl_fails(small, mode):
                small = ops[:i + 1]
            a2, al2 = run_impl(small, mode)
            bad2 = oracle(small, al2)
            if bad2 is not None:
                short, msg = bad2[1], bad2[2]
            p = common.write_case("C15", name, head + small, tier, seed, ext="pollops")
            san = common.san_line(a.stderr) or common.san_line(a2.stderr)
            res.impl_violations.append((f"C15:poll:{short}", f"iv_fd_poll.c ({mode}) breaks the poll-set contract: {msg} {san}".strip(), p))
        else:
            d = next((j for j in range(max(len(al), len(bl))) if j >= len(al) or j >= len(bl) or al[j] != bl[j]), None)
            if d is not None or b.returncode != 0:
                d = d if d is not None else 0
                p = common.write_case("C15", name, [f"# mode {mode}"] + ops[:d + 1], tier, seed, ext="pollops")
                res.divergences.append((f"model Ivy.L0.FdPoll and iv_fd_poll.c ({mode}) disagree at op #{d} '{ops[min(d, len(ops) - 1)]}': "
                                        f"impl={al[d] if d < len(al) else '<none>'} model={bl[d] if d < len(bl) else '<none>'}", p))
        if len(res.impl_violations) + len(res.divergences) >= 5:
            break
    ex.shutdown(wait=False, cancel_futures=True)
    res.extra["poll_ops_compared"] = total
    res.extra["poll_ops_executed_not_refused"] = dist
    res.extra["poll_enumerated_toggle_sequences"] = nseq
    res.extra["poll_swap_removes_seen"] = swaps
    res.extra["poll_rounds_with_ready_descriptors"] = polls_ready
    res.assumptions.append("poll/ppoll back end: model Ivy.L0.FdPoll (arrays as functions + explicit length; invariant, poll-set refinement, frame and "
                           "dispatch attribution proved in Ivy.Props.C15poll for every call sequence) tied to iv_fd_poll.c / iv_fd.c by a differential "
                           "run over 8 iv_fd objects on real pipes / socketpairs, both methods; the capacity IV_FD_POLL_MAXFD of the arrays, the "
                           "poll()/ppoll() system calls themselves (revents are taken from the kernel as observed) and handlers that change "
                           "registrations while being dispatched are outside the model")
    return res


def read_case(path):
    mode, ops = "poll", []
    for l in open(path):
        l = l.strip()
        if l.startswith("# mode "):
            mode = l.split()[2]
        elif l and not l.startswith("#"):
            ops.append(l)
    return mode, ops


def replay(path):
    """re-run a .pollops case (or a replay-*.txt written by common.finish for a 'C15:poll:' signature)"""
    mode, ops = read_case(path)
    ok, log = build()
    if not ok:
        print(log); return 2
    common.lean_build(["ivyreplay"])
    a, al, b, bl = run_both(ops, mode)
    for i, op in enumerate(ops):
        x, y = (al[i] if i < len(al) else "<none>"), (bl[i] if i < len(bl) else "<none>")
        print(f"#{i} {op}\n    impl : {x}" + ("" if x == y else f"\n    model: {y}"))
    if a.stderr.strip():
        print("--- implementation stderr:", common.san_line(a.stderr) or a.stderr.strip().splitlines()[-1])
    bad = oracle(ops, al)
    print(f"--- method {mode}; oracle:", bad[2] if bad else "ok")
    return 1 if (bad or a.returncode != 0 or al != bl) else 0
