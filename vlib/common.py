"""Shared machinery for every property check: regeneration from source, Lean build,
proof audit, harness build, verdict rules, evidence and known-findings handling."""
import fcntl, hashlib, json, os, re, shutil, subprocess, sys, time

VERIF = os.path.dirname(os.path.dirname(os.path.abspath(__file__)))
REPO = os.environ.get("IVY_REPO", "/repo")
# Everything a run writes (harness binaries, Lean build incl. the files regenerated from the source, case files, evidence) lives
# under /verif itself only when the tree under test is /repo. A run against a scratch tree (IVY_REPO=<dir>, used to evaluate
# seeded changes) gets its own private area, so that it can never disturb -- or be mistaken for -- a run against /repo.
if REPO == "/repo":
    SCRATCH_AREA = None
    LEAN = os.path.join(VERIF, "lean")
    BUILD = os.path.join(VERIF, "build")
    OUT = os.path.join(VERIF, "out")
    EVID = os.path.join(VERIF, "evidence")
else:
    SCRATCH_AREA = os.path.join(VERIF, "scratch", hashlib.sha1(os.path.abspath(REPO).encode()).hexdigest()[:10])
    LEAN = os.path.join(SCRATCH_AREA, "lean")
    BUILD = os.path.join(SCRATCH_AREA, "build")
    OUT = os.path.join(SCRATCH_AREA, "out")
    EVID = os.path.join(SCRATCH_AREA, "evidence")
    os.makedirs(SCRATCH_AREA, exist_ok=True)
    # private copy of the Lean project (sources + build cache); refreshed from /verif/lean at the start of every run
    subprocess.run(["rsync", "-a", "--delete", "--exclude", "Ivy/Generated/", os.path.join(VERIF, "lean") + "/", LEAN + "/"], check=True)
    os.makedirs(os.path.join(LEAN, "Ivy", "Generated"), exist_ok=True)
REPLAY_BIN = os.path.join(LEAN, ".lake", "build", "bin", "ivyreplay")
ALLOWED_AXIOMS = {"propext", "Classical.choice", "Quot.sound"}
FORBIDDEN = re.compile(r"\b(sorry|admit|native_decide|bv_decide|implemented_by|unsafe)\b|^\s*axiom\s|maxHeartbeats\s+0|@\[extern")
NCPU = os.cpu_count() or 4

CFLAGS_COMMON = ["-g", "-D_GNU_SOURCE", "-DHAVE_CONFIG_H", f"-I{REPO}", f"-I{REPO}/src", f"-I{REPO}/src/include"]
SAN = ["-O1", "-fsanitize=address,undefined", "-fno-sanitize-recover=all", "-fno-omit-frame-pointer"]
LIB_SOURCES = ["iv_avl.c", "iv_event.c", "iv_event_raw_posix.c", "iv_fatal.c", "iv_fd.c", "iv_fd_epoll.c",
               "iv_fd_poll.c", "iv_fd_pump.c", "iv_inotify.c", "iv_main_posix.c", "iv_popen.c", "iv_signal.c",
               "iv_task.c", "iv_thread_posix.c", "iv_tid_posix.c", "iv_time_posix.c", "iv_timer.c", "iv_tls.c",
               "iv_wait.c", "iv_work.c"]


def sh(cmd, **kw):
    kw.setdefault("stdout", subprocess.PIPE)
    kw.setdefault("stderr", subprocess.STDOUT)
    kw.setdefault("text", True)
    return subprocess.run(cmd, **kw)


class Lock:
    def __init__(self, name):
        os.makedirs(BUILD, exist_ok=True)
        self.path = os.path.join(BUILD, name + ".lock")
    def __enter__(self):
        self.f = open(self.path, "w")
        fcntl.flock(self.f, fcntl.LOCK_EX)
    def __exit__(self, *a):
        fcntl.flock(self.f, fcntl.LOCK_UN)
        self.f.close()


# ---------------------------------------------------------------- T-gen
def regenerate():
    """Rewrite lean/Ivy/Generated/*.lean from REPO's current sources. Returns dict of facts."""
    sys.path.insert(0, os.path.join(VERIF, "gen"))
    import gen_all
    return gen_all.generate(REPO, os.path.join(LEAN, "Ivy", "Generated"))


# ---------------------------------------------------------------- Lean build + audit
def lean_build(targets):
    """lake build the given targets; returns (ok, log)."""
    with Lock("lake"):
        r = sh(["lake", "build"] + targets, cwd=LEAN)
    return r.returncode == 0, r.stdout


def strip_comments(src):
    src = re.sub(r"/-.*?-/", "", src, flags=re.S)
    src = re.sub(r"--.*", "", src)
    return src


def audit_sources():
    """grep every Lean source (comments stripped) for forbidden constructs."""
    bad = []
    for root, _, files in os.walk(LEAN):
        if ".lake" in root:
            continue
        for f in files:
            if f.endswith(".lean"):
                p = os.path.join(root, f)
                for i, line in enumerate(strip_comments(open(p).read()).splitlines(), 1):
                    if FORBIDDEN.search(line):
                        bad.append(f"{os.path.relpath(p, LEAN)}:{i}: {line.strip()[:100]}")
    return bad


def obligations(prop):
    ob = json.load(open(os.path.join(LEAN, "obligations.json")))
    return ob.get(prop, {"module": None, "theorems": [], "props_sha256": None})


def props_hash(prop):
    p = os.path.join(LEAN, "Ivy", "Props", prop + ".lean")
    if not os.path.exists(p):
        return None
    return hashlib.sha256(open(p, "rb").read()).hexdigest()


def audit_axioms(prop, theorems):
    """#print axioms on every property theorem; returns {thm: [axioms]} or {thm: None} when it does not exist."""
    if not theorems:
        return {}, ""
    scratch = os.path.join(BUILD, f"audit_{prop}_{os.getpid()}.lean")
    os.makedirs(BUILD, exist_ok=True)
    with open(scratch, "w") as f:
        f.write(f"import Ivy.Props.{prop}\n")
        for t in theorems:
            f.write(f"#print axioms {t}\n")
    r = sh(["lake", "env", "lean", scratch], cwd=LEAN)
    os.unlink(scratch)
    res = {t: None for t in theorems}
    text = r.stdout.replace("\n  ", " ")
    for m in re.finditer(r"'([^']+)' depends on axioms: \[([^\]]*)\]", text):
        res[m.group(1)] = [a.strip() for a in m.group(2).split(",") if a.strip()]
    for m in re.finditer(r"'([^']+)' does not depend on any axioms", text):
        res[m.group(1)] = []
    return res, r.stdout


# further statement files that belong to a property (extensions proved later: pointer/radix-tree refinements, progress)
EXTRA_PROPS = {"C04": ["C04time"], "C05": ["C05rat"], "C07": ["C07progress", "C07tmo"], "C16": ["C16ptr"], "C18": ["C18tls"], "C06": ["C06list"], "C08": ["C08loop"], "C15": ["C15poll", "C15epoll"]}


def proof_phase(prop):
    """Regenerate, build, audit. Returns dict with 'failures' (list of str) and counts."""
    t0 = time.time()
    ob = dict(obligations(prop))
    ob["theorems"] = list(ob["theorems"])
    extras = [e for e in EXTRA_PROPS.get(prop, []) if os.path.exists(os.path.join(LEAN, "Ivy", "Props", e + ".lean"))]
    failures = []
    gen_facts = regenerate()
    ok, log = lean_build([f"Ivy.Props.{p}" for p in [prop] + extras])
    if not ok:
        errs = [l for l in log.splitlines() if "error" in l.lower()][:8]
        failures.append("lake build Ivy.Props.%s failed: %s" % (prop, " | ".join(errs)))
    okd, logd = lean_build(["ivyreplay"])
    if not okd:
        errs = [l for l in logd.splitlines() if "error" in l.lower()][:8]
        failures.append("lake build ivyreplay failed: " + " | ".join(errs))
    bad = audit_sources()
    for b in bad:
        failures.append("forbidden construct: " + b)
    h = props_hash(prop)
    if ob.get("props_sha256") and h != ob["props_sha256"]:
        failures.append(f"Ivy/Props/{prop}.lean differs from the pinned statement file (obligations.json)")
    for e in extras:
        oe = obligations(e)
        if oe.get("props_sha256") and props_hash(e) != oe["props_sha256"]:
            failures.append(f"Ivy/Props/{e}.lean differs from the pinned statement file (obligations.json)")
    discharged = 0
    axioms = {}
    if ok:
        axioms, raw = audit_axioms(prop, ob["theorems"])
        for e in extras:
            oe = obligations(e)
            ax_e, _ = audit_axioms(e, oe["theorems"])
            axioms.update(ax_e)
            ob["theorems"] += oe["theorems"]
        for t in ob["theorems"]:
            ax = axioms.get(t)
            if ax is None:
                failures.append(f"theorem {t} missing")
            elif not set(ax) <= ALLOWED_AXIOMS:
                failures.append(f"theorem {t} depends on unexpected axioms {ax}")
            else:
                discharged += 1
    return {"failures": failures, "obligations": len(ob["theorems"]), "discharged": discharged,
            "theorems": ob["theorems"], "axioms": axioms, "gen": gen_facts, "wall_s": time.time() - t0,
            "driver_ok": okd}


def leanchecker(modules):
    fails = []
    for m in modules:
        r = sh(["lake", "env", "leanchecker", m], cwd=LEAN)
        if r.returncode != 0:
            fails.append(f"leanchecker {m}: {r.stdout[-300:]}")
    return fails


# ---------------------------------------------------------------- harness builds
def cc(out, sources, extra=(), san=True, lock=None):
    """Compile a harness from the *current* REPO tree. Returns (ok, log)."""
    os.makedirs(os.path.dirname(out), exist_ok=True)
    return _link(out, ["gcc"] + (SAN if san else ["-O1"]) + CFLAGS_COMMON + list(extra), list(sources))


def _link(out, cmd, inputs):
    """compile/link to a private temporary name and rename into place: a check running concurrently (same tree, same binary) keeps
    executing the old inode instead of failing with ETXTBSY or picking up a half-written file"""
    tmp = f"{out}.tmp{os.getpid()}"
    r = sh(cmd + ["-o", tmp] + inputs)
    if r.returncode == 0:
        os.replace(tmp, out)
    elif os.path.exists(tmp):
        os.unlink(tmp)
    return r.returncode == 0, r.stdout


def lib_hash(flags):
    h = hashlib.sha256(" ".join(flags).encode())
    for root, _, files in os.walk(os.path.join(REPO, "src")):
        for f in sorted(files):
            if f.endswith((".c", ".h")):
                h.update(f.encode()); h.update(open(os.path.join(root, f), "rb").read())
    h.update(open(os.path.join(REPO, "config.h"), "rb").read())
    return h.hexdigest()[:16]


def build_lib(flags=None, exclude=(), tag="asan"):
    """Compile the library objects from the current REPO tree (cached by content hash). Returns (ok, [objects], log)."""
    flags = list(SAN if flags is None else flags)
    hsh = lib_hash(flags)
    d = os.path.join(BUILD, f"lib-{tag}-{hsh}")
    with Lock("lib-" + tag):
        if not os.path.exists(os.path.join(d, "ok")):
            # drop stale caches for this tag
            for e in os.listdir(BUILD):
                if e.startswith(f"lib-{tag}-") and e != os.path.basename(d) and os.path.isdir(os.path.join(BUILD, e)):
                    shutil.rmtree(os.path.join(BUILD, e), ignore_errors=True)
            os.makedirs(d, exist_ok=True)
            procs = []
            for src in LIB_SOURCES:
                o = os.path.join(d, src[:-2] + ".o")
                procs.append((src, subprocess.Popen(["gcc"] + flags + CFLAGS_COMMON + ["-fPIC", "-c", f"{REPO}/src/{src}", "-o", o],
                                                    stdout=subprocess.PIPE, stderr=subprocess.STDOUT, text=True)))
            log = ""
            ok = True
            for src, p in procs:
                out, _ = p.communicate()
                if p.returncode != 0:
                    ok = False
                    log += f"{src}: {out[-600:]}\n"
            if not ok:
                return False, [], log
            open(os.path.join(d, "ok"), "w").write("ok")
    objs = [os.path.join(d, s[:-2] + ".o") for s in LIB_SOURCES if s not in exclude]
    return True, objs, ""


LOOP_WRAPS = ["clock_gettime", "syscall", "pipe", "epoll_create", "timerfd_create", "timerfd_settime", "epoll_ctl", "read",
              "epoll_pwait2", "epoll_wait", "ppoll", "poll", "malloc"]


MT_WRAPS = ["clock_gettime", "syscall", "timerfd_create", "timerfd_settime", "epoll_ctl", "read", "write",
            "epoll_pwait2", "epoll_wait", "ppoll", "poll", "pthread_mutex_lock", "pthread_mutex_unlock", "pthread_mutex_destroy",
            "pthread_spin_lock", "pthread_spin_unlock", "pthread_spin_trylock", "pthread_create", "pthread_join", "pthread_detach",
            "pthread_sigmask", "sigaction", "getpid", "fork", "wait4", "kill", "malloc"]
MT_SOURCES = ["mt_h.c", "mt_proc.c"]


def build_mt(out=None, extra_sources=(), extra_wraps=(), extra=()):
    """the T-sched harness: core + process/signal extension (+ property-specific extensions)"""
    out = out or os.path.join(BUILD, "mt_h")
    srcs = [os.path.join(VERIF, "harness", s) for s in MT_SOURCES] + list(extra_sources)
    return build_wrapped(out, srcs, MT_WRAPS + list(extra_wraps), extra=extra)


def build_wrapped(out, harness_src, wraps, flags=None, tag="asan", extra=()):
    """library objects from REPO, partially linked with --wrap so only library references are redirected, + harness"""
    flags = list(SAN if flags is None else flags)
    ok, objs, log = build_lib(flags, tag=tag)
    if not ok:
        return False, log
    d = os.path.dirname(objs[0])
    wl = os.path.join(d, "wrapped-" + hashlib.sha1(" ".join(wraps).encode()).hexdigest()[:8] + ".o")
    with Lock("lib-" + tag):
        if not os.path.exists(wl):
            r = sh(["ld", "-r"] + [f"--wrap={w}" for w in wraps] + ["-o", wl + ".tmp"] + objs)
            if r.returncode != 0:
                return False, r.stdout
            os.replace(wl + ".tmp", wl)
    srcs = [harness_src] if isinstance(harness_src, str) else list(harness_src)
    return _link(out, ["gcc"] + flags + CFLAGS_COMMON + [f"-I{VERIF}/harness"] + list(extra), srcs + [wl, "-lpthread"])


def bounded_map(ex, fn, items, window=None):
    """like Executor.map, but with at most `window` calls submitted ahead of the consumer: a slow consumer (shrinking a failing case
    while the rest still runs) no longer lets thousands of finished results — each holding a log — pile up in memory, and when the
    consumer stops early the remaining cases are never started"""
    import collections, itertools
    window = window or 4 * NCPU
    it = iter(items)
    q = collections.deque(ex.submit(fn, x) for x in itertools.islice(it, window))
    while q:
        f = q.popleft()
        try:
            q.append(ex.submit(fn, next(it)))
        except StopIteration:
            pass
        yield f.result()


def _sched_stats(prop):
    try:
        from . import sched
        return sched.STATS.get(prop)
    except Exception:
        return None


def write_case(prop, name, lines, tier, seed, ext="ops"):
    d = os.path.join(OUT, prop)
    os.makedirs(d, exist_ok=True)
    p = os.path.join(d, f"case-{tier}-{seed}-{name}.{ext}")
    open(p, "w").write("\n".join(lines) + "\n")
    return p


def shrink(lines, pred, keep_head=1, budget=150):
    """delta-debugging on lines (the first keep_head lines are kept); pred(lines) true = still failing"""
    cur = list(lines)
    n = 2
    tries = 0
    while len(cur) > keep_head + 1 and tries < budget:
        chunk = max(1, (len(cur) - keep_head) // n)
        removed = False
        i = keep_head
        while i < len(cur) and tries < budget:
            cand = cur[:i] + cur[i + chunk:]
            tries += 1
            if len(cand) > keep_head and pred(cand):
                cur = cand
                removed = True
            else:
                i += chunk
        if not removed:
            if chunk == 1:
                break
            n = min(len(cur), n * 2)
    return cur


def run_cmd(cmd, text, timeout=300):
    try:
        # (stack memory of a returned frame is poisoned too: a pointer into a dead frame that the library kept is reported when used)
        env = dict(os.environ, ASAN_OPTIONS=os.environ.get("ASAN_OPTIONS", "detect_stack_use_after_return=1"))
        return subprocess.run(cmd, input=text, stdout=subprocess.PIPE, stderr=subprocess.PIPE, text=True, timeout=timeout, env=env)
    except subprocess.TimeoutExpired as e:
        class R: pass
        r = R(); r.stdout = (e.stdout or b"").decode() if isinstance(e.stdout, bytes) else (e.stdout or ""); r.stderr = "TIMEOUT"; r.returncode = -9
        return r


def san_line(stderr):
    return next((l.strip() for l in stderr.splitlines() if "ERROR: AddressSanitizer" in l or "runtime error" in l or "ERROR: LeakSanitizer" in l), "")


# ---------------------------------------------------------------- known findings
def known_findings(prop):
    p = os.path.join(VERIF, "known_findings.json")
    if not os.path.exists(p):
        return []
    return [f for f in json.load(open(p)).get("findings", []) if f["property"] == prop]


# ---------------------------------------------------------------- verdict + evidence
class Result:
    def __init__(self):
        self.evaluations = 0
        self.nontrivial = set()
        self.rule = ""
        self.samples = []
        self.impl_violations = []   # (signature, message, case_file)  -- real code breaks the property on this input
        self.divergences = []       # (message, case_file)             -- model and code disagree
        self.extra = {}
        self.assumptions = []


def finish(prop, tier, seed, proof, res, t0, search=None):
    """Apply the verdict rules of DESIGN §5; write evidence; print VIOLATION / KNOWN-FINDING lines; return exit code."""
    outdir = os.path.join(OUT, prop)
    os.makedirs(outdir, exist_ok=True)
    known = known_findings(prop)
    lines = []
    new_viol = []
    seen_known = set()
    for sig, msg, case in res.impl_violations:
        k = next((f for f in known if f["signature"] == sig), None)
        if k:
            if sig not in seen_known:
                seen_known.add(sig)
                lines.append(f"KNOWN-FINDING: property={prop} {k['what']}")
        else:
            new_viol.append((sig, msg, case))
    unproved = list(proof["failures"]) + [f"correspondence: {m} (case {c})" for m, c in res.divergences]
    searched = None
    if not new_viol and unproved and search is not None:
        searched = search()
        for sig, msg, case in searched.impl_violations:
            if not any(f["signature"] == sig for f in known):
                new_viol.append((sig, msg, case))
    rc = 0
    if new_viol:
        sig, msg, case = new_viol[0]
        rp = os.path.join(outdir, f"replay-{tier}-{seed}.txt")
        with open(rp, "w") as f:
            f.write(f"# property {prop}: {msg}\n# signature: {sig}\n# replay: ./check.py replay {rp}\n")
            if unproved:
                f.write("# also no longer checking: " + "; ".join(unproved)[:2000] + "\n")
            if case and os.path.exists(case):
                f.write(open(case).read())
            elif case:
                f.write(case)
        lines.append(f"VIOLATION property={prop} replay={rp}")
        rc = 1
    elif unproved:
        rp = os.path.join(outdir, f"unproved-{tier}-{seed}.txt")
        with open(rp, "w") as f:
            f.write(f"# property {prop}: no longer shown to hold; no failing input found on the implementation\n")
            for u in unproved:
                f.write("UNPROVED " + u + "\n")
            if res.divergences and res.divergences[0][1] and os.path.exists(res.divergences[0][1]):
                f.write("# first diverging case:\n" + open(res.divergences[0][1]).read())
        lines.append(f"VIOLATION property={prop} replay={rp} no-failing-input-found")
        rc = 1
    ev = {
        "property_id": prop, "tier": tier, "seed": seed, "level": "proof",
        "coverage": {
            "obligations": proof["obligations"], "discharged": proof["discharged"],
            "checker_cmd": f"cd {LEAN} && lake build Ivy.Props.{prop} && lake env lean <#print axioms of each theorem> (run by ./check.py {prop})",
            "trusted_base": ["Lean 4.33.0 kernel", "axioms: propext, Classical.choice, Quot.sound (audited per theorem this run)",
                             "hand-written model tied to /repo by the correspondence run counted below (sampled, not exhaustive)",
                             "gcc + ASan/UBSan, the harness in /verif/harness, /verif/gen extractors"],
            "theorems": proof["theorems"], "axioms_found": proof["axioms"],
            "proof_failures": proof["failures"],
            "generated_from_source": proof["gen"],
            "evaluations": res.evaluations, "distinct_nontrivial": len(res.nontrivial),
            "rule": res.rule + (" PLUS systematic schedule enumeration (vlib/sched.py): for a few small multi-thread base scenarios (regression corpus first) every "
                                "schedule within the stated preemption bound of the non-preemptive run, smallest deviation first, up to the per-base budget, each "
                                "executed on the real library and judged/replayed like any other case" if _sched_stats(prop) else ""),
            "samples": res.samples[:6],
            "traces_validated_against_impl": res.evaluations,
            "divergences": len(res.divergences), "impl_violations": len(res.impl_violations),
            "known_findings_seen": sorted(seen_known),
            "search_ran": searched is not None,
            **res.extra,
            **({"schedule_enumeration": _sched_stats(prop)} if _sched_stats(prop) else {}),
        },
        "assumptions": res.assumptions,
        "wall_s": round(time.time() - t0, 2),
        "violations": len(new_viol) + (1 if (unproved and not new_viol) else 0),
    }
    os.makedirs(EVID, exist_ok=True)
    with open(os.path.join(EVID, prop + ".json"), "w") as f:
        json.dump(ev, f, indent=1, default=str)
    for l in lines:
        print(l)
    print(f"[{prop}] tier={tier} seed={seed} obligations={proof['obligations']} discharged={proof['discharged']} "
          f"cases={res.evaluations} nontrivial={len(res.nontrivial)} divergences={len(res.divergences)} "
          f"impl_violations={len(res.impl_violations)} rc={rc} wall={time.time()-t0:.1f}s")
    sys.stdout.flush()
    return rc
