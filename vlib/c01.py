"""C01: decided on the L1 machine (theorem Ivy.Props.C01.monitor_accepts) + T-replay correspondence."""
import os, re
from . import l1, loopgen
PROP = "C01"
LEANCHECK_MODULES = ["Ivy.L1.Machine", "Ivy.L1.Exec", "Ivy.Mon.C01", "Ivy.L1.ProofsC01", "Ivy.Props.C01"]
FAMILIES = ['storm', 'mix']
MONS = ['C01']
SANS = ['heap-use-after-free', 'SEGV', 'null-call', 'double-free', 'attempting free']
RULE = ("scenario families ['storm', 'mix'] (see vlib/loopgen.py) rotating over the four poll methods and the fault configurations; every log is "
        "replayed through the Lean machine (every library record must be predicted) and through the Lean monitor(s) ['C01']; sanitizer "
        "classes counted as violations of this property: ['heap-use-after-free', 'SEGV', 'double-free', 'attempting free']. non-trivial = a handler unregistered (and the scenario then freed) an object other than itself, or a one-shot object was freed inside its own handler; distinct by hash of the log")

RETRACT_RULE = ("; plus the ENUMERATED family 'retract' (416 scenarios per run, not sampled: 264 same-iteration retractions, 24 failed-then-real registrations, 128 failed registration followed by release of the object and table compaction): 4 methods x {descriptor, cross-thread iv_event, iv_event_raw} "
                "handler dispatched first x 10 manipulations of another source collected in the same iteration (handlers cleared then unregistered, "
                "freed, recycled, same struct re-registered, bands dropped and re-added) x both arrival orders, and failed registration attempts "
                "followed by a successful registration of the same, not re-initialised, struct")

OTHER_RULE = ("; plus, for the object kinds outside the loop machine (signal interests, child-wait interests, inotify watches/instances), the scenario "
              "families of C10, C11 and C20 with the after-unregister / use-after-free part of their oracles")


def nontrivial(log):
    inside = None
    for l in log.splitlines():
        w = l.split()
        if not w: continue
        if w[0] == "CB": inside = w[1]
        elif w[0] == "END": inside = None
        elif inside and w[0] == "FREE": return True
    return False


# object kinds that do not live in the L1 machine: signal interests, child-wait interests, inotify watches/instances. Their own
# checks (C10, C11, C20) run the real code with handlers that unregister and free themselves/each other; the part of their
# oracles that says "no handler call, no memory access after unregister returned" is this property's statement for those kinds.
OTHER_KINDS = [("c10", "signal interests"), ("c11", "child-wait interests"), ("c20", "inotify watches and instances")]
AFTER_UNREG = re.compile(r"unregister|not registered|use-after-free|after the instance|freed", re.I)


def run(tier, seed, proof):
    res = l1.run_property(PROP, tier, seed, proof, FAMILIES, MONS, SANS, nontrivial, RULE + RETRACT_RULE + loopgen.ENUM_RULE + OTHER_RULE,
                          extra_cases=lambda tier, seed: loopgen.retract_cases(seed) + loopgen.erronly_cases() + loopgen.quit_cases())
    import importlib
    kinds = {}
    for name, what in OTHER_KINDS:
        if res.impl_violations:
            break
        mod = importlib.import_module("vlib." + name)
        sub = mod.run(tier, seed, proof)
        res.evaluations += sub.evaluations
        res.nontrivial |= set(name + "-" + x for x in sub.nontrivial)
        kinds[what] = sub.evaluations
        for sig, msg, pth in sub.impl_violations:
            if AFTER_UNREG.search(sig + " " + msg):
                if pth and os.path.isfile(pth):
                    txt = open(pth).read()
                    open(pth, "w").write(f"# other-kind case (replayed by vlib/{name}.py)\n" + txt)
                res.impl_violations.append((f"C01:{name}:" + sig, f"{what}: " + msg, pth))
        for d, pth in sub.divergences:
            res.divergences.append((f"{what} ({name} harness): " + d, pth))
    res.extra["other_object_kinds_cases"] = kinds
    return res


def search(tier, seed, proof):
    return l1.search_property(PROP, tier, seed, FAMILIES[:1], MONS, SANS)


def replay(path):
    import importlib
    m = re.search(r"# other-kind case \(replayed by vlib/(c\d+)\.py\)", open(path).read())
    if m:
        return importlib.import_module("vlib." + m.group(1)).replay(path)
    return l1.replay(path)
