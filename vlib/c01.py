"""C01: decided on the L1 machine (theorem Ivy.Props.C01.monitor_accepts) + T-replay correspondence."""
from . import l1, loopgen
PROP = "C01"
LEANCHECK_MODULES = ["Ivy.L1.Machine", "Ivy.L1.Exec", "Ivy.Mon.C01", "Ivy.L1.ProofsC01", "Ivy.Props.C01"]
FAMILIES = ['storm', 'mix']
MONS = ['C01']
SANS = ['heap-use-after-free', 'SEGV', 'double-free', 'attempting free']
RULE = ("scenario families ['storm', 'mix'] (see vlib/loopgen.py) rotating over the four poll methods and the fault configurations; every log is "
        "replayed through the Lean machine (every library record must be predicted) and through the Lean monitor(s) ['C01']; sanitizer "
        "classes counted as violations of this property: ['heap-use-after-free', 'SEGV', 'double-free', 'attempting free']. non-trivial = a handler unregistered (and the scenario then freed) an object other than itself, or a one-shot object was freed inside its own handler; distinct by hash of the log")

RETRACT_RULE = ("; plus the ENUMERATED family 'retract' (264 scenarios per run, not sampled): 4 methods x {descriptor, cross-thread iv_event, iv_event_raw} "
                "handler dispatched first x 10 manipulations of another source collected in the same iteration (handlers cleared then unregistered, "
                "freed, recycled, same struct re-registered, bands dropped and re-added) x both arrival orders, and failed registration attempts "
                "followed by a successful registration of the same, not re-initialised, struct")


def nontrivial(log):
    inside = None
    for l in log.splitlines():
        w = l.split()
        if not w: continue
        if w[0] == "CB": inside = w[1]
        elif w[0] == "END": inside = None
        elif inside and w[0] == "FREE": return True
    return False


def run(tier, seed, proof):
    return l1.run_property(PROP, tier, seed, proof, FAMILIES, MONS, SANS, nontrivial, RULE + RETRACT_RULE,
                           extra_cases=lambda tier, seed: loopgen.retract_cases(seed))


def search(tier, seed, proof):
    return l1.search_property(PROP, tier, seed, FAMILIES[:1], MONS, SANS)


replay = l1.replay
