"""C13: pool shutdown and iv_thread lifetime. Same T-sched harness, Lean LTS and driver as C12 (shared code in c12.py);
the scenario families put pools at setup / in completions / in timers / at quiescence (with immediate re-creation in
the same structure), create iv_threads in every exit mode, and let creators leave their loop (iv_quit) and deinitialise
while threads they created are alive / have just exited / have been joined; the oracle part that matters here: drain
after put, thread_start/thread_stop pairing per worker, every created thread joined or handed over, pool events
released, iv_main returns, no post to a deinitialised loop.
In addition the free-running program harness/tsan_thread_deinit.c (real threads, real kernel: creators that quit and
deinitialise with children in every state, all exit modes) is run under ASan+LeakSanitizer (quick and thorough) and
under ThreadSanitizer (thorough): use-after-free, leaked thread records and data races between the exiting child and
the creator's tear-down."""
import os, re, subprocess
from . import common
from . import c12

PROP = "C13"
LEANCHECK_MODULES = ["Ivy.L3.Work", "Ivy.L3.WorkSpec", "Ivy.L3.WorkProofs", "Ivy.Props.C13"]
build = c12.build
oracle = c12.oracle
PROG_SRC = os.path.join(common.VERIF, "harness", "tsan_thread_deinit.c")
TSAN_FLAGS = ["-O1", "-g", "-fsanitize=thread"]
# one-way flags exempt by the C14 property statement
TSAN_EXEMPT = {"inited", "eventfd_in_use", "epoll_support", "epoll_pwait2_support", "iv_event_use_event_raw", "timerfd_support",
               "splice_available", "pipe2_support", "clock_source", "method", "iv_thread_debug", "iv_state_key_allocated", "sig_owner_pid"}


def build_prog(kind):
    flags = TSAN_FLAGS if kind == "tsan" else list(common.SAN)
    ok, objs, log = common.build_lib(flags=flags, tag="tsan" if kind == "tsan" else "asan")
    if not ok:
        return None, log
    exe = os.path.join(common.BUILD, f"thread_deinit_{kind}")
    ok, log = common._link(exe, ["gcc"] + flags + common.CFLAGS_COMMON + [f"-I{common.VERIF}/harness"], [PROG_SRC] + objs + ["-lpthread"])
    return (exe if ok else None), log


def run_prog(exe, kind, seed, excl):
    env = dict(os.environ, ASAN_OPTIONS="detect_stack_use_after_return=1:detect_leaks=1", TSAN_OPTIONS="halt_on_error=0")
    if excl:
        env["IV_EXCLUDE_POLL_METHOD"] = excl
    else:
        env.pop("IV_EXCLUDE_POLL_METHOD", None)
    try:
        r = subprocess.run([exe, str(seed), "4", "300", "3"], stdout=subprocess.PIPE, stderr=subprocess.PIPE, text=True, timeout=120, env=env)
        out, err, rc = r.stdout, r.stderr, r.returncode
    except subprocess.TimeoutExpired:
        return [("deinit-program:timeout", "free-running program did not finish (deadlock?)")], ""
    v = []
    if kind == "tsan":
        for blk in err.split("=================="):
            if "WARNING: ThreadSanitizer" in blk:
                m = re.search(r"Location is global '(\w+)'", blk)
                if m and m.group(1) in TSAN_EXEMPT:
                    continue
                sm = next((l for l in blk.splitlines() if l.startswith("SUMMARY")), "SUMMARY ?")
                fn = sm.split(" in ")[-1].strip()
                thr = "iv_thread" in blk and ("iv_thread_destructor" in blk or "iv_thread_tls_deinit_thread" in blk or "__iv_deinit" in blk)
                v.append(("thread:creator-deinit-live-thread" if thr else "deinit-program:tsan:" + fn, "ThreadSanitizer: " + sm[:200]))
    else:
        if "AddressSanitizer" in err or "LeakSanitizer" in err or rc != 0:
            s = common.san_line(err) or "exit %d" % rc
            thr = "iv_thread_destructor" in err or "iv_thread_create" in err
            fn = re.sub(r".* in (\S+).*", r"\1", next((l for l in err.splitlines() if "/src/iv_" in l and " in " in l), "?"))
            v.append(("thread:creator-deinit-live-thread" if thr else "deinit-program:asan:" + fn, s[:200]))
    return v, out


def free_running(res, tier, seed):
    plan = [("asan", 3 if tier == "quick" else 20)] + ([("tsan", 20)] if tier == "thorough" else [])
    stats = {}
    for kind, n in plan:
        exe, log = build_prog(kind)
        if exe is None:
            res.divergences.append((f"harness/tsan_thread_deinit.c does not build ({kind}): {log[-300:]}", None))
            continue
        runs = bad = 0
        for sd in range(seed * 100, seed * 100 + n):
            for excl in (None, "epoll-timerfd epoll"):
                v, out = run_prog(exe, kind, sd, excl)
                runs += 1
                if v:
                    bad += 1
                    if not any(s == f"c13:{v[0][0]}" for s, _, _ in res.impl_violations):
                        case = f"# free-running program, no scenario file\n# {exe} {sd} 4 300 3   (IV_EXCLUDE_POLL_METHOD={excl})\n"
                        res.impl_violations.append((f"c13:{v[0][0]}", f"implementation violates C13 (harness/tsan_thread_deinit.c, {kind}, seed {sd}): {v[0][1]}", case))
                stats[kind] = {"runs": runs, "with_reports": bad, "last_stats": out.strip()[-160:]}
        res.evaluations += runs
    res.extra["free_running_thread_deinit"] = stats


def run(tier, seed, proof):
    res = c12.run_prop(PROP, tier, seed, proof)
    res.rule = c12.RULE + ("; plus creators leaving their loop with iv_quit (or never running it) and deinitialising while created threads are alive, "
                           "just exited or joined; plus the free-running program tsan_thread_deinit.c under ASan/LSan (and TSan in the thorough tier)")
    res.assumptions = c12.ASSUMPTIONS + [
        "TLS destructors of an exiting thread all run (glibc: in key order, repeated while values remain): the loop-state destructor and iv_thread's destructor",
        "pthread_join of an exited thread returns; pthread_detach of an exited, unjoined thread releases it",
        "iv_thread_lock makes iv_thread_destructor and iv_thread_tls_deinit_thread atomic w.r.t. each other (checked: lock records in the log, TSan in the thorough tier)",
    ]
    if proof["driver_ok"]:
        free_running(res, tier, seed)
    return res


def search(tier, seed, proof):
    return c12.search_prop(PROP, tier, seed, proof)


replay = c12.replay
