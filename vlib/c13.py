"""C13: pool shutdown and iv_thread lifetime. Same T-sched harness, Lean LTS and driver as C12 (shared code in c12.py);
the scenario families put pools at setup / in completions / in timers / at quiescence (with immediate re-creation in
the same structure) and create iv_threads in every exit mode; the oracle part that matters here: drain after put,
thread_start/thread_stop pairing per worker, every created thread joined, pool events released, iv_main returns."""
from . import common
from . import c12

PROP = "C13"
LEANCHECK_MODULES = ["Ivy.L3.Work", "Ivy.L3.WorkSpec", "Ivy.L3.WorkProofs", "Ivy.Props.C13"]
build = c12.build
oracle = c12.oracle


def run(tier, seed, proof):
    res = c12.run_prop(PROP, tier, seed, proof)
    res.rule = c12.RULE
    res.assumptions = c12.ASSUMPTIONS + [
        "TLS destructors of an exiting thread all run (glibc: in key order, repeated while values remain): the loop-state destructor and iv_thread's destructor",
        "pthread_join of an exited thread returns",
    ]
    return res


def search(tier, seed, proof):
    return c12.search_prop(PROP, tier, seed, proof)


replay = c12.replay
