"""C15: poll method, interrupted waits and missing syscalls do not change behaviour.
The L1 theorems (Ivy.Props.C01..C07) are quantified over every method, every configuration and every
EINTR/ENOSYS answer, so they ARE the statement at model level (Ivy.Props.C15 collects them, plus the method
selection theorem). This check ties that to the code by FAULT ENUMERATION: every base scenario is re-run under
every method x every missing-facility configuration x EINTR at every wait position (quick: first 3), each log
replayed through the machine and all monitors; plus a differential run of method selection."""
import collections, concurrent.futures, hashlib, os, random, subprocess
from . import common, l1, loopgen

PROP = "C15"
LEANCHECK_MODULES = ["Ivy.L1.Select", "Ivy.Props.C15", "Ivy.L0.FdPoll", "Ivy.L0.FdPollProofs", "Ivy.Props.C15poll", "Ivy.L0.FdEpoll", "Ivy.L0.FdEpollProofs", "Ivy.Props.C15epoll"]
MONS = ["C01", "C02", "C03", "C04", "C06", "C07", "C07spin", "C07idle"]
SANS = ["heap-use-after-free", "heap-buffer-overflow", "SEGV", "null-call", "double-free", "runtime error", "abort", "attempting free"]
FACILITIES = {
    None: [[], ["nopwait2"], ["pwait2eperm"], ["notimerfd"], ["noepollcreate1"], ["noeventfd2"], ["noeventfd"], ["nopwait2", "notimerfd", "noeventfd"]],
    "epoll-timerfd": [[], ["nopwait2"], ["pwait2eperm"], ["noepollcreate1"], ["noeventfd"]],
    "epoll-timerfd epoll": [[], ["noppoll"], ["noeventfd2"], ["noeventfd"], ["noppoll", "noeventfd"], ["probe-eintr=1"], ["probe-eintr=2"]],
    "epoll-timerfd epoll ppoll": [[], ["noeventfd2"], ["noeventfd"], ["probe-eintr=1"], ["probe-eintr=2"]],
}
RULE = ("fault enumeration: base scenarios (families mix, storm, deadline, churn, lifecycle, tasks, cycles, generated without random faults) x 4 poll methods x every "
        "missing-facility configuration applicable to the method (epoll_pwait2 ENOSYS/EPERM, timerfd_create ENOSYS mid-run, ppoll ENOSYS mid-run, "
        "epoll_create1, eventfd2, eventfd; EINTR on the k-th registration probe of iv_fd_register_try under poll/ppoll) x EINTR injected at wait call k (quick k=1..3, thorough every k reached); every log replayed through the "
        "Lean machine and all monitors; plus method selection on random IV_EXCLUDE_POLL_METHOD strings x epoll availability against Ivy.L1.Select. "
        "plus enumerated bases (error-only descriptors, iv_quit inside a batch: vlib/loopgen.py erronly_cases/quit_cases; quick: a rotating subset) under the same method x facility x EINTR product; plus the enumerated kernel-timer family (vlib/loopgen.py ktimer_cases, 140 scenarios, 4 methods); plus C09's scenario programs in the three iv_event_raw transports (eventfd2 / old eventfd / pipe fallback) x four methods with C09's oracle. non-trivial = a run in which an injected fault actually fired or a non-default method was selected; distinct by log hash")


def with_cfg(lines, method, flags, eintr=None):
    out = []
    if method is not None:
        out.append(f"exclude {method}")
    for l in lines:
        if l.startswith("exclude"):
            continue
        if l.startswith("cfg"):
            keep = [t for t in l.split()[1:] if t.startswith(("waitlimit", "cblimit", "fill"))]
            out.append("cfg " + " ".join(keep + list(flags) + ([f"eintr={eintr}"] if eintr else [])))
        else:
            out.append(l)
    return out


def method_oracle(r):
    """a missing epoll_create1 / epoll_pwait2 / eventfd2 / eventfd does not change WHICH poll method is selected (each has an in-method
    fallback): the method the run starts with is the first one the exclusion list allows"""
    excl = next((l for l in r.lines if l.startswith("exclude ")), "exclude ")[8:].split()
    cfg = next((l for l in r.lines if l.startswith("cfg ")), "cfg")
    if "noepoll" in cfg.split():          # epoll itself unavailable: outside this rule (covered by the selection T-diff)
        return None
    want = next((m for m in ("epoll-timerfd", "epoll", "ppoll", "poll") if m not in excl), None)
    got = next((l.split()[1].split("=")[1] for l in r.log.splitlines() if l.startswith("CFG method=")), None)
    if want and got and got != want:
        return ("C15:method-changed", f"poll method {got} selected instead of {want} although only an optional system call is missing ({cfg[4:]}): "
                "the in-method fallback was not taken")
    return None


def fault_fired(log):
    return "WRET EINTR" in log or "WRET ENOSYS" in log or "CFG method=epoll-timerfd timerfd=1" not in log


def selection_cases(rng, n):
    names = ["epoll-timerfd", "epoll", "ppoll", "poll", "epol", "epoll-timerfdx", "kqueue", "x" * 70, "epoll" + "y" * 58, "a" * 63 + "epoll"]
    seps = [" ", "  ", "\t", " \t "]
    cases = [("unset", 1), ("unset", 0)]
    for _ in range(n):
        k = rng.randrange(0, 5)
        s = rng.choice(["", " ", "\t"]) + "".join(rng.choice(names) + rng.choice(seps) for _ in range(k))
        if rng.random() < 0.3:
            s = s.rstrip()
        cases.append((s, rng.randrange(2)))
    return cases


def run_selection(cases):
    """returns list of (case, impl_method, model_method)"""
    os.makedirs(l1.SCRATCH, exist_ok=True)
    model_in = []
    impl = []
    for s, ep in cases:
        sc = []
        if s != "unset":
            if "\n" in s:
                continue
            sc.append("exclude " + s)
        sc.append("cfg waitlimit=2" + ("" if ep else " noepoll"))
        sc.append("obj timer t0")
        r = l1.run_case("sel", sc)
        m = "none"
        for l in r.log.splitlines():
            if l.startswith("CFG method="):
                m = l.split()[1].split("=")[1]
        if "FATAL" in r.log and m == "none":
            m = "none"
        impl.append(m)
        model_in.append(f"SEL {ep} unset" if s == "unset" else f"SEL {ep} hex {s.encode().hex()}")
    b = common.run_cmd([common.REPLAY_BIN, "select"], "\n".join(model_in) + "\n")
    model = [l.split()[1] for l in b.stdout.splitlines() if l.startswith("METHOD")]
    return list(zip(cases, impl, model))


def run(tier, seed, proof):
    res = common.Result()
    res.rule = RULE
    res.assumptions = ["facilities are missing from the start of the process (the library latches ENOSYS), EINTR at any wait call",
                       "same guarantees, not trace equality, across methods (delivery order within an iteration may differ)"]
    ok, log = l1.build()
    if not ok:
        res.divergences.append(("loop harness no longer builds: " + log[-400:], None))
        return res
    if not proof["driver_ok"]:
        return res
    rng = random.Random(seed)
    nb = 20 if tier == "quick" else 90
    # the timer-descriptor state machine (arm after 5 unchanged deadlines, disarm, re-arm) only exists on one method, so deadlines get
    # every second base
    fams = ["mix", "deadline", "storm", "deadline", "churn", "deadline", "lifecycle", "deadline", "tasks", "cycles"]
    cases = l1.corpus_cases(PROP)
    bases = [(fams[i % len(fams)], loopgen.scenario(seed * 1000 + i, family=fams[i % len(fams)], method=None, faults=False)) for i in range(nb)]
    # enumerated bases (method-independent bodies of vlib/loopgen.py erronly_cases / quit_cases): error-only descriptors, iv_quit in a batch
    enum = [(n.split("-", 3)[0] + ":" + n.split("-", 3)[3], b) for n, b in loopgen.erronly_cases() + loopgen.quit_cases() if n.split("-")[1:3] == ["epoll", "timerfd"]]
    # same-iteration retraction by a cross-thread event / raw-event handler (the batch holds the kick AND descriptors): method-independent bodies
    enum += [("retract:" + n.split("-", 3)[3], b) for n, b in loopgen.retract_cases(seed) if n.startswith(("retract-epoll-timerfd-event-", "retract-epoll-timerfd-raw-"))][::4]
    bases += enum if tier != "quick" else [enum[(seed + j * 5) % len(enum)] for j in range(6)] + [e for e in enum if e[0].startswith("erronly")][:3] + [e for e in enum if e[0].startswith("retract")][seed % 5::5]
    for i, (fam, base) in enumerate(bases):
        # how many wait calls does the base run make?
        r0 = l1.run_case("base", with_cfg(base, None, []))
        nwaits = sum(1 for l in r0.log.splitlines() if l.startswith("WAIT "))
        ks = range(1, min(nwaits, 3 if tier == "quick" else 40) + 1)
        for meth, flagsets in FACILITIES.items():
            for fl in flagsets:
                cases.append((f"{fam}{i}-{loopgen.METHOD_NAME[meth]}-{'+'.join(fl) or 'plain'}", with_cfg(base, meth, fl)))
            for k in ks:
                cases.append((f"{fam}{i}-{loopgen.METHOD_NAME[meth]}-eintr{k}", with_cfg(base, meth, [], eintr=k)))
    cases += loopgen.ktimer_cases(seed)
    cases += loopgen.alias_cases()     # one descriptor number offered to two objects: accepted or refused depending on the method, the first is served
    cases += [c for c in loopgen.retract_cases(seed) if c[0].startswith("tryeintr")]
    fired = collections.Counter()
    viol, div = [], []
    with concurrent.futures.ThreadPoolExecutor(max_workers=common.NCPU) as ex:
        for r in common.bounded_map(ex, lambda c: l1.run_case(*c), cases):
            res.evaluations += 1
            for tag in ("WRET EINTR", "WRET ENOSYS"):
                fired[tag] += r.log.count(tag)
            for l in r.log.splitlines():
                if l.startswith("CFG"):
                    fired[l] += 1
            if fault_fired(r.log):
                res.nontrivial.add(hashlib.sha1(r.log.encode()).hexdigest()[:16])
            f = l1.failing(r, PROP, MONS, SANS) or method_oracle(r)
            if f:
                viol.append((r, f))
            elif l1.diverging(r):
                div.append((r, l1.diverging(r)))
            if len(res.samples) < 2 and fault_fired(r.log):
                res.samples.append({"case": r.name, "scenario_head": r.lines[:6], "log_tail": r.log.splitlines()[-12:]})
    seen = set()
    for r, (sig, msg) in viol:
        if sig in seen or len(seen) >= 3:
            continue
        seen.add(sig)
        def pred(ls, sig=sig):
            ff = l1.failing(l1.run_case("s", ls), PROP, MONS, SANS)
            return ff is not None and ff[0] == sig
        res.impl_violations.append((sig, msg + f" [configuration {r.name}]", common.write_case(PROP, r.name, l1.shrink_scenario(r.lines, pred), tier, seed, ext="scn")))
    for r, d in div[:3]:
        res.divergences.append((d[:400] + f" [configuration {r.name}]", common.write_case(PROP, r.name + "-div", r.lines, tier, seed, ext="scn")))
    # method selection differential
    sel = run_selection(selection_cases(rng, 40 if tier == "quick" else 400))
    res.evaluations += len(sel)
    for (s, ep), im, mo in sel:
        if im != mo:
            sc = ([] if s == "unset" else ["exclude " + s]) + ["cfg waitlimit=2" + ("" if ep else " noepoll"), "obj timer t0"]
            res.divergences.append((f"method selection: implementation chose {im}, Ivy.L1.Select.select says {mo} for IV_EXCLUDE_POLL_METHOD={s!r} epoll_available={ep}",
                                    common.write_case(PROP, "select", sc, tier, seed, ext="scn")))
            break
    # iv_event_raw's transports (eventfd2 / old eventfd / pipe fallback when eventfd is missing): the scenario programs and the log-only
    # oracle of C09, run under the deterministic scheduler in all three transports x four methods; a failure there is a failure of the
    # "optional facility is missing -> the library falls back transparently" clause and is reported here as well
    from . import c09
    sub = c09.run(tier, seed, proof)
    res.evaluations += sub.evaluations
    res.nontrivial |= set("raw-" + x for x in sub.nontrivial)
    for sig, msg, pth in sub.impl_violations:
        if pth and os.path.isfile(pth):
            txt = open(pth).read()
            open(pth, "w").write("# raw-transport case (replayed by vlib/c09.py)\n" + txt)
        res.impl_violations.append(("C15:raw:" + sig, "fallback of iv_event_raw when eventfd2/eventfd are missing: " + msg, pth))
    for d, pth in sub.divergences:
        if pth and os.path.isfile(pth):
            txt = open(pth).read()
            open(pth, "w").write("# raw-transport case (replayed by vlib/c09.py)\n" + txt)
        res.divergences.append(("raw transports: " + d, pth))
    res.extra["raw_transport_runs"] = sub.extra.get("runs_per_family_and_transport")
    # splice(2) missing: iv_fd_pump falls back to a read()/write() bounce buffer; C17's scripted runs cover that mode (forced, and chosen by
    # the availability probe failing); a failure of a pump that runs WITHOUT splice is a failure of this property's fallback clause
    from . import c17
    sub17 = c17.run(tier, seed, proof)
    res.evaluations += sub17.evaluations
    res.nontrivial |= set("pump-" + x for x in sub17.nontrivial)
    for sig, msg, pth in sub17.impl_violations:
        txt = open(pth).read() if pth and os.path.isfile(pth) else ""
        news = [l.split() for l in txt.splitlines() if l.startswith("new")]
        rw_only = news and all(("probe-fail" in w) or (w[-2] == "0") for w in news)
        if rw_only:
            open(pth, "w").write("# pump case (replayed by vlib/c17.py)\n" + txt)
            res.impl_violations.append(("C15:pump:" + sig, "iv_fd_pump without splice(2): " + msg, pth))
    res.extra["pump_cases"] = sub17.evaluations
    # the poll / ppoll back end's own bookkeeping (dense pollfd array, swap-remove, slot numbers, revents -> bands): array-level model
    # Ivy.L0.FdPoll (theorems Ivy.Props.C15poll), differential run of the real iv_fd_poll.c / iv_fd.c in both methods
    if os.path.exists(os.path.join(common.VERIF, "vlib", "c15poll.py")):
        from . import c15poll
        c15poll.check(tier, seed, res)
    # the registration bookkeeping of the epoll back ends (deferred notify list, ADD/MOD/DEL choice, belief = kernel interest list):
    # model Ivy.L0.FdEpoll (theorems Ivy.Props.C15epoll), differential run of the real iv_fd.c + iv_fd_epoll.c with epoll_ctl / epoll_wait
    # wrapped, independent reference on the logged epoll_ctl calls
    if os.path.exists(os.path.join(common.VERIF, "vlib", "c15epoll.py")):
        from . import c15epoll
        c15epoll.check(tier, seed, res)
    res.extra["faults_fired"] = dict(fired)
    res.extra["selection_cases"] = len(sel)
    res.extra["configurations_per_base"] = sum(len(v) for v in FACILITIES.values())
    return res


def search(tier, seed, proof):
    return l1.search_property(PROP, tier, seed, ["mix"], MONS, SANS, n=200)


def replay(path):
    if "# raw-transport case" in open(path).read():
        from . import c09
        return c09.replay(path)
    if "# pump case" in open(path).read():
        from . import c17
        return c17.replay(path)
    if path.endswith(".epollops") or "C15:epoll:" in open(path).read():
        from . import c15epoll
        return c15epoll.replay(path)
    if path.endswith(".pollops") or "C15:poll:" in open(path).read():
        from . import c15poll
        return c15poll.replay(path)
    return l1.replay(path)
