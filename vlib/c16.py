"""C16: AVL tree — T-diff of /repo/src/iv_avl.c against the Lean model Ivy.L0.Avl, plus an
independent reference oracle (sorted set + structural checker) run on the implementation's output."""
import re, itertools, os, random, subprocess, hashlib
from . import common

PROP = "C16"
LEANCHECK_MODULES = ["Ivy.L0.Avl", "Ivy.L0.AvlProofs", "Ivy.Props.C16", "Ivy.L0.AvlPtr", "Ivy.Props.C16ptr"]
HARNESS = os.path.join(common.BUILD, "avl_h")


def build():
    return common.cc(HARNESS, [os.path.join(common.VERIF, "harness", "avl_h.c"), f"{common.REPO}/src/iv_avl.c"])


# ---- enumeration of AVL shapes (as nested tuples (l, r) / None), memoised by height
_shapes = {0: [None]}
def shapes(h):
    if h in _shapes:
        return _shapes[h]
    if h == 1:
        _shapes[1] = [(None, None)]
        return _shapes[1]
    a, b = shapes(h - 1), shapes(h - 2)
    res = [(l, r) for l in a for r in a] + [(l, r) for l in a for r in b] + [(l, r) for l in b for r in a]
    _shapes[h] = res
    return res


_fib = {0: None, 1: (None, None)}


def fib_shape(h):
    if h not in _fib:
        _fib[h] = (fib_shape(h - 1), fib_shape(h - 2))
    return _fib[h]


def spine_shape(h, rng=None):
    """a root-to-leaf path of h nodes whose off-path subtrees are the sparsest possible: at every level the off-path sibling is a
    Fibonacci tree either as tall as the on-path child (the node is balanced: an insert at the bottom of the path raises its height)
    or one shorter (the node leans towards the path: a delete at the bottom lowers it).  rng=None: all balanced, path on the left.
    Returns (shape, directions from the root)."""
    if h == 1:
        return (None, None), []
    sub, dirs = spine_shape(h - 1, rng)
    sib = fib_shape(h - 1 if rng is None or rng.random() < 0.5 else h - 2)
    if rng is not None and rng.random() < 0.5:
        return (sib, sub), [1] + dirs
    return (sub, sib), [0] + dirs


def key_at(s, dirs):
    """key (in dump_shape's numbering 2,4,6,..) of the node reached from the root of s by dirs"""
    base = 0
    for d in dirs:
        if d:
            base += 2 * (count(s[0]) + 1)
        s = s[d]
    return base + 2 * (count(s[0]) + 1)


_ccache = {}


def count(s):
    if s is None:
        return 0
    k = id(s)
    if k not in _ccache:
        _ccache[k] = 1 + count(s[0]) + count(s[1])
        _keep.append(s)
    return _ccache[k]


_keep = []


def count_uncached(s):
    return 0 if s is None else 1 + count(s[0]) + count(s[1])


_hcache = {}


def height(s):
    if s is None:
        return 0
    k = id(s)
    if k not in _hcache:
        _hcache[k] = 1 + max(height(s[0]), height(s[1]))
        _keep.append(s)     # the caches are keyed by id(): keep the object alive so that its id is never reused
    return _hcache[k]


def dump_shape(s, base=0):
    """keys are 2,4,6,... in order; returns (text, n)"""
    if s is None:
        return ".", 0
    lt, ln = dump_shape(s[0], base)
    k = base + 2 * (ln + 1)
    rt, rn = dump_shape(s[1], k)
    return f"( {lt} {k}:{height(s)} {rt} )", ln + 1 + rn


# ---- reference oracle on the implementation's dump lines
def parse_dump(toks, i):
    if toks[i] == ".":
        return None, i + 1
    assert toks[i] == "("
    l, i = parse_dump(toks, i + 1)
    k, h = toks[i].split(":")
    r, i = parse_dump(toks, i + 1)
    assert toks[i] == ")"
    return (l, int(k), int(h), r), i + 1


def check_tree(t):
    """returns (real_height, keys in order) or raises AssertionError with the reason"""
    if t is None:
        return 0, []
    l, k, h, r = t
    hl, kl = check_tree(l)
    hr, kr = check_tree(r)
    assert h == 1 + max(hl, hr), f"stored height of {k} is {h}, real {1+max(hl,hr)}"
    assert abs(hl - hr) <= 1, f"node {k} unbalanced ({hl} vs {hr})"
    keys = kl + [k] + kr
    return h, keys


def oracle(ops, outs):
    """Independent statement of C16 on the implementation's outputs. Returns None or message."""
    ref = set()
    if len(outs) < len([o for o in ops]):
        return f"implementation produced {len(outs)} lines for {len(ops)} ops (crash / sanitizer abort)"
    j = 0
    for opi, op in enumerate(ops):
        w = op.split()
        line = outs[j]; j += 1
        try:
            if w[0] == "reset":
                ref = set()
            elif w[0] == "load":
                t, _ = parse_dump(w[1:], 0)
                _, keys = check_tree(t)
                ref = set(keys)
            elif w[0] in ("ins", "del", "reins", "insh"):
                k = int(w[-1])
                p = line.split()
                assert p[0] == "RES" and p[2] == "DUMP", "unexpected line " + line
                if w[0] in ("ins", "reins", "insh"):
                    exp_rc = "-1" if k in ref else "0"
                    assert p[1] == exp_rc, f"insert {k} returned {p[1]}, expected {exp_rc}"
                    ref.add(k)
                else:
                    ref.discard(k)
                t, _ = parse_dump(p[3:], 0)
                _, keys = check_tree(t)
                assert keys == sorted(ref), f"contents {keys} != expected {sorted(ref)}"
            elif w[0] == "trav":
                assert line.split()[1:] == [str(x) for x in sorted(ref)], "forward traversal wrong: " + line
                line2 = outs[j]; j += 1
                assert line2.split()[1:] == [str(x) for x in sorted(ref, reverse=True)], "backward traversal wrong: " + line2
        except AssertionError as e:
            return f"after op #{opi} '{op}': {e}"
        except Exception as e:
            return f"after op #{opi} '{op}': unparsable output {line!r} ({e})"
    return None


def run_both(ops):
    text = "\n".join(ops) + "\n"
    try:
        a = subprocess.run([HARNESS], input=text, stdout=subprocess.PIPE, stderr=subprocess.PIPE, text=True, timeout=90)
    except subprocess.TimeoutExpired as e:
        a = subprocess.CompletedProcess(e.cmd, -9, (e.stdout or b"").decode() if isinstance(e.stdout, bytes) else (e.stdout or ""), "TIMEOUT: iv_avl.c did not return")
    # for the models, inserting the node object that is already in the tree is an insert of a key that is present
    mtext = re.sub(r"insh \d+ ", "ins ", text.replace("reins ", "ins "))
    b = subprocess.run([common.REPLAY_BIN, "avl"], input=mtext, stdout=subprocess.PIPE, stderr=subprocess.PIPE, text=True)
    # the pointer-level model (Ivy.L0.AvlPtr: parent pointers, rebalance_path walk, min/max/next/prev) on the same ops
    b.ptr = subprocess.run([common.REPLAY_BIN, "avlptr"], input=mtext, stdout=subprocess.PIPE, stderr=subprocess.PIPE, text=True)
    return a, b


def corpus_cases():
    """regression corpus (runs first): minimised failing inputs of past defects and seeded changes"""
    import glob
    out = []
    for p in sorted(glob.glob(os.path.join(common.VERIF, "corpus", PROP, "*.ops"))):
        ops = [l.strip() for l in open(p) if l.strip() and not l.startswith("#")]
        out.append(("corpus-" + os.path.basename(p)[:-4], ops, "corpus-" + os.path.basename(p)[:-4]))
    return out


def gen_cases(tier, seed):
    yield from corpus_cases()
    """yields (name, ops list, nontrivial-tag)"""
    rng = random.Random(seed)
    maxh = 4
    # exhaustive: every shape up to height maxh x every insert position x every deletable node
    for h in range(0, maxh + 1):
        ops = []
        for s in shapes(h):
            d, n = dump_shape(s)
            for pos in range(0, n + 1):
                ops += [f"load {d}", f"ins {2*pos+1}"]
                # the inserted node object was deleted from a tree earlier and still carries its old height (1: it was a leaf; 2, 3; 0)
                for sh in (1, 2, 3, 0):
                    ops += [f"load {d}", f"insh {sh} {2*pos+1}"]
            for i in range(1, n + 1):
                ops += [f"load {d}", f"del {2*i}"]
            for i in range(1, n + 1):
                ops += [f"load {d}", f"reins {2*i}", "trav"]
            ops += [f"load {d}", "trav"]
        yield (f"exh-h{h}", ops, f"exhaustive-height-{h}")
    # deep trees: the sparsest AVL tree of height h (Fibonacci tree: every node's left subtree one taller) is where a single delete at the
    # bottom of the short side makes the retrace rotate at every level from there (depth about h/2) up to the root, and a delete at the
    # bottom of the tall side lowers every one of the h-1 ancestors: heights 17-19 (4 180 - 10 945 nodes; thorough: up to 21 = 28 656 nodes)
    for h in ((17, 18, 19) if tier == "quick" else (17, 18, 19, 20, 21)):
        f = fib_shape(h)
        d, n = dump_shape(f)
        # del 2 = the deepest leaf of the tall side: every ancestor leans towards it, so all h-1 of them lose one level, without a rotation
        ops = [f"load {d}", f"del {2 * n}", "trav", f"load {d}", "ins 1", f"load {d}", "del 2", "trav",
               f"load {d}", f"del {2 * n}", f"del {2 * n - 2}", f"ins {2 * n + 1}", "ins -1", "trav"]
        yield (f"deep-h{h}", ops, f"deep-height-{h}")
    # longest possible retraces: a path of h nodes with Fibonacci siblings; an insert below (delete of) the bottom of the path changes the
    # height of every one of its h-1 ancestors (all-balanced spine), or of a random subset with rotations in between (random spines)
    for h in ((17, 19) if tier == "quick" else (16, 17, 18, 19, 20, 21)):
        for v in range(3 if tier == "quick" else 8):
            sp, dirs = spine_shape(h, None if v == 0 else random.Random(seed * 131 + h * 17 + v))
            if 2 * count(sp) + 2 >= 60000:
                continue        # the harness' key space (MAXK in harness/avl_h.c); such a shape would only abort the harness
            d, n = dump_shape(sp)
            k = key_at(sp, dirs)
            ops = [f"load {d}", f"ins {k - 1}", "trav", f"load {d}", f"ins {k + 1}", f"load {d}", f"del {k}", "trav"] + \
                  ([f"del {k - 2}"] if k - 2 >= 2 else []) + ([f"del {k + 2}"] if k + 2 <= 2 * n else []) + ["trav"]
            yield (f"spine-h{h}-{v}", ops, f"spine-height-{h}-{v}")
    if tier == "thorough":
        ss = shapes(5)
        chunk = 4000
        for c in range(0, len(ss), chunk):
            ops = []
            for s in ss[c:c + chunk]:
                d, n = dump_shape(s)
                for _ in range(3):
                    ops += [f"load {d}", f"ins {2*rng.randrange(n+1)+1}"]
                    ops += [f"load {d}", f"del {2*rng.randrange(1, n+1)}"]
            yield (f"h5-{c}", ops, f"height5-chunk-{c}")
    # random histories with duplicates
    nrand = 40 if tier == "quick" else 400
    for i in range(nrand):
        span = rng.choice([8, 30, 200, 2000])
        n = rng.choice([50, 200, 1000]) if tier == "quick" else rng.choice([200, 1000, 5000])
        ops = ["reset"]
        present = set()
        for _ in range(n):
            k = rng.randrange(-span, span)
            if present and rng.random() < 0.05:
                ops.append(f"reins {rng.choice(sorted(present))}")
                continue
            if present and rng.random() < 0.45:
                k = rng.choice(sorted(present)) if rng.random() < 0.9 else k
                if k in present:
                    ops.append(f"del {k}"); present.discard(k)
                    continue
            ops.append(f"ins {k}" if rng.random() < 0.5 else f"insh {rng.choice([1, 1, 2, 3, 0])} {k}"); present.add(k)
            if rng.random() < 0.02:
                ops.append("trav")
        ops.append("trav")
        yield (f"rand-{i}", ops, "hist-" + hashlib.sha1(" ".join(ops).encode()).hexdigest()[:12])


def first_diff(a_lines, b_lines):
    for i, (x, y) in enumerate(zip(a_lines, b_lines)):
        if x != y:
            return i
    if len(a_lines) != len(b_lines):
        return min(len(a_lines), len(b_lines))
    return None


def op_index_for_line(ops, li):
    """map output line index to op index (trav yields 2 lines)"""
    j = 0
    for i, op in enumerate(ops):
        n = 2 if op == "trav" else 1
        if li < j + n:
            return i
        j += n
    return len(ops) - 1


def write_case(name, ops, tier, seed):
    d = os.path.join(common.OUT, PROP)
    os.makedirs(d, exist_ok=True)
    p = os.path.join(d, f"case-{tier}-{seed}-{name}.ops")
    open(p, "w").write("\n".join(ops) + "\n")
    return p


def shrink_prefix(ops, bad_op):
    """keep from the last reset/load before the failing op up to the failing op"""
    start = 0
    for i in range(bad_op, -1, -1):
        if ops[i].startswith(("load", "reset")):
            start = i
            break
    return ops[start:bad_op + 1]


def examine(name, ops, tier, seed, res, pre=None):
    a, b = pre if pre is not None else run_both(ops)
    al, bl = [x.rstrip() for x in a.stdout.splitlines()], [x.rstrip() for x in b.stdout.splitlines()]
    res.evaluations += 1
    msg = oracle(ops, al)
    if a.returncode != 0 and msg is None:
        msg = f"harness exit {a.returncode}: {a.stderr.strip().splitlines()[-1] if a.stderr.strip() else ''}"
    if msg is not None:
        # locate and shrink
        import re as _re
        m = _re.search(r"after op #(\d+) ", msg)
        bad = int(m.group(1)) if m else None
        small = shrink_prefix(ops, bad) if bad is not None else ops
        a2, _ = run_both(small)
        if oracle(small, a2.stdout.splitlines()) is None and a2.returncode == 0:
            small = ops
        tail = a.stderr.strip().splitlines()
        san = next((l for l in tail if "ERROR: AddressSanitizer" in l or "runtime error" in l), "")
        p = write_case(name, small, tier, seed)
        res.impl_violations.append((f"avl:{msg.split(':')[-1][:60]}", f"implementation violates C16: {msg} {san}", p))
        return
    for which, lines in (("Ivy.L0.Avl", bl), ("Ivy.L0.AvlPtr (pointer level)", [x.rstrip() for x in b.ptr.stdout.splitlines()])):
        d = first_diff(al, lines)
        if d is not None:
            oi = op_index_for_line(ops, d)
            small = shrink_prefix(ops, oi)
            p = write_case(name, small, tier, seed)
            res.divergences.append((f"model {which} and iv_avl.c disagree at op '{ops[oi]}': impl={al[d] if d < len(al) else '<none>'} model={lines[d] if d < len(lines) else '<none>'}", p))
            break


def run(tier, seed, proof):
    res = common.Result()
    res.rule = ("cases: (1) every AVL shape of height<=4 (thorough: + every shape of height 5 with sampled ops) x every insert position (each with a node object whose link fields hold garbage and whose height "
                "field holds 77 / 1 / 2 / 3 / 0: a recycled node that was a leaf, an inner node, or zeroed) x "
                "every deletable node, loaded into both sides; plus the sparsest (Fibonacci) trees of height 17-19 (thorough: -21) with a delete at the bottom of the short side and inserts at both ends; (2) random insert/delete/duplicate histories. Each case's full tree dump "
                "(shape, keys, stored heights) after every op is compared model vs iv_avl.c and checked by a reference sorted-set oracle. "
                "non-trivial = at least one rotation or early-stop happened; distinct by hash of the op file")
    res.assumptions = ["comparator is a strict total order on keys (int keys in the harness)", "parent pointers: modelled by Ivy.L0.AvlPtr (heap of nodes with parent/left/right/height; refinement to Ivy.L0.Avl proved in Ivy.Props.C16ptr) and additionally checked at run time by the harness", "uint8_t height modelled as Nat (an AVL tree of height 256 needs > 2^177 nodes)"]
    ok, log = build()
    if not ok:
        res.divergences.append(("harness for iv_avl.c no longer compiles: " + log[-400:], None))
        return res
    if not proof["driver_ok"]:
        return res
    nops = 0
    import concurrent.futures
    cases = list(gen_cases(tier, seed))
    ex = concurrent.futures.ThreadPoolExecutor(max_workers=common.NCPU)
    outs = common.bounded_map(ex, lambda c: run_both(c[1]), cases, window=2 * common.NCPU)
    for (name, ops, tag), pre in zip(cases, outs):
        examine(name, ops, tier, seed, res, pre)
        res.nontrivial.add(tag)
        nops += len(ops)
        if len(res.samples) < 3 and name.startswith("rand"):
            res.samples.append({"case": name, "ops_head": ops[:12], "n_ops": len(ops)})
        if len(res.impl_violations) + len(res.divergences) >= 5:
            break
    res.extra["operations_compared"] = nops
    res.extra["exhaustive_shapes_up_to_height"] = 4
    return res


def search(tier, seed, proof):
    """Look for a concrete failing input on the implementation alone (reference oracle), more seeds."""
    res = common.Result()
    ok, _ = build()
    if not ok:
        return res
    for s in range(seed + 1000, seed + 1004):
        for name, ops, tag in gen_cases("quick", s):
            text = "\n".join(ops) + "\n"
            a, _ = run_both(ops)
            res.evaluations += 1
            msg = oracle(ops, a.stdout.splitlines())
            if msg is None and a.returncode != 0:
                msg = f"harness exit {a.returncode}"
            if msg:
                p = write_case("search-" + name, ops, tier, seed)
                res.impl_violations.append((f"avl:{msg.split(':')[0][:60]}", "implementation violates C16: " + msg, p))
                return res
    return res


def replay(path):
    ops = [l.strip() for l in open(path) if l.strip() and not l.startswith("#")]
    ok, log = build()
    if not ok:
        print(log); return 2
    common.lean_build(["ivyreplay"])
    a, b = run_both(ops)
    print("--- implementation"); print(a.stdout, a.stderr[-2000:])
    print("--- model"); print(b.stdout)
    if b.ptr.stdout != b.stdout:
        print("--- pointer-level model"); print(b.ptr.stdout)
    msg = oracle(ops, a.stdout.splitlines())
    print("--- oracle:", msg or "ok")
    return 1 if (msg or a.returncode != 0) else 0
