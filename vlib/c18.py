"""C18: memory/descriptor hygiene. Theorem: resource ledger (Ivy.Props.C18). Tie + search: every scenario family under
ASan/UBSan/LSan (any report = violation), init-use-deinit cycles with descriptor-table and heap ledgers compared across
cycles, descriptor flags after registration, and thread churn under the T-sched harness."""
import collections, concurrent.futures, hashlib, os, re
from . import common, l1, loopgen

PROP = "C18"
LEANCHECK_MODULES = ["Ivy.L1.Ledger", "Ivy.Props.C18"]
FAMILIES = ["cycles", "storm", "mix"]
SANS = ["heap-use-after-free", "heap-buffer-overflow", "stack-buffer-overflow", "global-buffer-overflow", "SEGV", "double-free",
        "attempting free", "runtime error", "LeakSanitizer", "abort"]
RULE = ("families 'cycles' (3-5 init-use-deinit cycles per run: descriptor count and live heap bytes logged before and after every iv_deinit, "
        "LeakSanitizer check after each), 'storm' and 'mix', on all four methods; plus thread-churn runs under the T-sched harness with 1..6 "
        "threads; every sanitizer report, ledger drift across cycles, wrong live delta (epoll fd / timerfd), missing O_NONBLOCK/FD_CLOEXEC on a "
        "registered descriptor, or leak is a violation. non-trivial = a run with >= 2 completed cycles or a thread-churn run; distinct by log hash")


def ledger_oracle(log):
    """implementation-only: ledgers equal across cycles; live delta = epoll fd + timerfd; flags set; no leaks"""
    led, live, method = [], [], None
    for l in log.splitlines():
        w = l.split()
        if not w:
            continue
        if w[0] == "CFG":
            method = w[1].split("=")[1]
        elif w[0] == "FDFLAGS":
            if "nonblock=1" not in l or "cloexec=1" not in l:
                return f"registered descriptor {w[1]} is not non-blocking close-on-exec: {l}"
        elif w[0] in ("LEDGER", "LEDGER-LIVE"):
            d = dict(x.split("=") for x in w[1:])
            d["method"] = method
            (led if w[0] == "LEDGER" else live).append(d)
            if w[0] == "LEDGER" and d.get("leaks", "0") != "0":
                return "LeakSanitizer reports leaked memory after iv_deinit"
    for i in range(1, len(led)):
        if led[i]["fds"] != led[0]["fds"]:
            return f"descriptor table grows across init/deinit cycles: {led[0]['fds']} -> {led[i]['fds']} open descriptors"
    # the harness itself frees consumed stimuli over time, so only sustained growth counts
    h = [int(x["heap"]) for x in led]
    for i in range(3, len(h)):
        if h[i] > h[i - 1] > h[i - 2]:
            return f"live heap keeps growing across init/deinit cycles: {h[i-2]} -> {h[i-1]} -> {h[i]} bytes"
    for lv, ld in zip(live, led):
        exp = (1 if lv["method"].startswith("epoll") else 0) + int(lv["timerfd"])
        if int(lv["fds"]) - int(ld["fds"]) != exp:
            return f"iv_deinit released {int(lv['fds']) - int(ld['fds'])} descriptors, the loop instance held {exp}"
    return None


def flags_oracle(log):
    """every descriptor handed to iv_fd_register(_try) is non-blocking and close-on-exec afterwards (any family, any kind of descriptor)"""
    for l in log.splitlines():
        if l.startswith("FDFLAGS") and ("nonblock=1" not in l or "cloexec=1" not in l):
            return f"hygiene: registered descriptor {l.split()[1]} is not non-blocking close-on-exec: {l}"
    return None


l1.LOG_ORACLES[PROP] = flags_oracle


def churn_scenario(n, seed):
    L = [f"cfg seed={seed} waitlimit=40", "thread 0", "obj timer t0", "do trel t0 40000000", "main"]
    for k in range(1, n + 1):
        L += [f"thread {k}", f"obj timer t{k}", f"obj event e{k}", f"obj raw r{k}", f"obj task k{k}",
              f"do trel t{k} {k}000000 ; evreg e{k} ; rawreg r{k} ; rawpost r{k} ; kreg k{k} ; evpost e{k}",
              f"on t{k} 1 : evunreg e{k} ; rawunreg r{k}", "main"]
    return L


def run_mt(lines):
    import subprocess, tempfile
    os.makedirs(l1.SCRATCH, exist_ok=True)
    fd, path = tempfile.mkstemp(suffix=".scn", dir=l1.SCRATCH)
    with os.fdopen(fd, "w") as f:
        f.write("\n".join(lines) + "\n")
    env = dict(os.environ, ASAN_OPTIONS="detect_leaks=1")
    try:
        a = subprocess.run([os.path.join(common.BUILD, "mt_h"), path], stdout=subprocess.PIPE, stderr=subprocess.PIPE, text=True, timeout=60, env=env)
        return a.stdout, a.stderr, a.returncode
    except subprocess.TimeoutExpired:
        return "", "TIMEOUT", -9
    finally:
        os.unlink(path)


def run(tier, seed, proof):
    def nontrivial(log):
        return log.count("LEDGER ") >= 2
    os.environ["IVY_DETECT_LEAKS"] = "1"
    res = l1.run_property(PROP, tier, seed, proof, FAMILIES, [], SANS, nontrivial, RULE, n_quick=50, n_thorough=800)
    # ledger oracle on the cycles family (re-run deterministically; cheap)
    per = 50 if tier == "quick" else 800
    cases = [(f"cycles-{seed * 100000 + i}", loopgen.scenario(seed * 100000 + i, family="cycles")) for i in range(per)]
    cases = l1.corpus_cases(PROP) + cases
    seen = set()
    with concurrent.futures.ThreadPoolExecutor(max_workers=common.NCPU) as ex:
        for r in ex.map(lambda c: l1.run_case(*c, leaks=True), cases):
            msg = ledger_oracle(r.log)
            if msg and l1.norm_sig(msg) not in seen:
                seen.add(l1.norm_sig(msg))
                def pred(ls, m=l1.norm_sig(msg)):
                    mm = ledger_oracle(l1.run_case("s", ls, leaks=True).log)
                    return mm is not None and l1.norm_sig(mm) == m
                small = l1.shrink_scenario(r.lines, pred, budget=60)
                res.impl_violations.append((f"C18:ledger:{l1.norm_sig(msg)}", "hygiene: " + msg, common.write_case(PROP, r.name, small, tier, seed, ext="scn")))
    # thread churn: the end-of-run ledger must not depend on how many threads came and went
    ok, log = common.build_mt()
    if not ok:
        res.divergences.append(("T-sched harness no longer builds: " + log[-300:], None))
        return res
    base = None
    for n in ([1, 3, 6] if tier == "quick" else [1, 2, 3, 4, 5, 6, 8, 10]):
        out, err, rc = run_mt(churn_scenario(n, seed))
        res.evaluations += 1
        res.nontrivial.add("churn-%d" % n)
        m = re.search(r"LEDGER-END fds=(\d+) heap=\d+ leaks=(\d+)", out)
        msg = None
        if rc != 0 or not m:
            msg = f"thread-churn run with {n} threads aborted: {common.san_line(err) or out[-200:]}"
        elif m.group(2) != "0":
            msg = f"LeakSanitizer reports leaked memory after {n} library threads exited"
        elif base is not None and m.group(1) != base:
            msg = f"descriptors leak with thread churn: {base} open after 1 thread, {m.group(1)} after {n}"
        if m and base is None:
            base = m.group(1)
        if msg:
            res.impl_violations.append((f"C18:churn:{l1.norm_sig(msg)}", "hygiene: " + msg,
                                        common.write_case(PROP, f"churn-{n}", churn_scenario(n, seed), tier, seed, ext="mtscn")))
            break
    return res


def search(tier, seed, proof):
    return l1.search_property(PROP, tier, seed, ["storm"], [], SANS)


def replay(path):
    if path.endswith(".mtscn") or "thread 0" in open(path).read():
        common.build_mt()
        out, err, rc = run_mt([l.rstrip("\n") for l in open(path) if not l.startswith("#")])
        print(out[-3000:], err[-2000:])
        return 1 if rc != 0 or "leaks=0" not in out else 0
    rc = l1.replay(path)
    lines = [l.rstrip("\n") for l in open(path) if l.strip() and not l.startswith("#")]
    msg = ledger_oracle(l1.run_case("replay", lines, leaks=True).log)
    print("--- ledger oracle:", msg or "ok")
    return 1 if (rc or msg) else 0
