"""C18: memory/descriptor hygiene. Theorem: resource ledger (Ivy.Props.C18). Tie + search: every scenario family under
ASan/UBSan/LSan (any report = violation), init-use-deinit cycles with descriptor-table and heap ledgers compared across
cycles, descriptor flags after registration, and thread churn under the T-sched harness."""
import collections, concurrent.futures, hashlib, os, re
from . import common, l1, loopgen

PROP = "C18"
LEANCHECK_MODULES = ["Ivy.L1.Ledger", "Ivy.Props.C18", "Ivy.L0.Tls", "Ivy.Props.C18tls"]
FAMILIES = ["cycles", "storm", "mix"]
SANS = ["heap-use-after-free", "heap-buffer-overflow", "stack-buffer-overflow", "global-buffer-overflow", "SEGV", "null-call", "double-free",
        "attempting free", "runtime error", "LeakSanitizer", "abort"]
RULE = ("families 'cycles' (3-5 init-use-deinit cycles per run: descriptor count and live heap bytes logged before and after every iv_deinit, "
        "LeakSanitizer check after each), 'storm' and 'mix', on all four methods; plus thread-churn runs under the T-sched harness with 1..6 "
        "threads; every sanitizer report, ledger drift across cycles, wrong live delta (epoll fd / timerfd), missing O_NONBLOCK/FD_CLOEXEC on a "
        "registered descriptor, or leak is a violation. non-trivial = a run with >= 2 completed cycles or a thread-churn run; distinct by log hash")


def ledger_oracle(log):
    """implementation-only: ledgers equal across cycles; live delta = epoll fd + timerfd; flags set; no leaks"""
    led, live, method = [], [], None
    for l in log.splitlines():
        w = l.split()
        if not w:
            continue
        if w[0] == "CFG":
            method = w[1].split("=")[1]
        elif w[0] == "FDFLAGS":
            if "nonblock=1" not in l or "cloexec=1" not in l:
                return f"registered descriptor {w[1]} is not non-blocking close-on-exec: {l}"
        elif w[0] in ("LEDGER", "LEDGER-LIVE"):
            d = dict(x.split("=") for x in w[1:])
            d["method"] = method
            (led if w[0] == "LEDGER" else live).append(d)
            if w[0] == "LEDGER" and d.get("leaks", "0") != "0":
                return "LeakSanitizer reports leaked memory after iv_deinit"
    for i in range(1, len(led)):
        if led[i]["fds"] != led[0]["fds"]:
            return f"descriptor table grows across init/deinit cycles: {led[0]['fds']} -> {led[i]['fds']} open descriptors"
    # the harness itself frees consumed stimuli over time, so only sustained growth counts
    h = [int(x["heap"]) for x in led]
    for i in range(3, len(h)):
        if h[i] > h[i - 1] > h[i - 2]:
            return f"live heap keeps growing across init/deinit cycles: {h[i-2]} -> {h[i-1]} -> {h[i]} bytes"
    for lv, ld in zip(live, led):
        exp = (1 if lv["method"].startswith("epoll") else 0) + int(lv["timerfd"])
        if int(lv["fds"]) - int(ld["fds"]) != exp:
            return f"iv_deinit released {int(lv['fds']) - int(ld['fds'])} descriptors, the loop instance held {exp}"
    return None


def flags_oracle(log):
    """every descriptor handed to iv_fd_register(_try) is non-blocking and close-on-exec afterwards (any family, any kind of descriptor)"""
    for l in log.splitlines():
        if l.startswith("FDFLAGS") and ("nonblock=1" not in l or "cloexec=1" not in l):
            return f"hygiene: registered descriptor {l.split()[1]} is not non-blocking close-on-exec: {l}"
    return None


l1.LOG_ORACLES[PROP] = flags_oracle


# ---- iv_tls registry: T-diff against Ivy.L0.Tls + an independent layout oracle on the implementation's own output
TLS_HARNESS = os.path.join(common.BUILD, "tls_h")


def tls_build():
    return common.cc(TLS_HARNESS, [os.path.join(common.VERIF, "harness", "tls_h.c")], extra=[f'-DTLS_SRC="{common.REPO}/src/iv_tls.c"'])


def tls_ops(rng):
    ops = []
    for _ in range(rng.choice([1, 2, 4])):
        ops.append("base 0")
        n = rng.choice([0, 1, 2, 5, 12, 40])
        for _ in range(n):
            ops.append(f"reg {rng.choice([0, 1, 7, 8, 15, 16, 17, 24, 31, 32, 33, 100, 1000, 4096, 65537])} {rng.randrange(2)} {rng.randrange(2)}")
            if rng.random() < 0.2:
                ops.append("total")
        ops.append("total")
        for _ in range(rng.choice([1, 1, 3])):
            ops.append("tinit")
            for _ in range(rng.choice([0, 2, 6])):
                ops.append(f"ptr {rng.randrange(n)}" if n and rng.random() < 0.8 else "ptr-unreg")
            if rng.random() < 0.5:
                ops.append(f"reg {rng.choice([0, 8, 100])} 1 1")     # after iv_init: must be refused
            ops.append("tdeinit")
    return ops


def tls_oracle(ops, out):
    """independent statement: regions aligned, above struct iv_state, inside the block, pairwise disjoint; hooks called for
    exactly the modules that have one, in registration order, with their own region; registered modules never fatal"""
    if len(out) != len(ops):
        return f"implementation produced {len(out)} lines for {len(ops)} ops: {out[-1] if out else ''}"
    base, regs, inited = None, [], False
    for op, l in zip(ops, out):
        w, r = op.split(), l.split()
        if w[0] == "base":
            base, regs, inited = int(r[1]), [], False
        elif w[0] == "reg":
            if inited:
                if r[0] != "FATAL":
                    return f"registration after iv_init was accepted: {l}"
                continue
            if r[0] != "REG":
                return f"registration before iv_init failed: {l}"
            off, sz = int(r[1]), int(w[1])
            if off % 16 or off < base or off == 0:
                return f"region offset {off} is not a 16-aligned offset above struct iv_state ({base} bytes)"
            for (o2, s2, _, _) in regs:
                if not (o2 + s2 <= off):
                    return f"region [{off},{off+sz}) overlaps or precedes the earlier region [{o2},{o2+s2})"
            regs.append((off, sz, w[2] == "1", w[3] == "1"))
        elif w[0] == "total":
            t = int(r[1])
            if any(o + s > t for (o, s, _, _) in regs) or t < base:
                return f"iv_tls_total_state_size()={t} does not cover every region"
        elif w[0] == "tinit":
            inited = True
            if [int(x) for x in r[1:]] != [o for (o, s, hi, hd) in regs if hi]:
                return f"init hooks called with {r[1:]}, registry says {[o for (o, s, hi, hd) in regs if hi]}"
        elif w[0] == "tdeinit":
            if [int(x) for x in r[1:]] != [o for (o, s, hi, hd) in regs if hd]:
                return f"deinit hooks called with {r[1:]}, registry says {[o for (o, s, hi, hd) in regs if hd]}"
        elif w[0] == "ptr":
            if r != ["PTR", str(regs[int(w[1])][0])]:
                return f"iv_tls_user_ptr of module {w[1]} gave {l}, its region is at {regs[int(w[1])][0]}"
        elif w[0] == "ptr-unreg":
            if r[0] != "FATAL":
                return f"iv_tls_user_ptr accepted an unregistered module: {l}"
    return None


def tls_check(tier, seed, res):
    import random
    ok, log = tls_build()
    if not ok:
        res.divergences.append(("white-box harness for iv_tls.c no longer compiles: " + log[-300:], None))
        return
    rng = random.Random(seed * 7919 + 18)
    nreg = 0
    for i in range(40 if tier == "quick" else 600):
        ops = tls_ops(rng)
        a = common.run_cmd([TLS_HARNESS], "\n".join(ops) + "\n")
        al = [x.rstrip() for x in a.stdout.splitlines()]
        res.evaluations += 1
        nreg += sum(1 for o in ops if o.startswith("reg"))
        msg = tls_oracle(ops, al)
        if msg is None and a.returncode != 0:
            msg = f"harness exit {a.returncode} {common.san_line(a.stderr)}"
        if msg:
            small = common.shrink(ops, lambda o: bool(o) and o[0].startswith("base") and (lambda b: tls_oracle(o, [x.rstrip() for x in b.stdout.splitlines()]) is not None or b.returncode != 0)(common.run_cmd([TLS_HARNESS], "\n".join(o) + "\n")))
            res.impl_violations.append(("C18:tls:" + l1.norm_sig(msg)[:60], "hygiene (per-module thread state): " + msg, common.write_case(PROP, f"tls-{i}", small, tier, seed, ext="tlsops")))
            return
        base = al[0].split()[1] if al else "0"
        mops = [("base " + base) if o.startswith("base") else o for o in ops]
        b = common.run_cmd([common.REPLAY_BIN, "tls"], "\n".join(mops) + "\n")
        bl = [x.rstrip() for x in b.stdout.splitlines()]
        if al != bl:
            d = next((k for k, (x, y) in enumerate(zip(al, bl)) if x != y), min(len(al), len(bl)))
            res.divergences.append((f"model Ivy.L0.Tls and iv_tls.c disagree at op '{ops[d] if d < len(ops) else '?'}': impl={al[d] if d < len(al) else '<none>'} model={bl[d] if d < len(bl) else '<none>'}",
                                    common.write_case(PROP, f"tls-{i}-div", ops[:d + 1], tier, seed, ext="tlsops")))
            return
        res.nontrivial.add("tls-" + hashlib.sha1(" ".join(ops).encode()).hexdigest()[:12])
    res.extra["tls_registrations_compared"] = nreg


# ---- the multi-threaded modules (iv_wait, iv_popen, iv_event, iv_signal) under the deterministic scheduler: whatever the
# library allocated on behalf of a thread must still be referenced, or have been released, whenever the run can go no further
MT_MODULES = ["c11", "c19", "c08", "c10", "c12"]      # c12's generator also serves C13: pools, iv_thread children, creator deinit


def mt_hygiene(tier, seed, res):
    import importlib, subprocess, tempfile
    per = 150 if tier == "quick" else 1500
    jobs = []
    from . import sched
    sched.DISABLED = True       # only the plugins' random families are wanted here
    for name in MT_MODULES:
        mod = importlib.import_module("vlib." + name)
        b = mod.build()
        if not (b[0] if isinstance(b, tuple) else b):
            res.divergences.append((f"T-sched harness of {name} no longer builds", None))
            return
        gen = mod.gen_cases("C13", "quick" if tier == "quick" else "thorough", seed) if name == "c12" else \
            mod.gen_cases("quick" if tier == "quick" else "thorough", seed)
        import itertools
        for c in itertools.islice(gen, per):
            lines = [x for x in c if isinstance(x, list)][0] if isinstance(c, tuple) else c
            jobs.append((name, mod.HARNESS, c[0] if isinstance(c, tuple) and isinstance(c[0], str) else "case", lines))

    sched.DISABLED = False

    def one(job):
        name, harness, cname, lines = job
        os.makedirs(l1.SCRATCH, exist_ok=True)
        fd, path = tempfile.mkstemp(suffix=".scn", dir=l1.SCRATCH)
        with os.fdopen(fd, "w") as f:
            f.write("\n".join(lines) + "\n")
        try:
            a = subprocess.run([harness, path], stdout=subprocess.PIPE, stderr=subprocess.PIPE, text=True, timeout=75,
                               env=dict(os.environ, ASAN_OPTIONS="detect_stack_use_after_return=1:detect_leaks=1:abort_on_error=0"))
            return job, a.stdout, a.stderr, a.returncode
        except subprocess.TimeoutExpired:
            return job, "", "TIMEOUT", -9
        finally:
            os.unlink(path)

    def leak_of(out, err):
        # "reads and writes only memory it owns": a sanitizer report with a library frame in one of these programs
        m0 = re.search(r"AddressSanitizer: (heap-use-after-free|heap-buffer-overflow|attempting double-free|stack-use-after-return|stack-buffer-overflow|global-buffer-overflow)", err)
        if m0 and re.search(r" in (__)?iv_\w+", err):
            fr = re.findall(r" in ((?:__)?iv_\w+)", err)[:3]
            return f"AddressSanitizer: {m0.group(1)} in the library ({' <- '.join(fr)}): it touches memory it has released or does not own"
        u = re.findall(r"LEDGER-(\w+) fds=\d+ heap=\d+ leaks=\d+ unjoined=(\d+)", out)
        if u and u[-1][0] == "END" and u[-1][1] != "0":
            return (f"{u[-1][1]} thread(s) created by the library had exited when the run ended but were never joined or detached "
                    "(their stacks and thread control blocks stay allocated)")
        m = re.findall(r"LEDGER-(\w+) fds=\d+ heap=\d+ leaks=(\d+)", out)
        if m and m[-1][1] != "0":
            where = next((l.strip() for l in err.splitlines() if " in iv_" in l or " in __iv_" in l), "")
            return f"LeakSanitizer: memory allocated by the library is unreachable when the run ends ({m[-1][0].lower()}) {where}"
        return None
    ends = collections.Counter()
    with concurrent.futures.ThreadPoolExecutor(max_workers=common.NCPU) as ex:
        for job, out, err, rc in common.bounded_map(ex, one, jobs):
            res.evaluations += 1
            m = re.findall(r"LEDGER-(\w+) ", out)
            ends[job[0] + ":" + (m[-1] if m else "no-ledger")] += 1
            msg = leak_of(out, err)
            if msg:
                def pred(ls, job=job):
                    _, o, e, _ = one((job[0], job[1], job[2], ls))
                    return leak_of(o, e) is not None
                keep = lambda l: l.startswith(("cfg", "obj", "thread", "main", "exclude"))
                small = job[3]
                try:
                    small = common.shrink(job[3], lambda ls: pred(ls))
                except Exception:
                    pass
                if not pred(small):
                    small = job[3]
                res.impl_violations.append((f"C18:mtleak:{job[0]}", f"hygiene ({job[0]} scenario {job[2]}): {msg}",
                                            common.write_case(PROP, f"mtleak-{job[0]}-{job[2]}", [f"# harness {job[0]}"] + small, tier, seed, ext="mtscn")))
                break
            if m:
                res.nontrivial.add("mt-" + hashlib.sha1(out.encode()).hexdigest()[:12])
    res.extra["mt_hygiene_runs"] = dict(ends)


def churn_scenario(n, seed):
    L = [f"cfg seed={seed} waitlimit=40", "thread 0", "obj timer t0", "do trel t0 40000000", "main"]
    for k in range(1, n + 1):
        L += [f"thread {k}", f"obj timer t{k}", f"obj event e{k}", f"obj raw r{k}", f"obj task k{k}",
              f"do trel t{k} {k}000000 ; evreg e{k} ; rawreg r{k} ; rawpost r{k} ; kreg k{k} ; evpost e{k}",
              f"on t{k} 1 : evunreg e{k} ; rawunreg r{k}", "main"]
    return L


def run_mt(lines):
    import subprocess, tempfile
    os.makedirs(l1.SCRATCH, exist_ok=True)
    fd, path = tempfile.mkstemp(suffix=".scn", dir=l1.SCRATCH)
    with os.fdopen(fd, "w") as f:
        f.write("\n".join(lines) + "\n")
    env = dict(os.environ, ASAN_OPTIONS="detect_stack_use_after_return=1:detect_leaks=1")
    try:
        a = subprocess.run([os.path.join(common.BUILD, "mt_h"), path], stdout=subprocess.PIPE, stderr=subprocess.PIPE, text=True, timeout=75, env=env)
        return a.stdout, a.stderr, a.returncode
    except subprocess.TimeoutExpired:
        return "", "TIMEOUT", -9
    finally:
        os.unlink(path)


INOTIFY_RULE = ("; plus C20's inotify scenario programs (structures freed as early as the API allows): any AddressSanitizer report is a violation here")
PUMP_RULE = ("; plus C17's pump scenario programs (quick: 160; all four modes incl. a failing splice probe) judged by the resource-accounting part of "
             "C17's oracle (buffers held or cached, two pipe descriptors per buffer, nothing alive after the thread's tear-down)")
TRYFAIL_RULE = ("; plus the ENUMERATED family 'tryfail' (vlib/loopgen.py retract_cases, 128 scenarios + 24 'reregister'): iv_fd_register_try fails, the caller "
                "frees the object or the descriptor number comes to life for another object, then earlier descriptors are unregistered (table "
                "compaction) right away or from a timer; the library must not touch the released object")


def inotify_memory(tier, seed, proof, res):
    """iv_inotify keeps pointers to the application's watch and instance objects: C20's scenario programs free every structure as early as
    the API allows (under AddressSanitizer); any memory error they expose (use-after-free, overflow, wild access) is reported here"""
    from . import c20
    sub = c20.run(tier, seed, proof)
    res.evaluations += sub.evaluations
    for sig, msg, pth in sub.impl_violations:
        if "AddressSanitizer" in msg or "Sanitizer" in msg or "SEGV" in msg:
            if pth and os.path.isfile(pth):
                txt = open(pth).read()
                open(pth, "w").write("# other-kind case (replayed by vlib/c20.py)\n" + txt)
            res.impl_violations.append(("C18:c20:" + sig, "iv_inotify touches memory it does not own: " + msg, pth))
            break
    for d, pth in sub.divergences:
        res.divergences.append(("inotify (c20 harness): " + d, pth))
    res.extra["inotify_memory_cases"] = sub.evaluations


PUMP_LEAK = re.compile(r"accounting|still alive|buffers cached", re.I)


def pump_hygiene(tier, seed, res):
    """iv_fd_pump acquires buffers and (splice mode) pipe descriptors per thread: C17's scenario programs (all four modes incl. a failing
    splice probe) are run and the resource-accounting part of C17's oracle — every buffer is held by a pump or cached, two descriptors per
    buffer, nothing alive after the thread's tear-down — is reported here"""
    from . import c17
    ok, log = c17.build()
    if not ok:
        res.divergences.append(("pump harness no longer builds: " + log[-300:], None))
        return
    n = 0
    for name, ops, *_ in c17.gen_cases(tier, seed):
        n += 1
        if n > (160 if tier == "quick" else 1500):
            break
        msg, a = c17.impl_fails(ops)
        res.evaluations += 1
        if msg and PUMP_LEAK.search(msg):
            small, m2 = c17.shrink_impl(ops, msg)
            res.impl_violations.append(("C18:pump:" + l1.norm_sig(m2), "hygiene (iv_fd_pump resources): " + m2,
                                        common.write_case(PROP, "pump-" + name, ["# pump case (replayed by vlib/c17.py)"] + small, tier, seed, ext="ops")))
            break
    res.extra["pump_hygiene_cases"] = n


def run(tier, seed, proof):
    def nontrivial(log):
        return log.count("LEDGER ") >= 2
    os.environ["IVY_DETECT_LEAKS"] = "1"
    res = l1.run_property(PROP, tier, seed, proof, FAMILIES, [], SANS, nontrivial, RULE + TRYFAIL_RULE + PUMP_RULE + INOTIFY_RULE, n_quick=50, n_thorough=800,
                          extra_cases=lambda tier, seed: [c for c in loopgen.retract_cases(seed) if c[0].startswith(("tryfail", "reregister"))] + loopgen.alias_cases())
    # ledger oracle on the cycles family (re-run deterministically; cheap)
    per = 50 if tier == "quick" else 800
    cases = [(f"cycles-{seed * 100000 + i}", loopgen.scenario(seed * 100000 + i, family="cycles")) for i in range(per)]
    cases = l1.corpus_cases(PROP) + cases
    seen = set()
    with concurrent.futures.ThreadPoolExecutor(max_workers=common.NCPU) as ex:
        for r in common.bounded_map(ex, lambda c: l1.run_case(*c, leaks=True), cases):
            msg = ledger_oracle(r.log)
            if msg and l1.norm_sig(msg) not in seen:
                seen.add(l1.norm_sig(msg))
                def pred(ls, m=l1.norm_sig(msg)):
                    mm = ledger_oracle(l1.run_case("s", ls, leaks=True).log)
                    return mm is not None and l1.norm_sig(mm) == m
                small = l1.shrink_scenario(r.lines, pred, budget=60)
                res.impl_violations.append((f"C18:ledger:{l1.norm_sig(msg)}", "hygiene: " + msg, common.write_case(PROP, r.name, small, tier, seed, ext="scn")))
    tls_check(tier, seed, res)
    if not res.impl_violations:
        mt_hygiene(tier, seed, res)
    if not res.impl_violations:
        pump_hygiene(tier, seed, res)
    if not res.impl_violations:
        inotify_memory(tier, seed, proof, res)
    # thread churn: the end-of-run ledger must not depend on how many threads came and went
    ok, log = common.build_mt()
    if not ok:
        res.divergences.append(("T-sched harness no longer builds: " + log[-300:], None))
        return res
    base = None
    for n in ([1, 3, 6] if tier == "quick" else [1, 2, 3, 4, 5, 6, 8, 10]):
        out, err, rc = run_mt(churn_scenario(n, seed))
        res.evaluations += 1
        res.nontrivial.add("churn-%d" % n)
        m = re.search(r"LEDGER-END fds=(\d+) heap=\d+ leaks=(\d+)", out)
        msg = None
        if rc != 0 or not m:
            msg = f"thread-churn run with {n} threads aborted: {common.san_line(err) or out[-200:]}"
        elif m.group(2) != "0":
            msg = f"LeakSanitizer reports leaked memory after {n} library threads exited"
        elif base is not None and m.group(1) != base:
            msg = f"descriptors leak with thread churn: {base} open after 1 thread, {m.group(1)} after {n}"
        if m and base is None:
            base = m.group(1)
        if msg:
            res.impl_violations.append((f"C18:churn:{l1.norm_sig(msg)}", "hygiene: " + msg,
                                        common.write_case(PROP, f"churn-{n}", churn_scenario(n, seed), tier, seed, ext="mtscn")))
            break
    # the same with the process' standard input closed before iv_init: the first descriptor the library creates (its epoll descriptor) is
    # number 0, a perfectly valid descriptor that must be used and released like any other: one descriptor fewer is open at the end
    if base is not None and not res.impl_violations:
        for n in ([1, 3] if tier == "quick" else [1, 2, 4]):
            scn = churn_scenario(n, seed)
            scn[0] += " closefd0"
            out, err, rc = run_mt(scn)
            res.evaluations += 1
            m = re.search(r"LEDGER-END fds=(\d+) heap=\d+ leaks=(\d+)", out)
            msg = None
            if rc != 0 or not m:
                msg = f"thread-churn run with standard input closed ({n} threads) aborted: {common.san_line(err) or out[-200:]}"
            elif int(m.group(1)) != int(base) - 1:
                msg = (f"with standard input closed before iv_init {m.group(1)} descriptors are open at the end, {int(base) - 1} expected ({base} with "
                       f"standard input open): a descriptor the library created with number 0 was not released")
            elif "INIT method=epoll-timerfd" not in out:
                msg = "with standard input closed before iv_init the loop did not select the epoll-timerfd method although nothing is excluded or missing"
            if msg:
                res.impl_violations.append((f"C18:churn0:{l1.norm_sig(msg)}", "hygiene: " + msg, common.write_case(PROP, f"churn0-{n}", scn, tier, seed, ext="mtscn")))
                break
    return res


def search(tier, seed, proof):
    return l1.search_property(PROP, tier, seed, ["storm"], [], SANS)


def replay(path):
    if path.endswith(".tlsops"):
        tls_build(); common.lean_build(["ivyreplay"])
        ops = [l.strip() for l in open(path) if l.strip() and not l.startswith("#")]
        a = common.run_cmd([TLS_HARNESS], "\n".join(ops) + "\n")
        print(a.stdout, a.stderr[-1500:])
        msg = tls_oracle(ops, [x.rstrip() for x in a.stdout.splitlines()])
        print("--- layout oracle:", msg or "ok")
        return 1 if (msg or a.returncode != 0) else 0
    if "# pump case" in open(path).read():
        from . import c17
        return c17.replay(path)
    if "# other-kind case (replayed by vlib/c20.py)" in open(path).read():
        from . import c20
        return c20.replay(path)
    first = open(path).read().splitlines()
    hline = next((l for l in first if l.startswith("# harness ")), None)
    if hline:
        import importlib, subprocess
        mod = importlib.import_module("vlib." + hline.split()[2]); mod.build()
        a = subprocess.run([mod.HARNESS, path], stdout=subprocess.PIPE, stderr=subprocess.PIPE, text=True, env=dict(os.environ, ASAN_OPTIONS="detect_stack_use_after_return=1:detect_leaks=1:abort_on_error=0"))
        print(a.stdout[-2500:], a.stderr[-2500:])
        m = re.findall(r"LEDGER-\w+ fds=\d+ heap=\d+ leaks=(\d+)", a.stdout)
        return 1 if (a.returncode != 0 or (m and m[-1] != "0")) else 0
    if path.endswith(".mtscn") or "thread 0" in open(path).read():
        common.build_mt()
        out, err, rc = run_mt([l.rstrip("\n") for l in open(path) if not l.startswith("#")])
        print(out[-3000:], err[-2000:])
        return 1 if rc != 0 or "leaks=0" not in out else 0
    rc = l1.replay(path)
    lines = [l.rstrip("\n") for l in open(path) if l.strip() and not l.startswith("#")]
    msg = ledger_oracle(l1.run_case("replay", lines, leaks=True).log)
    print("--- ledger oracle:", msg or "ok")
    return 1 if (rc or msg) else 0
