"""C20: iv_inotify — T-replay: the real iv_inotify.c (white-box include; read/inotify_init/inotify_add_watch/
inotify_rm_watch/close scripted) writes a log of API calls, reads (multi-record buffers with and without names),
handler invocations and handler-driven (un)registrations; the Lean model Ivy.L3.Inotify replays it and must predict
every call, return value, handler invocation (watch, byte offset, record, tree membership at entry) and end of walk.
An independent oracle states C20 on the implementation's log alone."""
import glob, hashlib, os, random, re, shutil
from . import common

PROP = "C20"
LEANCHECK_MODULES = ["Ivy.L3.Inotify", "Ivy.L3.InotifyProofs", "Ivy.Props.C20"]
HARNESS = os.path.join(common.BUILD, "inotify_h")
IN_IGNORED = 0x8000
IN_ONESHOT = 0x80000000
EVSZ = 16


def build():
    ok, objs, log = common.build_lib()
    if not ok:
        return False, log
    objs = [o for o in objs if not o.endswith("iv_inotify.o")]
    return common.cc(HARNESS, [os.path.join(common.VERIF, "harness", "inotify_h.c")] + objs,
                     extra=[f'-DINOTIFY_SRC="{common.REPO}/src/iv_inotify.c"', "-lpthread"])


# ---------------------------------------------------------------- implementation-only oracle
def oracle(log, exit_code=0, san=""):
    """C20 stated on the implementation's own log. Returns None or (signature, message)."""
    insts = {}      # i -> dict(fd, reg, tree {wd: w})
    ws = {}         # w -> dict(inst, wd, mask, reg, alive)
    pend = None     # opening line of the API call in progress
    outs = []
    walk = None     # dict(i, recs, idx, stopped, expect)
    phase = "idle"
    fin = False

    def v(sig, n, msg):
        return ("inotify:" + sig, f"line {n}: {msg}")

    def next_expected():
        """the delivery C20 demands next, given the watch sets as they are now"""
        wk = walk
        if not insts[wk["i"]]["reg"]:
            return ("END",)
        tree = insts[wk["i"]]["tree"]
        while wk["idx"] < len(wk["recs"]):
            off, wd, mask, cookie, ln = wk["recs"][wk["idx"]]
            wk["idx"] += 1
            w = tree.get(wd)
            if w is None:
                continue
            drop = bool(mask & IN_IGNORED) or bool(ws[w]["mask"] & IN_ONESHOT)
            if drop:
                del tree[wd]
                ws[w]["reg"] = False
            return ("CB", w, off, wd, mask, cookie, ln, 0 if drop else 1)
        return ("END",)

    n = 0
    for n, l in enumerate(log, 1):
        t = l.split()
        if not t:
            continue
        k = t[0]
        if k in ("CONST", "SKIP", "FS"):
            continue
        if k == "KERNEL":
            if t[1] == "bad":
                return v("kernel-contract", n, "the kernel returned a buffer whose records do not follow each other at len + 16 bytes: " + l)
            continue
        if k == "FIN":
            fin = True
        elif k == "BADFD":
            return v("foreign-fd", n, "read on a descriptor that is not the instance's inotify descriptor")
        elif k == "bad-op":
            return v("harness", n, "bad op in scenario")
        elif k in ("IREG", "WREG", "WUNREG", "IUNREG"):
            pend, outs, phase = t, [], k
        elif k == "OUT":
            outs.append(t[1:])
            if t[1] == "read":
                if walk is None or int(t[2]) != insts[walk["i"]]["fd"]:
                    return v("foreign-fd", n, "read on a descriptor that is not the instance's inotify descriptor")
        elif k == "IRET":
            i, fd, r = int(pend[1]), int(t[1]), int(t[2])
            if outs != [["init"]]:
                return v("register-calls", n, f"iv_inotify_register made calls {outs}")
            if (fd == -1) != (r != 0) or r not in (0, -1):
                return v("register-ret", n, f"iv_inotify_register returned {r} with inotify_init() = {fd}")
            if r == 0:
                insts[i] = {"fd": fd, "reg": True, "tree": {}}
            pend, phase = None, "idle"
        elif k == "WRET":
            w, i, mask, wd, r = int(pend[1]), int(pend[2]), int(pend[3]), int(t[1]), int(t[2])
            if outs != [["addwatch", str(insts[i]["fd"]), str(mask)]]:
                return v("watch-register-calls", n, f"iv_inotify_watch_register made calls {outs}")
            want = -1 if (wd == -1 or wd in insts[i]["tree"]) else 0
            if r != want:
                return v("watch-register-ret", n, f"iv_inotify_watch_register returned {r}, expected {want} (wd={wd})")
            ws[w] = {"inst": i, "wd": wd, "mask": mask, "reg": r == 0, "alive": True}
            if r == 0:
                insts[i]["tree"][wd] = w
            pend, phase = None, "idle"
        elif k == "WURET":
            w = int(pend[1])
            x = ws[w]
            if outs != [["rmwatch", str(insts[x["inst"]]["fd"]), str(x["wd"])]]:
                return v("watch-unregister-calls", n, f"iv_inotify_watch_unregister made calls {outs}")
            if not x["reg"]:
                return v("harness", n, "scenario unregistered a watch that is not registered")
            del insts[x["inst"]]["tree"][x["wd"]]
            x["reg"] = False
            pend, phase = None, "idle"
        elif k == "IURET":
            i = int(pend[1])
            if outs != [["close", str(insts[i]["fd"])]]:
                return v("unregister-calls", n, f"iv_inotify_unregister made calls {outs}")
            insts[i]["reg"] = False
            for x in ws.values():
                if x["inst"] == i:
                    x["reg"] = False
            pend, phase = None, "idle"
        elif k == "WFREE":
            w = int(t[1])
            if ws[w]["reg"]:
                return v("harness", n, "scenario released a registered watch")
            ws[w]["alive"] = False
        elif k == "EVENT":
            i = int(t[1])
            walk = {"i": i, "recs": [], "idx": 0, "need": 0, "expect": None}
            phase = "walk"
        elif k == "READ":
            if t[1] == "eagain":
                walk["expect"] = ("END",)
            elif t[1] == "data":
                walk["need"] = int(t[3])
                walk["len"] = int(t[2])
        elif k == "REC":
            walk["recs"].append(tuple(int(x) for x in t[1:6]))
            walk["need"] -= 1
            if walk["need"] == 0:
                walk["expect"] = next_expected()
        elif k == "CB":
            w, off = int(t[1]), int(t[2])
            if t[3] == "DEAD":
                return v("call-released-watch", n, f"handler of watch {w}, whose structure was released, called for the record at {off}")
            got = ("CB", w, off, int(t[3]), int(t[4]), int(t[5]), int(t[6]), int(t[7]))
            e = walk["expect"] if walk else None
            if e is None or e[0] != "CB":
                if walk is not None and not any(r[0] == off for r in walk["recs"]):
                    return v("misparse", n, f"handler of watch {w} called for offset {off}, where no record starts")
                if walk is not None and not insts[walk["i"]]["reg"]:
                    return v("call-after-instance-unregister", n, f"handler of watch {w} called after the instance was unregistered")
                if not ws.get(w, {}).get("reg", False):
                    return v("call-unregistered-watch", n, f"handler of watch {w} called although it is not registered (unregistered or dropped earlier)")
                return v("spurious-call", n, f"handler of watch {w} called for offset {off}; nothing is due (expected end of walk)")
            if got[:7] != e[:7]:
                if not any(r[0] == off for r in walk["recs"]):
                    return v("misparse", n, f"handler called for offset {off}, where no record starts (C20 demands {e[1:7]})")
                if got[1] != e[1]:
                    return v("wrong-target", n, f"record at {off} (wd {got[3]}) delivered to watch {w}; C20 demands watch {e[1]} for the record at {e[2]}")
                return v("wrong-delivery", n, f"handler invocation {got[1:7]}; C20 demands {e[1:7]} (watch, offset, wd, mask, cookie, len)")
            if got[7] != e[7]:
                return v("drop-order", n, f"watch {w} {'still in' if got[7] else 'not in'} the instance's tree at handler entry; "
                                            f"must be {'dropped before' if e[7] == 0 else 'kept until after'} the handler (mask={got[4]:#x}, watch mask={ws[w]['mask']:#x})")
            if t[8] != "ok":
                return v("event-bytes", n, f"the event handed to the handler at {off} is not the record (header or name bytes differ)")
            walk["expect"] = None
            phase = "handler"
        elif k == "HEND":
            if walk is None:
                return v("harness", n, "HEND outside a walk")
            walk["expect"] = next_expected()
            phase = "walk"
        elif k == "END":
            e = walk["expect"] if walk else None
            if e is None or e[0] != "END":
                if e is not None:
                    return v("lost-delivery", n, f"walk ended but the record at offset {e[2]} (wd {e[3]}) was due to watch {e[1]}")
                return v("harness", n, "END without a walk")
            walk = None
            phase = "idle"
    if exit_code != 0 or not fin:
        if phase == "IUNREG" and (walk is None or walk["i"] != int(pend[1])):
            return ("inotify:uninit-term", f"line {n}: iv_inotify_unregister crashed outside a walk of that instance: store through a term pointer "
                                           f"that should be NULL (uninitialised or stale) {san}")
        return ("inotify:crash-" + phase.lower(), f"line {n}: harness exit {exit_code} during {phase} {san}")
    return None


# ---------------------------------------------------------------- generator
def gen_case(rng, big=False):
    ops = []
    ninst = rng.choice([1, 1, 2, 3])
    pool = list(range(1, rng.choice([3, 4, 5, 6, 8])))
    inst_ids = list(range(ninst))
    next_i = [ninst]
    next_w = [0]
    all_w = []

    def mask():
        m = rng.choice([0x2, 0x100, 0xfff, 0x2 | 0x200])
        if rng.random() < 0.25:
            m |= IN_ONESHOT
        # request masks may carry any bit the kernel accepts, including ones that only have a meaning in EVENT masks (IN_IGNORED,
        # IN_ISDIR, IN_Q_OVERFLOW, IN_UNMOUNT) and the other add_watch flags: none of them makes a watch one-shot
        k = rng.random()
        if k < 0.15:
            m |= IN_IGNORED
        elif k < 0.25:
            m |= rng.choice([0x40000000, 0x4000, 0x2000, 0x01000000, 0x02000000, 0x20000000])
        return m

    used = {}

    def new_watch(i=None):
        w = next_w[0]; next_w[0] += 1
        all_w.append(w)
        if i is None:
            i = rng.choice(inst_ids)
        wd = rng.choice(pool)
        fresh = [x for x in pool if x not in used.setdefault(i, set())]
        if fresh and rng.random() < 0.8:
            wd = rng.choice(fresh)          # mostly distinct descriptors, sometimes a collision
        used[i].add(wd)
        if rng.random() < 0.04:
            wd = -1
        return f"watch {w} {i} {mask():x} {wd}"

    def new_inst():
        i = next_i[0]; next_i[0] += 1
        inst_ids.append(i)
        fill = rng.choice(["zero", "junk", "junk", "reuse:%d" % rng.choice(inst_ids)])
        return f"inst {i} {fill} {'fail' if rng.random() < 0.05 else 'ok'}"

    def action(self_w):
        k = rng.random()
        if k < 0.20:
            return f"unwatch {self_w}"
        if k < 0.40:
            return f"unwatch {rng.choice(all_w)}"
        if k < 0.47:
            return f"uninst {rng.choice(inst_ids)}" + (" keep" if rng.random() < 0.4 else "")
        if k < 0.70:
            return new_watch()
        if k < 0.80:
            # re-register a (possibly dropped) existing structure, often under the descriptor just seen
            return f"watch {rng.choice(all_w)} {rng.choice(inst_ids)} {mask():x} {rng.choice(pool)}"
        if k < 0.90:
            return f"free {self_w if rng.random() < 0.6 else rng.choice(all_w)}"
        return new_inst()

    for i in range(ninst):
        ops.append(f"inst {i} {rng.choice(['zero', 'junk'])} {'fail' if rng.random() < 0.04 else 'ok'}")
    for _ in range(rng.randint(1, 6)):
        ops.append(new_watch())
    # reactions (may refer to watches created later by other reactions)
    for w in list(all_w) + [next_w[0] + j for j in range(2)]:
        if rng.random() < 0.45:
            for n in range(rng.choice([1, 1, 2, 3])):
                if rng.random() < 0.7:
                    acts = [action(w) for _ in range(rng.choice([1, 1, 2, 3]))]
                    ops.append(f"react {w} {n} " + " ; ".join(acts))

    def record():
        wd = rng.choice(pool) if rng.random() < 0.85 else rng.choice([0, 9, 99, 1000, -1])
        m = rng.choice([0x2, 0x100, 0x40000002, 0x200])
        if wd == -1:
            m = 0x4000          # IN_Q_OVERFLOW: the kernel's queue-overflow marker carries no watch descriptor; events may follow it
        if rng.random() < 0.15:
            m = IN_IGNORED if rng.random() < 0.7 else (IN_IGNORED | 0x2)
        ln = rng.choice([0, 0, 0, 16, 16, 32, 48, 64, 256])
        if big and rng.random() < 0.3:
            ln = rng.choice([1024, 4080, 4096])
        if rng.random() < 0.04:
            ln = rng.choice([4, 8, 12, 20])
        fill = "z"
        if ln >= 16 and rng.random() < 0.6:
            fill = "f%d" % rng.choice(pool)
        return f"{wd}:{m:x}:{rng.randrange(5)}:{ln}:{fill}"

    for _ in range(rng.choice([1, 2, 3, 4])):
        r = rng.random()
        if r < 0.15:
            ops.append(rng.choice([new_watch(), f"unwatch {rng.choice(all_w)}", f"free {rng.choice(all_w)}",
                                   f"uninst {rng.choice(inst_ids)}", new_inst()]))
        ev = f"event {rng.choice(inst_ids)} " + "i " * rng.choice([0, 0, 0, 1, 2])
        if rng.random() < 0.08:
            ev += "a"
        else:
            ev += "d " + " ".join(record() for _ in range(rng.randint(1, 12)))
        ops.append(ev)
    return ops


def gen_real(rng):
    """real-kernel family: a private directory tree, real inotify descriptors, events made by file operations"""
    ops = ["real"]
    ninst = rng.choice([1, 1, 2])
    dirs = list(range(rng.choice([1, 2, 3, 4])))
    for i in range(ninst):
        ops.append(f"inst {i} {rng.choice(['zero', 'junk'])} ok")
    nw = rng.randint(1, 5)
    for w in range(nw):
        m = rng.choice([0x300, 0x300, 0x700, 0x100, 0xfff])
        if rng.random() < 0.2:
            m |= IN_ONESHOT
        ops.append(f"watch {w} {rng.randrange(ninst)} {m:x} {rng.choice(dirs)}")
    for w in range(nw):
        if rng.random() < 0.4:
            acts = []
            for _ in range(rng.choice([1, 2])):
                k = rng.random()
                if k < 0.35:
                    acts.append(f"unwatch {rng.randrange(nw)}")
                elif k < 0.45:
                    acts.append(f"uninst {rng.randrange(ninst)}")
                elif k < 0.75:
                    acts.append(f"watch {nw + rng.randrange(3)} {rng.randrange(ninst)} 300 {rng.choice(dirs)}")
                else:
                    acts.append(f"free {w}")
            ops.append(f"react {w} {rng.choice([0, 0, 1])} " + " ; ".join(acts))
    names = ["a", "bb", "f" * 15, "g" * 16, "h" * 17, "n" * 31, "m" * 40, "z" * 100]
    for _ in range(rng.choice([1, 2, 3])):
        made = []
        for _ in range(rng.randint(1, 6)):
            d, nm = rng.choice(dirs), rng.choice(names)
            ops.append(f"fs create {d} {nm}")
            made.append((d, nm))
            if rng.random() < 0.5:
                ops.append(f"fs delete {d} {nm}")
        if rng.random() < 0.2:
            d = rng.choice(dirs)
            for (dd, nm) in made:
                if dd == d:
                    ops.append(f"fs delete {d} {nm}")
            ops.append(f"fs rmdir {d}")
        for i in range(ninst):
            ops.append(f"event {i} d")
    return ops


def corpus_cases():
    out = []
    for p in sorted(glob.glob(os.path.join(common.VERIF, "corpus", PROP, "*.ops"))):
        lines = [l.strip() for l in open(p) if l.strip() and not l.startswith("#")]
        out.append(("corpus-" + os.path.basename(p)[:-4], lines))
    return out


def enum_removed_cases():
    """Enumerated (every run): the kernel has already removed a watch (file deleted: IN_DELETE_SELF then IN_IGNORED, or a burst of ordinary
    events then IN_IGNORED, all in one read) and a handler working through the earlier records unregisters it (inotify_rm_watch then fails
    with EINVAL), frees it, or registers it again; the actor is the watch itself or another watch whose record comes first."""
    cases = []
    batches = [[(1, 0x400), (1, IN_IGNORED)], [(1, 0x2), (1, 0x2), (1, IN_IGNORED)], [(1, 0x400), (1, IN_IGNORED), (1, 0x2)]]
    acts = ["unwatch 0", "unwatch 0 ; free 0", "unwatch 0 ; watch 0 0 2 1", "unwatch 0 ; watch 0 0 2 3", "unwatch 0 ; uninst 0 keep"]
    for bi, batch in enumerate(batches):
        for ai, act in enumerate(acts):
            for actor in ("self", "other"):
                for fill in ("zero", "junk"):
                    ops = [f"inst 0 {fill} ok", "watch 0 0 fff 1", "watch 1 0 fff 2"]
                    recs = list(batch)
                    if actor == "other":
                        recs = [(2, 0x2)] + recs
                        ops.append(f"react 1 0 {act}")
                    else:
                        ops.append(f"react 0 0 {act}")
                    ops.append("event 0 d " + " ".join(f"{wd}:{m:x}:0:0:z" for wd, m in recs))
                    ops.append("event 0 d 2:2:0:0:z 1:2:0:0:z")
                    cases.append((f"removed-b{bi}-a{ai}-{actor}-{fill}", ops))
    return cases


def enum_two_instance_cases():
    """Enumerated (every run): two instances. A dispatch of instance B ends with B's watch set empty (its only watch unregisters itself
    in its handler / is dropped by IN_IGNORED / a one-shot watch fires) or non-empty; B stays registered and is unregistered LATER — from
    a handler of instance A at the first of several records of one read (the rest of A's batch must still be delivered, in order), or at
    top level — and afterwards A receives more events. Nothing of B's finished dispatch may linger."""
    cases = []
    endings = {
        "self-unwatch": (["react 0 0 unwatch 0"], "event 1 d 5:2:0:0:z"),
        "ignored": ([], f"event 1 d 5:2:0:0:z 5:{IN_IGNORED:x}:0:0:z"),
        "unwatch-all": (["watch 3 1 fff 8", "react 0 0 unwatch 3 ; unwatch 0"], "event 1 d 5:2:0:0:z 8:2:0:0:z"),
        "nonempty": (["watch 3 1 fff 8"], "event 1 d 5:2:0:0:z"),
        "no-dispatch": ([], "event 1 a"),
    }
    for en, (pre, bev) in endings.items():
        for where in ("handler-first", "handler-middle", "top"):
            for fill in ("zero", "junk"):
                ops = [f"inst 0 {fill} ok", f"inst 1 {fill} ok", "watch 0 1 fff 5", "watch 1 0 fff 6", "watch 2 0 fff 7"] + pre + [bev]
                if where == "handler-first":
                    ops += ["react 1 0 uninst 1", "event 0 d 6:2:0:0:z 7:2:0:0:z 6:4:0:0:z"]
                elif where == "handler-middle":
                    ops += ["react 2 0 uninst 1", "event 0 d 6:2:0:0:z 7:2:0:0:z 6:4:0:0:z 7:4:0:0:z"]
                else:
                    ops += ["uninst 1", "event 0 d 6:2:0:0:z 7:2:0:0:z"]
                ops += ["event 0 d 7:2:0:0:z 6:2:0:0:z"]
                cases.append((f"twoinst-{en}-{where}-{fill}", ops))
    return cases


def enum_fullbuf_cases():
    """Enumerated (every run): one read fills the whole 64 KiB buffer (64 records of 1 KiB), or stops just short of it, and a handler
    unregisters the watch / the instance at the first, a middle or the last record; whatever the library does after the walk (e.g. decide
    whether to read again) must not touch an instance a handler has unregistered; the following read is delivered normally."""
    cases = []
    for total_last in (1008, 752, 736, 16):          # last record's name length: batch = 65536 / 65280 / 65264 / 64544 bytes
        recs = ["5:2:0:1008:z"] * 63 + [f"5:2:0:{total_last}:z"]
        for where in (0, 31, 63, None):
            for act in ("uninst 0", "unwatch 0", "uninst 0 keep"):
                ops = ["inst 0 junk ok", "inst 1 zero ok", "watch 0 0 fff 5", "watch 1 1 fff 6"]
                if where is not None:
                    ops.append(f"react 0 {where} {act}")
                elif act != "uninst 0":
                    continue
                ops.append("event 0 d " + " ".join(recs))
                ops.append("event 1 d 6:2:0:0:z")
                ops.append("event 0 d 5:4:0:0:z")
                cases.append((f"fullbuf-{total_last}-{where}-{act.replace(' ', '_')}", ops))
    return cases


def enum_overflow_cases():
    """Enumerated (every run): the queue-overflow marker (wd -1, IN_Q_OVERFLOW) at the start, in the middle and at the end of a batch: the
    records around it are delivered as usual"""
    cases = []
    for pos in (0, 1, 2, 3):
        recs = ["5:2:0:0:z", "6:2:0:16:z", "5:100:0:0:z"]
        recs.insert(pos, "-1:4000:0:0:z")
        cases.append((f"overflow-{pos}", ["inst 0 junk ok", "watch 0 0 fff 5", "watch 1 0 fff 6", "event 0 d " + " ".join(recs), "event 0 d 6:2:0:0:z"]))
    return cases


def gen_cases(tier, seed):
    yield from enum_overflow_cases()
    yield from enum_removed_cases()
    yield from enum_two_instance_cases()
    yield from enum_fullbuf_cases()
    rng = random.Random(seed * 130003 + 20)
    for i in range(400 if tier == "quick" else 6000):
        if i % 20 == 19:
            yield (f"real-{i}", gen_real(rng))
        else:
            yield (f"rand-{i}", gen_case(rng, big=(i % 10 == 9)))


def run_impl(ops):
    a = common.run_cmd([HARNESS], "\n".join(ops) + "\n")
    if a.returncode != 0 and ops and ops[0] == "real":
        # the harness died before removing its private directory tree
        m = re.search(r"^FS root (/tmp/c20real\w+)$", a.stdout, flags=re.M)
        if m:
            shutil.rmtree(m.group(1), ignore_errors=True)
    return a


def impl_fails(ops):
    a = run_impl(ops)
    return oracle(a.stdout.splitlines(), a.returncode, common.san_line(a.stderr)), a


def nontrivial(log):
    """a multi-record read that produced a delivery, together with at least one of: handler-driven (un)registration,
    a watch dropped before its handler, a record with a name"""
    multi = any(l.startswith("READ data") and int(l.split()[3]) >= 2 for l in log)
    cb = any(l.startswith("CB ") for l in log)
    inh = False
    depth = 0
    for l in log:
        if l.startswith("CB "):
            depth = 1
        elif l.startswith("HEND"):
            depth = 0
        elif depth and l.split()[0] in ("WUNREG", "IUNREG", "WREG", "IREG"):
            inh = True
    dropped = any(l.startswith("CB ") and len(l.split()) == 9 and l.split()[7] == "0" for l in log)
    named = any(l.startswith("REC ") and int(l.split()[5]) > 0 for l in log)
    return multi and cb and (inh or dropped or named)


def examine(name, ops, tier, seed, res, cov, dist):
    a = run_impl(ops)
    log = a.stdout.splitlines()
    res.evaluations += 1
    verdict = oracle(log, a.returncode, common.san_line(a.stderr))
    if verdict is not None:
        sig0 = verdict[0]
        small = common.shrink(ops, lambda o: (impl_fails(o)[0] or ("", ""))[0] == sig0, keep_head=0)
        v2 = impl_fails(small)[0] or verdict
        p = common.write_case(PROP, name, small, tier, seed)
        res.impl_violations.append((v2[0], f"implementation violates C20: {v2[1]}", p))
        return
    b = common.run_cmd([common.REPLAY_BIN, "inotify"], a.stdout)
    div = [l for l in b.stdout.splitlines() if l.startswith(("DIVERGE", "bad-log"))]
    for l in b.stdout.splitlines():
        if l.startswith("COV "):
            _, k, n = l.split()
            cov[k] = cov.get(k, 0) + int(n)
    for l in log:
        if l.startswith("READ data"):
            k = int(l.split()[3])
            dist["records_per_read"][k] = dist["records_per_read"].get(k, 0) + 1
        elif l.startswith("CB "):
            dist["handler_invocations"] += 1
    if div or b.returncode != 0 or "SUMMARY" not in b.stdout:
        def still(o):
            x = run_impl(o)
            y = common.run_cmd([common.REPLAY_BIN, "inotify"], x.stdout)
            return any(l.startswith("DIVERGE") for l in y.stdout.splitlines())
        small = common.shrink(ops, still, keep_head=0) if div else ops
        p = common.write_case(PROP, name, small, tier, seed)
        res.divergences.append((f"model Ivy.L3.Inotify does not predict iv_inotify.c: {(div or ['replayer failed: ' + b.stderr[-200:]])[0][:400]}", p))
        return
    if nontrivial(log):
        res.nontrivial.add(hashlib.sha1("\n".join(ops).encode()).hexdigest()[:12])


def run(tier, seed, proof):
    res = common.Result()
    res.rule = ("scripted scenarios on the real iv_inotify.c: 1-3 instances (zeroed, 0xA5-filled or re-used memory; inotify_init failures), "
                "1-6 initial watches with scenario-chosen descriptors (collisions, -1, one-shot), 1-4 reads of 1-12 records (len 0/16/32/48/64/256, "
                "occasionally 4-20 or 1-4 KiB; names filled with fake headers of registered descriptors; IN_IGNORED records; unknown descriptors; "
                "EINTR/EAGAIN), handlers scripted per (watch, n-th call) to unregister themselves / other watches / the instance (with and without "
                "re-registering the same structure), register new or dropped watches, release dropped watches, register instances. Plus two ENUMERATED families "
                "(every run): 'removed' (the kernel already dropped a watch that a handler then unregisters/frees/re-registers) and 'twoinst' (30 cases: an "
                "instance whose last dispatch ended with an empty / non-empty watch set is unregistered later from a handler of ANOTHER instance in the middle "
                "of that instance's batch, or at top level; the rest of the batch and later reads must still be delivered) and 'fullbuf' (40 cases: one read fills the 64 KiB buffer or stops just short of it while a handler unregisters the watch or the instance at the first / a middle / the last record). One case in 20 "
                "runs against the real kernel (private directory tree, events made by creating/deleting files and removing directories). Plus a THREADS part: the "
                "ThreadSanitizer program tsan_inotify (one instance per loop thread, concurrent bursts; 2 runs quick / 8 thorough), any data race in iv_inotify.c "
                "is a violation (instances of different threads must share nothing). Every structure is "
                "malloc'ed on its own and freed as early as the API allows (ASan). Every call, return value, handler invocation (watch, offset, record, "
                "tree membership at entry) and end of walk is compared with the model; the oracle checks the log alone against the watch sets it "
                "maintains from the API records. non-trivial = a multi-record read with a delivery plus a handler-driven (un)registration or a "
                "dropped watch or a named record; distinct by hash of the scenario")
    res.assumptions = ["kernel contract: a read returns whole records, each len + 16 bytes after the previous one (the harness lays them out; the driver "
                       "checks the model's layout function against it)",
                       "iv_fd layer underneath (C01-C04), nested fd-handler invocations and handlers that overwrite the event buffer are not modelled",
                       "the AVL tree is modelled as an association list keyed by descriptor (AVL layer: C16)"]
    ok, log = build()
    if not ok:
        res.divergences.append(("white-box harness for iv_inotify.c no longer compiles: " + log[-400:], None))
        return res
    if not proof["driver_ok"]:
        return res
    cov = {}
    dist = {"records_per_read": {}, "handler_invocations": 0}
    import itertools
    for name, ops in itertools.chain(corpus_cases(), gen_cases(tier, seed)):
        examine(name, ops, tier, seed, res, cov, dist)
        if len(res.samples) < 3 and not name.startswith("corpus"):
            res.samples.append({"case": name, "ops_head": ops[:6], "n_ops": len(ops)})
        if len(res.impl_violations) + len(res.divergences) >= 4:
            break
    res.extra["model_branch_coverage"] = cov
    res.extra["distributions"] = dist
    if not res.impl_violations:
        threads_part(tier, seed, res)
    return res


def threads_part(tier, seed, res):
    """the statement is per instance; instances of DIFFERENT threads run their reads and dispatches concurrently, so whatever iv_inotify.c
    keeps between a read and the dispatch of its records must be private to the call. C14's ThreadSanitizer program tsan_inotify (one
    instance per loop thread, bursts of different events) is run and any data race with a frame in iv_inotify.c is reported here: with shared
    state a record read for one instance can be handed to a watch of another"""
    from . import c14
    ok, log = c14.build()
    if not ok:
        res.divergences.append(("ThreadSanitizer programs no longer build: " + log[-300:], None))
        return
    n = 0
    for k in range(2 if tier == "quick" else 8):
        sc = (f"inotify-threads-{k}", "inotify", seed * 10 + k, 2 + k % 2, 600 if tier == "quick" else 2000, 0, "" if k % 2 == 0 else c14.NO_EPOLL)
        r = c14.run_scenario(sc)
        res.evaluations += 1
        n += 1
        for rep in c14.parse_reports(r["err"]):
            if rep["kind"] == "data race" and "iv_inotify.c" in rep["text"]:
                pth = common.write_case(PROP, sc[0], ["# threads case (replayed by vlib/c14.py)"] + c14.case_text(sc, c14.excerpt(rep)), tier, seed, ext="tsan")
                first = c14.excerpt(rep).splitlines()
                res.impl_violations.append(("inotify:shared-between-threads", "implementation violates C20: two instances in two threads share state of iv_inotify.c "
                                            "(ThreadSanitizer data race): records read for one instance can be dispatched to a watch of another: " +
                                            " | ".join(x.strip() for x in first[1:6]), pth))
                res.extra["threads_part_runs"] = n
                return
    res.extra["threads_part_runs"] = n


def search(tier, seed, proof):
    res = common.Result()
    ok, _ = build()
    if not ok:
        return res
    import itertools
    for s in range(seed + 900, seed + 903):
        for name, ops in itertools.chain(corpus_cases(), gen_cases("quick", s)):
            res.evaluations += 1
            verdict, a = impl_fails(ops)
            if verdict:
                sig0 = verdict[0]
                small = common.shrink(ops, lambda o: (impl_fails(o)[0] or ("", ""))[0] == sig0, keep_head=0)
                v2 = impl_fails(small)[0] or verdict
                p = common.write_case(PROP, "search-" + name, small, tier, seed)
                res.impl_violations.append((v2[0], "implementation violates C20: " + v2[1], p))
                return res
    return res


def replay(path):
    if "# threads case" in open(path).read():
        from . import c14
        return c14.replay(path)
    ops = [l.strip() for l in open(path) if l.strip() and not l.startswith("#")]
    ok, log = build()
    if not ok:
        print(log); return 2
    common.lean_build(["ivyreplay"])
    a = run_impl(ops)
    print("--- implementation log"); print(a.stdout[-6000:], a.stderr[-2000:])
    b = common.run_cmd([common.REPLAY_BIN, "inotify"], a.stdout)
    print("--- model replay"); print(b.stdout[-2000:])
    verdict = oracle(a.stdout.splitlines(), a.returncode, common.san_line(a.stderr))
    print("--- oracle:", verdict or "ok")
    return 1 if (verdict or a.returncode != 0) else 0
