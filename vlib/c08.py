"""C08: iv_event — T-sched: the real library under the deterministic baton scheduler (harness/mt_h.c + the white-box
extension harness/mt_c08.c) runs generated multi-thread post/handler/unregister programs at many interleavings (seeds);
the Lean LTS Ivy.L2.Event replays every log (one LTS instance per owner thread): each log record must be an enabled
action, and the white-box snapshots taken at the end of every critical section (pending list, events_local flag, the
kernel's one-shot registration, the raw descriptor's counter) must equal the model state.  An independent oracle states
C08 on the implementation's log alone (lost post at quiescence, handler thread, counts, handler after unregister)."""
import concurrent.futures, hashlib, os, random, re, subprocess, tempfile
from . import common

PROP = "C08"
LEANCHECK_MODULES = ["Ivy.L2.Event", "Ivy.L2.EventProofs", "Ivy.Props.C08"]
HARNESS = os.path.join(common.BUILD, "mt_c08_h")
RUN_TIMEOUT = 75
INTERESTING = ("post-appended-nokick", "post-coalesced", "recheck-batch-emptied", "steal-many", "raw-read-raced-write",
               "unregister-queued", "self-post-task")


def build():
    return common.build_mt(out=HARNESS, extra_sources=[os.path.join(common.VERIF, "harness", "mt_c08.c")],
                           extra_wraps=["pthread_mutex_init"])


# ---------------------------------------------------------------- implementation-only oracle
def oracle(log):
    """C08 on the implementation's own log.  Returns (signature, message) or None; ("artefact", …) when the scenario
    made an owner thread post to itself from inside its own kernel wait (a harness stimulus no program can produce)."""
    owner = {}          # event -> owner thread
    reg = {}            # event -> registered?
    posts = {}          # event -> number of POST begun
    cbs = {}            # event -> number of handler starts
    outstanding = {}    # event -> list of [post_line, cs_done]
    inpost = {}         # thread -> event being posted
    inwait = set()
    pend_reg = {}       # thread -> event in evRegister
    end = None
    fin = False
    for n, l in enumerate(log, 1):
        w = l.split()
        if len(w) < 2 or not w[0].startswith("T"):
            if w and w[0] == "HARNESS-ERROR":
                return ("event:harness-error", f"line {n}: {l}")
            continue
        t, r = w[0], w[1]
        if r == "WAIT":
            inwait.add(t)
            # a post that has RETURNED (its wake-up is sent) before the owner enters a kernel wait is visible to that wait and to every later
            # one. The wake-up may have to queue behind other ready sources (the epoll back ends ask for as many entries per call as there
            # are registered descriptors, at least one), so a few waits may complete first; TEN completed waits without the handler mean the
            # owner is not being woken for it: the post is lost. An unregistration excuses only a delivery the owner had no such chance to make.
            for e, lst in outstanding.items():
                if owner.get(e) == t and reg.get(e):
                    for p in lst:
                        if len(p) > 2 and p[2] == "posted":
                            p[2] = "armed"
                        if len(p) > 3 and p[3] >= LOST_AFTER_WAITS:
                            return ("event:lost-post", f"line {n}: post of {e} at line {p[0]} had returned before its owner {t} entered a kernel wait; "
                                                       f"{p[3]} waits have completed since and {t} waits again without having run the handler")
        elif r == "WRET":
            inwait.discard(t)
            if len(w) > 2 and w[2].startswith("n=") and not w[2].startswith("n=-"):
                for e, lst in outstanding.items():
                    if owner.get(e) == t and reg.get(e):
                        for p in lst:
                            if len(p) > 3 and p[2] == "armed":
                                p[3] += 1
        elif r == "API" and len(w) >= 4 and w[2] == "evRegister":
            pend_reg[t] = w[3]
        elif r == "RET" and t in pend_reg:
            e = pend_reg.pop(t)
            if w[2] == "0":
                reg[e] = True
                owner[e] = t
                outstanding[e] = []
        elif r == "API" and len(w) >= 4 and w[2] == "evUnregister":
            e = w[3]
            for p in outstanding.get(e, []):
                if len(p) > 3 and p[3] >= LOST_AFTER_WAITS and reg.get(e):
                    return ("event:lost-post", f"line {n}: post of {e} at line {p[0]} had returned before its owner {t} entered a kernel wait; that wait "
                                               f"and {p[3]} more completed, and the event is now unregistered without its handler having run")
            reg[e] = False
            outstanding[e] = []
        elif r == "POST":
            e = w[2]
            ow = w[3].split("=")[1]
            if ow == t and t in inwait:
                return ("artefact", f"line {n}: stimulus posts {e} from its owner thread inside that thread's kernel wait")
            posts[e] = posts.get(e, 0) + 1
            ent = [n, False, "open", 0]
            outstanding.setdefault(e, []).append(ent)
            inpost[t] = ent
        elif r == "UNLOCK" and w[2].startswith("evmu:") and t in inpost:
            inpost[t][1] = True          # the post is linearised at the end of its critical section
        elif r == "POSTED":
            ent = inpost.pop(t, None)
            if ent is not None and ent[1] and ent[2] == "open":
                ent[2] = "posted"
        elif r == "CB" and w[2].startswith("e") and w[2][1:].isdigit():
            e = w[2]
            ow = w[3].split("=")[1]
            if ow != t:
                return ("event:wrong-thread", f"line {n}: handler of {e} (owner {ow}) invoked in thread {t}")
            if not reg.get(e, False):
                return ("event:handler-after-unregister", f"line {n}: handler of {e} invoked although it is not registered")
            cbs[e] = cbs.get(e, 0) + 1
            if cbs[e] > posts.get(e, 0):
                return ("event:over-delivered", f"line {n}: handler of {e} invoked {cbs[e]} times after {posts.get(e, 0)} posts")
            outstanding[e] = [p for p in outstanding.get(e, []) if not p[1]]
        elif r == "DEINIT":
            left = [e for e in reg if reg[e] and owner.get(e) == t]
            if left:
                return ("artefact", f"line {n}: invalid scenario: thread {t} deinitialises with {left[0]} still registered")
        elif r == "FATAL":
            return ("event:fatal", f"line {n}: library called iv_fatal: {' '.join(w[2:])[:120]}")
        elif r == "SELF-DEADLOCK":
            return ("event:deadlock", f"line {n}: {l}")
        elif r in ("QUIESCENT", "ALLDONE", "WAITLIMIT", "CBLIMIT", "STEPLIMIT"):
            end = (r, w[2:], n)
            if r.endswith("LIMIT"):
                fin = True               # budget ends terminate the harness without a FIN record
        elif r == "FIN":
            fin = True
    if not fin:
        return ("event:crash", "log ends without FIN (crash, sanitizer abort or hang)")
    if end is None:
        end = ("ALLDONE", [], len(log))
    if end[0] == "QUIESCENT":
        for x in end[1]:
            if x.endswith(":mutex"):
                return ("event:deadlock", f"line {end[2]}: thread {x} blocked on a mutex at global quiescence")
    if end[0] in ("QUIESCENT", "ALLDONE"):
        for e, lst in sorted(outstanding.items()):
            lst = [p for p in lst if p[1]]
            if reg.get(e, False) and lst:
                return ("event:lost-post", f"post of {e} at line {lst[0][0]} was never followed by its handler "
                                           f"(owner {owner.get(e)}; run ended {end[0]} {' '.join(end[1])})")
    return None


# ---------------------------------------------------------------- scenario generator
TRANSPORTS = [None, None, "epoll-timerfd", "epoll-timerfd epoll", "epoll-timerfd epoll", "epoll-timerfd epoll ppoll"]
TIMES = [1000, 1000, 2000, 2000, 3000, 5000, 8000]


def gen_scenario(rng):
    nth = rng.choice([1, 2, 2, 3, 3, 4, 5])
    nev = rng.randint(1, 5)
    owners = [0] + [k for k in range(1, nth) if rng.random() < 0.3]
    ev_owner = {e: rng.choice(owners) if rng.random() < 0.4 else 0 for e in range(nev)}
    if nth > 1 and rng.random() < 0.15:                     # sometimes the main thread only posts
        o = rng.randrange(1, nth)
        ev_owner = {e: o for e in range(nev)}
        owners = [o]
    lines = []
    tr = rng.choice(TRANSPORTS)
    cfgopts = []
    if rng.random() < 0.15:
        cfgopts.append("nopwait2")
    if tr and "epoll-timerfd epoll" in tr and rng.random() < 0.15:
        cfgopts.append("noeventfd")
    if tr is None and rng.random() < 0.1:
        cfgopts.append("notimerfd")
    if tr and "epoll-timerfd epoll" in tr and "noeventfd" not in cfgopts and rng.random() < 0.2:
        # descriptor exhaustion at the k-th eventfd the library asks for (raw-descriptor transport: the owner's kick): that registration
        # reports failure and must leave the owner's bookkeeping as it was — later registrations and posts work as if it had not happened
        cfgopts.append(f"eventfd-emfile={rng.choice([1, 1, 2, 3])}")
    hdr = ["cfg seed=@SEED@ stay=%d waitlimit=120 cblimit=400 %s" % (rng.choice([30, 45, 55, 70]), " ".join(cfgopts))]
    if tr:
        hdr.append("exclude " + tr)
    allev = list(range(nev))

    def mine(k):
        return [e for e in allev if ev_owner[e] == k]

    def post_actions(k, n, in_handler_of=None):
        acts = []
        for _ in range(n):
            x = rng.random()
            e = rng.choice(allev)
            if x < 0.70:
                acts.append(f"evpost e{e}")
            elif x < 0.78:
                acts.append("yield")
            elif x < 0.90 and mine(k):
                m = rng.choice(mine(k))
                acts.append(f"evunreg e{m}" + (" free" if rng.random() < 0.2 else ""))
            elif mine(k):
                acts.append(f"evreg e{rng.choice(mine(k))}")
            else:
                acts.append(f"evpost e{e}")
        return acts

    react = []
    idle = []
    for k in range(nth):
        sec = [f"thread {k}"]
        for e in mine(k):
            sec.append(f"obj event e{e}")
        ntim = rng.randint(1, 3) if (k not in owners or rng.random() < 0.7) else 0
        tims = [k * 8 + i for i in range(ntim)]
        for t in tims:
            sec.append(f"obj timer t{t}")
        task = None
        if rng.random() < 0.3:
            task = k * 8
            sec.append(f"obj task k{task}")
        do = []
        for e in mine(k):
            if rng.random() < 0.88:
                do.append(f"evreg e{e}")
        for t in tims:
            do.append(f"trel t{t} {rng.choice(TIMES)}")
        if task is not None and rng.random() < 0.5:
            do.append(f"kreg k{task}")
        if rng.random() < 0.5:
            do += post_actions(k, rng.randint(1, 3))
        if do:
            sec.append("do " + " ; ".join(do))
        for t in tims:
            rounds = rng.randint(1, 4)
            for i in range(1, rounds + 1):
                acts = post_actions(k, rng.randint(1, 3))
                if task is not None and rng.random() < 0.3:
                    acts.append(f"?kreg k{task}")
                if i < rounds:
                    acts.append(f"trel t{t} {rng.choice(TIMES)}")
                react.append(f"on t{t} {i} : " + " ; ".join(acts))
        if task is not None:
            react.append(f"on k{task} * : " + " ; ".join(post_actions(k, rng.randint(1, 2))))
        for e in mine(k):
            for i in range(1, rng.randint(1, 4)):
                if rng.random() < 0.7:
                    react.append(f"on e{e} {i} : " + " ; ".join(post_actions(k, rng.randint(1, 3), e)))
            if rng.random() < 0.15:
                react.append(f"on e{e} * : yield")
        others = [e for e in allev if ev_owner[e] != k]
        if others:
            for _ in range(rng.choice([0, 0, 1, 2])):
                react.append(f"at {rng.randint(0, 6)} : " + " ; ".join(f"evpost e{rng.choice(others)}" for _ in range(rng.randint(1, 2))))
                sec.append(react.pop())
        sec.append("main")
        lines += sec
    # no `idle` stimuli with evpost: in mt_h.c an idle stimulus runs inside a thread that is itself blocked in its wait, and the
    # first scheduling point of the post (the mutex lock) re-enters the all-blocked logic; late posts come from timers instead
    return hdr + lines + react + idle


def corpus_cases(seed):
    import glob
    rng = random.Random(seed * 131 + 5)
    for p in sorted(glob.glob(os.path.join(common.VERIF, "corpus", PROP, "*.scn"))):
        scn = [l.rstrip("\n") for l in open(p) if l.strip() and not l.startswith("#")]
        for j in range(8):
            yield (f"corpus-{os.path.basename(p)[:-4]}-i{j}", with_seed(scn, rng.randrange(1, 1 << 30)))


def enum_bases(seed):
    """small scenarios whose thread schedules are enumerated systematically (vlib/sched.py): the regression corpus (each file encodes a
    race that once mattered) and the first generated scenarios with at least two threads"""
    import glob
    out = []
    for p in sorted(glob.glob(os.path.join(common.VERIF, "corpus", PROP, "*.scn"))):
        out.append(("corpus-" + os.path.basename(p)[:-4], with_seed([l.rstrip("\n") for l in open(p) if l.strip() and not l.startswith("#")], 1)))
    rng = random.Random(seed * 7919 + 808)
    while len(out) < 9:
        scn = gen_scenario(rng)
        if sum(1 for l in scn if l.startswith("thread")) >= 2 and len(scn) <= 24:
            out.append((f"gen{len(out)}", with_seed(scn, 1)))
    return out


LOST_AFTER_WAITS = 10


def generation_cases():
    """Enumerated (every run): a SECOND generation of events in the process. Every iv_event of every thread is unregistered (the transport's
    process-wide resources are torn down), the application opens descriptors of its own (or not), then events are registered again, in the
    same or another thread, and posted to from a different thread: the post must be delivered exactly as in the first generation. Both
    transports."""
    cases = []
    for tr in (None, "epoll-timerfd", "epoll-timerfd epoll"):
        for app in ("appfd", "appfd ; appfd", "nop"):
            for owner2 in (0, 1):
                L = ["cfg seed=@SEED@ stay=55 waitlimit=120 cblimit=400"] + ([f"exclude {tr}"] if tr else [])
                L += ["thread 0", "obj event e0"] + (["obj event e1"] if owner2 == 0 else []) + ["obj timer t0", "obj timer t1", "obj timer t2",
                      "do evreg e0 ; trel t0 1000000"]
                if owner2 == 0:
                    L += [f"on t0 1 : evunreg e0 ; {app} ; evreg e1 ; trel t1 5000000"] + [f"on t1 {k} : trel t1 2000000" for k in range(1, 14)] + \
                         ["on t1 14 : evunreg e1", "main", "thread 1", "obj timer t8", "do trel t8 3000000", "on t8 1 : evpost e1", "main"]
                else:
                    L += [f"on t0 1 : evunreg e0 ; {app} ; trel t2 5000000", "on t2 1 : evpost e1", "main",
                          "thread 1", "obj event e1", "obj timer t8", "obj timer t9", "do trel t8 2000000",
                          "on t8 1 : evreg e1 ; trel t9 5000000"] + [f"on t9 {k} : trel t9 2000000" for k in range(1, 14)] + ["on t9 14 : evunreg e1", "main"]
                cases.append((f"generation-{tr or 'default'}-{app.count('appfd')}-o{owner2}".replace(" ", "+"), L))
    return cases


def gen_cases(tier, seed):
    yield from corpus_cases(seed)
    for name, scn in generation_cases():
        for j in range(2):
            yield (f"{name}-i{j}", with_seed(scn, seed * 100 + j + 1))
    from . import sched
    yield from sched.enum_cases(PROP, HARNESS, enum_bases(seed), tier, os.path.join(common.BUILD, "sched-c08"))
    rng = random.Random(seed * 7919 + 8)
    nscn, nseeds = (600, 4) if tier == "quick" else (6000, 8)
    for i in range(nscn):
        scn = gen_scenario(rng)
        for j in range(nseeds):
            yield (f"s{i}-i{j}", with_seed(scn, rng.randrange(1, 1 << 30)))


def with_seed(scn, s):
    return [l.replace("@SEED@", str(s)) for l in scn]


# ---------------------------------------------------------------- running
def run_impl(scn):
    with tempfile.NamedTemporaryFile("w", suffix=".scn", delete=False) as f:
        f.write("\n".join(scn) + "\n")
        p = f.name
    try:
        return common.run_cmd([HARNESS, p], "", timeout=RUN_TIMEOUT)
    finally:
        os.unlink(p)


def impl_fails(scn):
    a = run_impl(scn)
    log = a.stdout.splitlines()
    v = oracle(log)
    if v is not None and v[0] == "artefact":
        return None, a
    if v is None and a.returncode != 0:
        v = ("event:crash", f"harness exit {a.returncode} {common.san_line(a.stderr) or a.stderr[-200:]}")
    elif v is not None and v[0] == "event:crash" and a.returncode != 0:
        v = ("event:crash", f"harness exit {a.returncode} {common.san_line(a.stderr) or a.stderr[-200:]}")
    return v, a


def replay_model(logtext):
    b = common.run_cmd([common.REPLAY_BIN, "event"], logtext)
    div = [l for l in b.stdout.splitlines() if l.startswith(("DIVERGE", "bad-log"))]
    cov = {}
    summ = {}
    for l in b.stdout.splitlines():
        if l.startswith("COV "):
            _, k, n = l.split()
            cov[k] = int(n)
        elif l.startswith("SUMMARY"):
            w = l.split()
            summ = {w[i]: int(w[i + 1]) for i in range(1, len(w) - 1, 2)}
    ok = b.returncode == 0 and bool(summ)
    return div, cov, summ, ok, b


def interleaving_hash(log):
    h = hashlib.sha1()
    for l in log:
        w = l.split()
        if len(w) >= 2 and (w[1] in ("POST", "POSTED", "KICK-SEND", "KICK-WRITE", "WRET", "END") or
                            (w[1] == "UNLOCK" and w[2].startswith("evmu")) or (w[1] == "CB" and w[2].startswith("e")) or
                            (w[1] == "API" and w[2].startswith("ev"))):
            h.update((" ".join(w[:3]) + "\n").encode())
    return h.hexdigest()[:12]


def examine_one(scn):
    """one (scenario, seed): returns a dict (no shared state: called from worker threads)"""
    v, a = impl_fails(scn)
    log = a.stdout.splitlines()
    out = {"viol": v, "div": [], "cov": {}, "summ": {}, "artefact": False, "hash": None, "end": None, "method": None}
    pre = oracle(log)
    if pre is not None and pre[0] == "artefact":
        out["artefact"] = True
        return out
    for l in log[:3]:
        if " INIT method=" in l:
            out["method"] = l.split("method=")[1]
    for l in reversed(log[-6:]):
        w = l.split()
        if len(w) >= 2 and w[1] in ("QUIESCENT", "ALLDONE", "WAITLIMIT", "CBLIMIT", "STEPLIMIT", "SECTION-DONE"):
            out["end"] = w[1]
            break
    if v is not None:
        return out
    div, cov, summ, ok, b = replay_model(a.stdout)
    if summ.get("artefact", 0):
        out["artefact"] = True
        return out
    if not ok:
        div = div or ["replayer failed: " + (b.stderr[-200:] or b.stdout[-200:])]
    out.update(div=div, cov=cov, summ=summ, hash=interleaving_hash(log))
    return out


def shrink_case(scn, pred, budget=120):
    return common.shrink(scn, pred, keep_head=1, budget=budget)


def record(name, scn, r, tier, seed, res):
    if r["viol"] is not None:
        sig = r["viol"][0]

        def still(s):
            x, _ = impl_fails(s)
            return x is not None and x[0] == sig
        small = shrink_case(scn, still, budget=3 if "TIMEOUT" in r["viol"][1] else 120)   # hangs cost RUN_TIMEOUT per attempt
        v2, _ = impl_fails(small)
        msg = (v2 or r["viol"])[1]
        p = common.write_case(PROP, name, small, tier, seed, ext="scn")
        res.impl_violations.append((sig, f"implementation violates C08: {msg}", p))
    elif r["div"]:
        def still(s):
            x, a = impl_fails(s)
            if x is not None:
                return False
            d, _, summ, ok, _ = replay_model(a.stdout)
            return bool(d) and not summ.get("artefact", 0)
        small = shrink_case(scn, still)
        _, a = impl_fails(small)
        d = replay_model(a.stdout)[0] or r["div"]
        p = common.write_case(PROP, name, small, tier, seed, ext="scn")
        res.divergences.append((f"LTS Ivy.L2.Event does not explain the run of iv_event.c: {d[0][:500]}", p))


def run(tier, seed, proof):
    res = common.Result()
    res.rule = ("generated multi-thread programs: 1-5 threads (1-4 of them posting, the owner included), 1-5 events over 1-3 owner threads, "
                "timer/task/event-handler reactions that post, unregister (+free) and re-register, at-wait stimuli, transports "
                "epoll-timerfd / epoll (one-shot kick) and ppoll / poll (raw event; eventfd or pipe), each program at several scheduler "
                "seeds (every lock, unlock, epoll_ctl, write and wait entry is a scheduling point).  Every log is replayed on the LTS: each "
                "record an enabled action, pending list + events_local flag + kernel one-shot state + raw counter equal to the model after "
                "every critical section, quiescence test of the theorems at QUIESCENT.  Oracle on the log alone: lost post at "
                "quiescence/normal end, handler thread, handler count, handler after unregister, fatal, deadlock, crash.  non-trivial = the "
                "run exercised a post that found the list non-empty (no kick), a coalesced post, a multi-event batch, a batch emptied by "
                "unregister, an unregister of a queued event, a same-thread post or a raw read racing a write; distinct by hash of the "
                "interleaving of post/critical-section/kick/handler records")
    res.assumptions = ["kernel contract: epoll_wait reports an armed EPOLLIN|EPOLLONESHOT registration of an always-readable descriptor and "
                       "disarms it; poll reports a raw descriptor whose counter is non-zero; read resets the counter",
                       "iv_main runs a registered task before it blocks (property of the loop, C01-C04)",
                       "pthread mutexes provide mutual exclusion; scheduling points are the wrapped calls (accesses between them are "
                       "thread-local or under event_list_mutex — the data-race side is C14)",
                       "valid use: an event is not unregistered while another thread is inside iv_event_post on it; posts target registered events",
                       "is_mt_app() is true (pthreads linked)"]
    ok, log = build()
    if not ok:
        res.divergences.append(("T-sched harness for iv_event.c no longer builds: " + log[-400:], None))
        return res
    if not proof["driver_ok"]:
        return res
    cov = {}
    ends = {}
    methods = {}
    artefacts = 0
    snaps = xsnaps = actions = quiesced = 0
    cases = list(gen_cases(tier, seed))
    ex = concurrent.futures.ThreadPoolExecutor(max_workers=common.NCPU)
    try:
        for (name, scn), r in zip(cases, common.bounded_map(ex, lambda c: examine_one(c[1]), cases)):
            if len(res.impl_violations) + len(res.divergences) >= 4:
                break                       # enough evidence of failure: do not run the remaining cases
            if r["artefact"]:
                artefacts += 1
                continue
            res.evaluations += 1
            ends[r["end"]] = ends.get(r["end"], 0) + 1
            methods[r["method"]] = methods.get(r["method"], 0) + 1
            for k, n in r["cov"].items():
                cov[k] = cov.get(k, 0) + n
            s = r["summ"]
            snaps += s.get("snaps", 0); xsnaps += s.get("xsnaps", 0); actions += s.get("actions", 0); quiesced += s.get("quiesced", 0)
            if any(k in r["cov"] for k in INTERESTING) and r["hash"]:
                res.nontrivial.add(r["hash"])
            if len(res.samples) < 2 and r["hash"]:
                res.samples.append({"case": name, "scenario_head": scn[:10], "n_lines": len(scn), "end": r["end"], "actions": s.get("actions")})
            if r["viol"] is not None or r["div"]:
                record(name, scn, r, tier, seed, res)
    finally:
        ex.shutdown(wait=True, cancel_futures=True)
    if not res.impl_violations and not res.divergences:
        single_loop_part(tier, seed, res)
    res.extra["lts_action_coverage"] = cov
    res.extra["run_endings"] = ends
    res.extra["poll_methods"] = methods
    res.extra["lts_actions_replayed"] = actions
    res.extra["pending_snapshots_compared"] = snaps
    res.extra["wake_source_snapshots_compared"] = xsnaps
    res.extra["owner_quiescence_checks"] = quiesced
    res.extra["artefact_runs_discarded"] = artefacts
    return res


def lost_post_oracle(log):
    """single-loop logs (harness/loop_h.c): an event posted to a registered iv_event (from another thread: XPOST, or by the owner: API
    evPost) must have its handler run before the owner starts its second kernel wait after the post"""
    reg, pending, waits = set(), {}, 0
    want = None
    for n, l in enumerate(log.splitlines(), 1):
        w = l.split()
        if not w:
            continue
        if w[0] == "API" and len(w) > 2 and w[1] in ("evRegister", "evUnregister", "evPost"):
            want = (w[1], w[2], n)
            if w[1] == "evUnregister":
                reg.discard(w[2]); pending.pop(w[2], None)
            elif w[1] == "evPost" and w[2] in reg:
                pending.setdefault(w[2], (waits, n))
        elif w[0] == "RET" and want and want[0] == "evRegister":
            if w[1] == "0":
                reg.add(want[1])
            want = None
        elif w[0] == "XPOST" and w[1] in reg:
            pending.setdefault(w[1], (waits, n))
        elif w[0] == "CB" and w[1] in pending:
            pending.pop(w[1])
        elif w[0] == "FREE" and w[1] in pending:
            pending.pop(w[1])
        elif w[0] == "WAIT":
            waits += 1
            for e, (w0, ln) in pending.items():
                if waits - w0 > 1:
                    return f"event {e} posted at line {ln} was not delivered although its owner has entered the kernel wait {waits - w0} times since (line {n})"
    return None


def single_loop_part(tier, seed, res):
    """the owner's side of iv_event inside one loop (kick in the same epoll batch as the timer descriptor or as ready descriptors,
    handlers that unregister what the batch still holds): the enumerated loop families of C01-C07, judged by the lost-post oracle and
    replayed through the L1 machine"""
    from . import l1, loopgen
    ok, log = l1.build()
    if not ok:
        res.divergences.append(("loop harness no longer builds: " + log[-300:], None))
        return
    cases = [c for c in loopgen.ktimer_cases(seed) if "xpost" in " ".join(c[1])] + [c for c in loopgen.retract_cases(seed) if "-event-" in c[0]] + \
            [c for c in loopgen.quit_cases() if "-event-batch-" in c[0]]
    n = 0
    with concurrent.futures.ThreadPoolExecutor(max_workers=common.NCPU) as ex:
        for r in common.bounded_map(ex, lambda c: l1.run_case(*c), cases):
            n += 1
            res.evaluations += 1
            msg = lost_post_oracle(r.log) or (("monitor C08 rejects the implementation's log: " + r.mon["C08"]) if "C08" in r.mon else None)
            if msg:
                def pred(ls):
                    rr = l1.run_case("s", ls)
                    return lost_post_oracle(rr.log) is not None or "C08" in rr.mon
                small = l1.shrink_scenario(r.lines, pred, budget=60)
                pth = common.write_case(PROP, r.name, ["# single-loop case (replayed by vlib/l1.py)"] + small, tier, seed, ext="scn")
                res.impl_violations.append(("c08:loop:lost-post", "implementation violates C08: " + msg, pth))
                break
            d = l1.diverging(r)
            if d and not res.divergences:
                # remember the first divergence, but keep looking for a concrete lost post
                res.divergences.append(("single-loop part: " + d[:300], common.write_case(PROP, r.name + "-div", ["# single-loop case (replayed by vlib/l1.py)"] + r.lines, tier, seed, ext="scn")))
    res.extra["single_loop_cases"] = n


def search(tier, seed, proof):
    res = common.Result()
    ok, _ = build()
    if not ok:
        return res
    rng = random.Random(seed * 31 + 977)
    cases = []
    for i in range(400):
        scn = gen_scenario(rng)
        for j in range(3):
            cases.append((f"search-s{i}-i{j}", with_seed(scn, rng.randrange(1, 1 << 30))))
    with concurrent.futures.ThreadPoolExecutor(max_workers=common.NCPU) as ex:
        for (name, scn), (v, a) in zip(cases, common.bounded_map(ex, lambda c: impl_fails(c[1]), cases)):
            res.evaluations += 1
            if v is not None:
                record(name, scn, {"viol": v, "div": []}, tier, seed, res)
                return res
    return res


def replay(path):
    if "# single-loop case" in open(path).read():
        from . import l1
        rc = l1.replay(path)
        lines = [l.rstrip("\n") for l in open(path) if l.strip() and not l.startswith("#")]
        rr = l1.run_case("replay", lines)
        msg = lost_post_oracle(rr.log) or rr.mon.get("C08")
        print("--- lost-post oracle / Mon.C08:", msg or "ok")
        return 1 if (rc or msg) else 0
    scn = [l.rstrip("\n") for l in open(path) if l.strip() and not l.startswith("#")]
    ok, log = build()
    if not ok:
        print(log); return 2
    common.lean_build(["ivyreplay"])
    a = run_impl(scn)
    print("--- implementation log (tail)"); print(a.stdout[-5000:], a.stderr[-2000:])
    b = common.run_cmd([common.REPLAY_BIN, "event"], a.stdout)
    print("--- model replay"); print(b.stdout[-3000:])
    v = oracle(a.stdout.splitlines())
    print("--- oracle:", v or "ok")
    return 1 if (v or a.returncode != 0) else 0
