"""C05: timer store — T-diff of /repo/src/iv_timer.c (public API + read-only radix walk) against
Ivy.L0.Heap, plus an independent reference oracle (dict + sort) on the implementation's output."""
import hashlib, os, random, subprocess
from . import common

PROP = "C05"
LEANCHECK_MODULES = ["Ivy.L0.Heap", "Ivy.L0.HeapProofs", "Ivy.Props.C05"]
HARNESS = os.path.join(common.BUILD, "heap_h")
SPLIT = 128


def build():
    ok, objs, log = common.build_lib()
    if not ok:
        return False, log
    return common.cc(HARNESS, [os.path.join(common.VERIF, "harness", "heap_h.c")] + objs)


class Ref:
    """Spec-level reference: a dict of registered timers. Consumes impl output lines."""
    def __init__(self):
        self.reg = {}        # id -> (sec,nsec) on the heap
        self.batch = {}      # id -> expiry, collected, not yet fired
        self.react = {}
        self.n = 0

    def tog_like(self, w, out):
        op, tid = w[0], int(w[1])
        if tid >= self.n:
            return "op on unknown timer"
        registered = tid in self.reg or tid in self.batch
        if op == "tog":
            op = "unreg" if registered else "reg"
        if op == "reg":
            if registered:
                return None if out == "RES fatal" else f"register of a registered timer answered {out}"
            if out != "RES ok":
                return f"register answered {out}"
            self.reg[tid] = (int(w[2]), int(w[3]))
        else:
            if not registered:
                return None if out == "RES fatal" else f"unregister of an unregistered timer answered {out}"
            if out != "RES ok":
                return f"unregister answered {out}"
            self.reg.pop(tid, None)
            self.batch.pop(tid, None)
        return None

    def check_dump(self, line):
        p = line.split()
        try:
            num, depth, numobjs = int(p[1]), int(p[3]), int(p[5])
        except Exception:
            return "unparsable stat line " + line
        if num != len(self.reg):
            return f"num_timers={num} but {len(self.reg)} timers are registered"
        if numobjs != len(self.reg):
            return f"numobjs={numobjs} but {len(self.reg)} timers are registered"
        i = p.index("SOON")
        if self.reg:
            mn = min(self.reg.values())
            if p[i + 1] == "none" or (int(p[i + 1]), int(p[i + 2])) != mn:
                return f"soonest timeout {p[i+1:i+3]} != earliest registered expiry {mn}"
        elif p[i + 1] != "none":
            return "soonest timeout reported with no timer registered"
        if "SLOTS" in p:
            j = p.index("SLOTS")
            k = p.index("TAILBAD")
            slots = p[j + 1:k]
            if int(p[k + 1]) != 0:
                return "vacated heap slots are not NULL"
            ids = []
            for n_, sl in enumerate(slots, 1):
                if sl == "null":
                    return f"slot {n_} empty inside the heap"
                a, b = sl.split(":")
                if int(b) != n_:
                    return f"slot {n_} holds timer {a} whose index field is {b}"
                ids.append(int(a))
            if sorted(ids) != sorted(self.reg):
                return "heap contents differ from the registered set"
            for n_ in range(2, len(ids) + 1):
                if self.reg[ids[n_ // 2 - 1]] > self.reg[ids[n_ - 1]]:
                    return f"heap order violated between slot {n_//2} and {n_}"
        return None


def oracle(ops, outs):
    r = Ref()
    j = 0
    def nxt():
        nonlocal j
        if j >= len(outs):
            raise IndexError
        j += 1
        return outs[j - 1]
    try:
        for opi, op in enumerate(ops):
            w = op.split()
            if w[0] == "init":
                r.n = int(w[1]); nxt()
            elif w[0] == "on":
                r.react.setdefault(int(w[1]), []).append(w[2:]); nxt()
            elif w[0] in ("reg", "unreg", "tog"):
                m = r.tog_like(w, nxt())
                if m: return f"after op #{opi} '{op}': {m}"
            elif w[0] in ("stat", "dump"):
                m = r.check_dump(nxt())
                if m: return f"after op #{opi} '{op}': {m}"
            elif w[0] == "run":
                now = (int(w[1]), int(w[2]))
                r.batch = {t: e for t, e in r.reg.items() if e <= now}
                for t in r.batch:
                    del r.reg[t]
                expected = set(r.batch)
                while True:
                    line = nxt()
                    if line == "ENDRUN":
                        if r.batch:
                            return f"after op #{opi} '{op}': expired timers {sorted(r.batch)} never ran"
                        break
                    p = line.split()
                    if p[0] != "CB":
                        return f"after op #{opi} '{op}': unexpected line {line}"
                    t = int(p[1])
                    if t not in r.batch:
                        why = "was not expired/registered" if t not in expected else "was unregistered or already ran"
                        return f"after op #{opi} '{op}': handler of timer {t} ran but it {why}"
                    e = r.batch.pop(t)
                    if r.batch and min(r.batch.values()) < e:
                        return f"after op #{opi} '{op}': timer {t} (expiry {e}) ran while an earlier timer was waiting"
                    for rw in r.react.pop(t, []):
                        m = r.tog_like(rw, nxt())
                        if m: return f"after op #{opi} '{op}' in handler of {t}: {m}"
    except IndexError:
        return f"after op #{opi} '{op}': implementation output ended (crash, sanitizer abort or unexpected fatal)"
    return None


FAR_SECS = [0, 1, 5, 2**31 - 2, 2**31 - 1, 2**31, 2**31 + 16, 2**32 - 1, 2**32, 2**32 + 7, 3 * 2**32 + 1, 2**40, 2**62]


def ts(rng, span):
    k = rng.random()
    if k < 0.1:
        return (0, 0)
    if span == "far":
        # expiries decades apart ("never" timers next to ordinary ones): the ordering must not depend on the distance
        sec = rng.choice(FAR_SECS) + rng.choice([0, 0, 1, 3])
        return (sec, rng.choice([0, 1, 999999999, rng.randrange(0, 10**9)]))
    sec = rng.randrange(0, span)
    nsec = rng.choice([0, 1, 999999999, rng.randrange(0, 10**9)])
    return (sec, nsec)


def gen_sweep(rng, lo, hi, n_extra):
    """grow to hi, shrink below lo, regrow — crosses the radix capacity boundaries in both directions"""
    N = hi + n_extra
    ops = [f"init {N}"]
    for i in range(hi):
        e = ts(rng, 1000)
        ops.append(f"reg {i} {e[0]} {e[1]}")
        if lo - 3 <= i + 1:
            ops.append("stat")
    ops.append("dump")
    order = list(range(hi)); rng.shuffle(order)
    for c, i in enumerate(order[:hi - lo + 5]):
        ops.append(f"unreg {i}")
        if hi - c - 1 <= lo + 3:
            ops.append("stat")
    ops.append("dump")
    for i in order[:hi - lo + 5]:
        e = ts(rng, 1000)
        ops.append(f"reg {i} {e[0]} {e[1]}")
    ops.append("dump")
    ops.append(f"run {rng.randrange(300,700)} 0")
    ops.append("dump")
    ops.append("run 2000 0")
    ops.append("dump")
    return ops


def gen_victims(pops, victims_of, tail=True):
    """Enumerated: for every population P and every victim heap slot v, register P timers with ascending expiries (the k-th registered
    timer then sits in heap slot k), unregister exactly the timer in slot v, look, and empty the store again (from the tail, which
    moves nothing).  Reaches "the victim is the timer in the first slot of a radix level while the population is above / at / below
    that level's boundary", which random victims hit with probability about 1/P per step."""
    P = max(pops)
    ops = [f"init {P}"]
    for pop in pops:
        for v in victims_of(pop):
            if not 1 <= v <= pop:
                continue
            for i in range(pop):
                ops.append(f"reg {i} {10 + i} 0")
            ops.append(f"unreg {v - 1}")
            ops.append("dump" if pop < 400 else "stat")
            # a few more victims chosen by slot: the first of the second half, the new tail
            ops.append(f"unreg {pop // 2}")
            ops.append("stat")
            rest = [i for i in range(pop) if i not in (v - 1, pop // 2)]
            if tail:
                ops.append(f"run {10 + pop // 3} 0")
                ops.append("stat")
                rest = [i for i in rest if i > pop // 3]
            for i in reversed(rest):
                ops.append(f"unreg {i}")
            ops.append("stat")
    return ops


def gen_random(rng, n_t, n_ops, span):
    ops = [f"init {n_t}"]
    for _ in range(n_ops):
        k = rng.random()
        t = rng.randrange(n_t)
        e = ts(rng, span)
        if k < 0.55:
            ops.append(f"tog {t} {e[0]} {e[1]}")
        elif k < 0.62:
            ops.append(f"reg {t} {e[0]} {e[1]}")
        elif k < 0.69:
            ops.append(f"unreg {t}")
        elif k < 0.80:
            # reactions: handlers that (un)register other timers, themselves, equal expiries
            for _ in range(rng.randrange(1, 4)):
                u = rng.randrange(n_t); e2 = ts(rng, span)
                ops.append(f"on {t} tog {u} {e2[0]} {e2[1]}")
        elif k < 0.90:
            now = ts(rng, span)
            ops.append(f"run {now[0]} {now[1]}")
            ops.append("dump")
        else:
            ops.append("dump")
    ops.append("dump")
    ops.append(f"run {2**62 + 10 if span == 'far' else span + 1} 0")
    ops.append("dump")
    return ops


def corpus_cases():
    """regression corpus (runs first): minimised failing inputs of past defects and seeded changes"""
    import glob
    out = []
    for p in sorted(glob.glob(os.path.join(common.VERIF, "corpus", PROP, "*.ops"))):
        ops = [l.strip() for l in open(p) if l.strip() and not l.startswith("#")]
        out.append(("corpus-" + os.path.basename(p)[:-4], ops, "corpus-" + os.path.basename(p)[:-4]))
    return out


def gen_cases(tier, seed):
    yield from corpus_cases()
    rng = random.Random(seed * 7919 + 5)
    yield ("sweep-128", gen_sweep(rng, 120, 135, 4), "boundary-128")
    for i in range(30 if tier == "quick" else 200):
        n_t = rng.choice([3, 6, 12, 40, 150, 300])
        yield (f"rand-{i}", gen_random(rng, n_t, rng.choice([60, 200, 600]), rng.choice([5, 50, 1000])), None)
    for i in range(10 if tier == "quick" else 80):
        yield (f"far-{i}", gen_random(rng, rng.choice([3, 6, 12, 40]), rng.choice([60, 200]), "far"), None)
    yield ("victims-128", gen_victims([127, 128, 129, 130, 131, 200, 256, 257] if tier == "quick" else list(range(120, 140)) + [200, 255, 256, 257, 300],
                                      lambda p: [1, 2, 3, 63, 64, 65, 126, 127, 128, 129, 130, p - 1, p]), "victim-slot-128")
    yield ("sweep-16384", gen_sweep(rng, 16380, 16390, 4), "boundary-16384")
    yield ("victims-16384", gen_victims([16383, 16384, 16385, 16400] if tier == "quick" else [16383, 16384, 16385, 16386, 16400, 20000, 32768, 32769],
                                        lambda p: [128, 129, 8192, 16383, 16384, 16385] if tier != "quick" else [128, 16384, 16385]), "victim-slot-16384")
    if tier == "thorough":
        yield ("sweep-40000", gen_sweep(rng, 16000, 40000, 4), "population-40000")


def run_both(ops):
    text = "\n".join(ops) + "\n"
    a = subprocess.run([HARNESS], input=text, stdout=subprocess.PIPE, stderr=subprocess.PIPE, text=True)
    b = subprocess.run([common.REPLAY_BIN, "heap"], input=text, stdout=subprocess.PIPE, stderr=subprocess.PIPE, text=True)
    return a, b


def write_case(name, ops, tier, seed):
    d = os.path.join(common.OUT, PROP)
    os.makedirs(d, exist_ok=True)
    p = os.path.join(d, f"case-{tier}-{seed}-{name}.ops")
    open(p, "w").write("\n".join(ops) + "\n")
    return p


def impl_fails(ops):
    a = subprocess.run([HARNESS], input="\n".join(ops) + "\n", stdout=subprocess.PIPE, stderr=subprocess.PIPE, text=True)
    msg = oracle(ops, [x.rstrip() for x in a.stdout.splitlines()])
    if msg is None and a.returncode != 0:
        msg = f"harness exit {a.returncode}"
    return msg, a


def shrink(ops, pred, budget=150):
    """delta-debug on op lines (keeping line 0 = init); pred(ops) true = still failing"""
    cur = list(ops)
    n = 2
    tries = 0
    while len(cur) > 2 and tries < budget:
        chunk = max(1, (len(cur) - 1) // n)
        removed = False
        i = 1
        while i < len(cur) and tries < budget:
            cand = cur[:i] + cur[i + chunk:]
            tries += 1
            if len(cand) >= 2 and pred(cand):
                cur = cand
                removed = True
            else:
                i += chunk
        if not removed:
            if chunk == 1:
                break
            n = min(len(cur), n * 2)
    return cur


def examine(name, ops, tier, seed, res, pre=None):
    a, b = pre if pre is not None else run_both(ops)
    al, bl = [x.rstrip() for x in a.stdout.splitlines()], [x.rstrip() for x in b.stdout.splitlines()]
    res.evaluations += 1
    msg = oracle(ops, al)
    if msg is None and a.returncode != 0:
        msg = f"harness exit {a.returncode}: " + " ".join(a.stderr.strip().splitlines()[-1:])
    if msg is not None:
        small = ops
        if len(ops) < 3000:
            small = shrink(ops, lambda o: impl_fails(o)[0] is not None)
            msg = impl_fails(small)[0] or msg
        san = next((l for l in a.stderr.splitlines() if "ERROR: AddressSanitizer" in l or "runtime error" in l), "")
        p = write_case(name, small, tier, seed)
        res.impl_violations.append(("heap:" + msg.split(": ", 1)[-1][:50], f"implementation violates C05: {msg} {san}", p))
        return
    if al != bl:
        d = next((i for i, (x, y) in enumerate(zip(al, bl)) if x != y), min(len(al), len(bl)))
        p = write_case(name, ops, tier, seed)
        res.divergences.append((f"model Ivy.L0.Heap and iv_timer.c disagree at output line {d}: impl={al[d][:200] if d < len(al) else '<none>'} "
                                f"model={bl[d][:200] if d < len(bl) else '<none>'}", p))


def run(tier, seed, proof):
    res = common.Result()
    res.rule = ("op files of register/unregister/toggle/run-with-handler-reactions on 3..40000 timers incl. sweeps across the radix boundaries "
                "128 and 16384 in both directions; after each op the return value and (on dump) the full slot array with every back index, "
                "num_timers, rat_depth, numobjs and soonest timeout are compared model vs iv_timer.c; firing order compared; a dict+sort "
                "reference oracle checks the implementation alone. non-trivial = case contains at least one run that fired >= 2 timers or "
                "a boundary crossing; distinct by hash of the op file")
    res.assumptions = ["expires is not modified while a timer is registered (documented API rule)",
                       "interior radix nodes are modelled by capacity/truncation only"]
    ok, log = build()
    if not ok:
        res.divergences.append(("harness for iv_timer.c no longer compiles: " + log[-400:], None))
        return res
    if not proof["driver_ok"]:
        return res
    nops = 0
    kinds = {}
    import concurrent.futures
    cases = list(gen_cases(tier, seed))
    ex = concurrent.futures.ThreadPoolExecutor(max_workers=common.NCPU)
    outs = ex.map(lambda c: run_both(c[1]), cases)
    for (name, ops, tag), pre in zip(cases, outs):
        examine(name, ops, tier, seed, res, pre)
        nops += len(ops)
        for o in ops:
            k = o.split()[0]; kinds[k] = kinds.get(k, 0) + 1
        if tag or sum(1 for o in ops if o.startswith("run")) >= 1:
            res.nontrivial.add(tag or hashlib.sha1("\n".join(ops).encode()).hexdigest()[:12])
        if len(res.samples) < 2 and name.startswith("rand"):
            res.samples.append({"case": name, "ops_head": ops[:14], "n_ops": len(ops)})
        if len(res.impl_violations) + len(res.divergences) >= 4:
            break
    res.extra["operations_compared"] = nops
    res.extra["op_distribution"] = kinds
    # "registering or unregistering a timer never changes whether or when another timer fires" at the level of the running loop (the
    # store above is only half of it: the loop turns the earliest expiry into a poll timeout or an armed timer descriptor): C04's
    # scenario families and monitor (never early, once, never late) are run as part of this check
    if not res.impl_violations and not res.divergences:
        from . import c04
        sub = c04.run(tier, seed, proof)
        res.evaluations += sub.evaluations
        res.nontrivial |= set("loop-" + x for x in sub.nontrivial)
        for sig, msg, pth in sub.impl_violations:
            if pth and os.path.isfile(pth):
                txt = open(pth).read()
                open(pth, "w").write("# loop-level case (replayed by vlib/c04.py)\n" + txt)
            res.impl_violations.append(("C05:loop:" + sig, "when a timer fires depends on other timers (loop level): " + msg, pth))
        for d, pth in sub.divergences:
            res.divergences.append(("loop level: " + d, pth))
        res.extra["loop_level_cases"] = sub.evaluations
    return res


def search(tier, seed, proof):
    res = common.Result()
    ok, _ = build()
    if not ok:
        return res
    for s in range(seed + 500, seed + 503):
        for name, ops, tag in gen_cases("quick", s):
            res.evaluations += 1
            msg, a = impl_fails(ops)
            if msg:
                small = shrink(ops, lambda o: impl_fails(o)[0] is not None) if len(ops) < 3000 else ops
                p = write_case("search-" + name, small, tier, seed)
                res.impl_violations.append(("heap:" + msg.split(": ", 1)[-1][:50], "implementation violates C05: " + msg, p))
                return res
    return res


def replay(path):
    if "# loop-level case" in open(path).read():
        from . import c04
        return c04.replay(path)
    ops = [l.strip() for l in open(path) if l.strip() and not l.startswith("#")]
    ok, log = build()
    if not ok:
        print(log); return 2
    common.lean_build(["ivyreplay"])
    a, b = run_both(ops)
    print("--- implementation"); print(a.stdout[-3000:], a.stderr[-2000:])
    print("--- model"); print(b.stdout[-3000:])
    msg = oracle(ops, [x.rstrip() for x in a.stdout.splitlines()])
    print("--- oracle:", msg or "ok")
    return 1 if (msg or a.returncode != 0) else 0
