"""C06: tasks — decided on the L1 machine (theorem Ivy.Props.C06.monitor_accepts) + T-replay correspondence."""
from . import l1, loopgen, c06list
PROP = "C06"
LEANCHECK_MODULES = ["Ivy.L1.Machine", "Ivy.L1.Exec", "Ivy.Mon.C06", "Ivy.L1.ProofsC06", "Ivy.Props.C06", "Ivy.L0.ListPtr", "Ivy.L0.ListPtrProofs", "Ivy.Props.C06list"]
FAMILIES = ["tasks", "mix"]
RULE = ("scenario families 'tasks' (self/mutual re-registration chains, stale/fresh epochs, registration from descriptor/timer/event "
        "handlers, free+reinit of task structs inside handlers) and 'mix', rotating over the four poll methods and fault configurations; every "
        "log is replayed through the Lean machine (all records must be predicted) and through Mon.C06. non-trivial = a task was registered from "
        "inside a task handler; distinct by hash of the log")


def nontrivial(log):
    inside = False
    for l in log.splitlines():
        if l.startswith("CB k"):
            inside = True
        elif l.startswith("END"):
            inside = False
        elif inside and l.startswith("API taskRegister"):
            return True
    return False


# "do not prevent descriptors, timers and events from being serviced": the servicing guarantees themselves are the statements of
# C02 (readiness not lost), C04 (timers never late) and C07's progress rules; their monitors run on every log of this check too
MONS = ["C06", "C04", "C02", "C03"]
STARVE_RULE = ("; plus the ENUMERATED family 'starve' (every run): a self-re-registering task / a ring of two or three tasks keeps a deferred task "
               "pending in every round for 14-30 rounds while a timer becomes due, a descriptor becomes readable and a cross-thread event is "
               "posted during the busy period, on all four methods, with and without a timer descriptor; the monitors of C04, C02 and C03 "
               "(timers never late, readiness not lost, handlers only for reported conditions) judge the same logs")

LIST_RULE = ("; plus a differential run of iv_list.h / __iv_list_steal_elements (harness/list_h.c) against the pointer-level model Ivy.L0.ListPtr "
             "(refinement to Lean lists proved in Ivy.Props.C06list) on random op files, with an independent ring oracle")


def starve_cases(seed):
    import random
    rng = random.Random(seed * 6007 + 6)
    cases = []
    for m in loopgen.METHODS:
        for ring in (1, 2, 3):
            for cfgx in ("", " notimerfd", " nopwait2"):
                rounds = rng.choice([14, 20, 30])
                due = rng.choice([3000, 5000, 9000])
                L = ([f"exclude {m}"] if m else []) + [f"cfg waitlimit={rounds + 12} cblimit=400" + cfgx,
                     "obj fd f0 sock", "obj timer t0", "obj timer t1", "obj event e0"] + [f"obj task k{i + 1}" for i in range(ring)]
                for i in range(ring):
                    nxt = (i + 1) % ring + 1
                    L.append(f"on k{i + 1} * : ?kreg k{nxt}" if ring > 1 else f"on k1 * : ?kreg k1")
                L += ["on f0.in * : rd f0", f"on t1 1 : " + " ; ".join(f"?kunreg k{i + 1}" for i in range(ring)) + " ; ?unreg f0 ; ?evunreg e0",
                      f"at {rng.randrange(2, 6)} : wr f0 2", f"at {rng.randrange(2, 8)} : xpost e0",
                      f"do reg f0 100 ; evreg e0 ; trel t0 {due} ; trel t1 {rounds * 1000} ; kreg k1", "main"]
                cases.append((f"starve-{loopgen.METHOD_NAME[m]}-ring{ring}{cfgx.strip() and '-' + cfgx.strip()}", L))
        # a loop that has been running for a long time: the task round counter passes 2^16 (and 2^31) while a task ring keeps re-registering
        for e0 in (65533, 65535, 2147483646):
            for ring in (1, 2):
                L = ([f"exclude {m}"] if m else []) + [f"cfg waitlimit=20 cblimit=200 epoch0={e0}", "obj timer t1"] + [f"obj task k{i + 1}" for i in range(ring)]
                for i in range(ring):
                    L.append(f"on k{i + 1} * : ?kreg k{(i + 1) % ring + 1}")
                L += ["on t1 1 : " + " ; ".join(f"?kunreg k{i + 1}" for i in range(ring)), "do trel t1 8000 ; kreg k1", "main"]
                cases.append((f"starve-{loopgen.METHOD_NAME[m]}-epoch{e0}-ring{ring}", L))
    return cases


def run(tier, seed, proof):
    res = l1.run_property(PROP, tier, seed, proof, FAMILIES, MONS, [], nontrivial, RULE + STARVE_RULE + LIST_RULE + loopgen.ENUM_RULE,
                          extra_cases=lambda tier, seed: starve_cases(seed) + loopgen.quit_cases() +
                          [c for c in loopgen.ktimer_cases(seed) if "kreg" in " ".join(c[1])])
    # the intrusive list the task queue (and every other queue of the library) is built from: pointer-level model, differential run
    if proof["driver_ok"]:
        c06list.check(tier, seed, res)
    return res


def search(tier, seed, proof):
    return l1.search_property(PROP, tier, seed, ["tasks"], MONS, [])


def replay(path):
    if path.endswith(".listops") or "C06:list:" in open(path).read():
        return c06list.replay(path)
    return l1.replay(path)
