"""C06: tasks — decided on the L1 machine (theorem Ivy.Props.C06.monitor_accepts) + T-replay correspondence."""
import concurrent.futures, os, subprocess
from . import common, l1, loopgen, c06list
PROP = "C06"
LEANCHECK_MODULES = ["Ivy.L1.Machine", "Ivy.L1.Exec", "Ivy.Mon.C06", "Ivy.L1.ProofsC06", "Ivy.Props.C06", "Ivy.L0.ListPtr", "Ivy.L0.ListPtrProofs", "Ivy.Props.C06list"]
FAMILIES = ["tasks", "mix"]
RULE = ("scenario families 'tasks' (self/mutual re-registration chains, stale/fresh epochs, registration from descriptor/timer/event "
        "handlers, free+reinit of task structs inside handlers) and 'mix', rotating over the four poll methods and fault configurations; every "
        "log is replayed through the Lean machine (all records must be predicted) and through Mon.C06. non-trivial = a task was registered from "
        "inside a task handler; distinct by hash of the log")


def nontrivial(log):
    inside = False
    for l in log.splitlines():
        if l.startswith("CB k"):
            inside = True
        elif l.startswith("END"):
            inside = False
        elif inside and l.startswith("API taskRegister"):
            return True
    return False


# "do not prevent descriptors, timers and events from being serviced": the servicing guarantees themselves are the statements of
# C02 (readiness not lost), C04 (timers never late) and C07's progress rules; their monitors run on every log of this check too
MONS = ["C06", "C04", "C02", "C03"]
STARVE_RULE = ("; plus the ENUMERATED family 'starve' (every run): a self-re-registering task / a ring of two or three tasks keeps a deferred task "
               "pending in every round for 14-30 rounds while a timer becomes due, a descriptor becomes readable and a cross-thread event is "
               "posted during the busy period, on all four methods, with and without a timer descriptor; the monitors of C04, C02 and C03 "
               "(timers never late, readiness not lost, handlers only for reported conditions) judge the same logs")

LIST_RULE = ("; plus a differential run of iv_list.h / __iv_list_steal_elements (harness/list_h.c) against the pointer-level model Ivy.L0.ListPtr "
             "(refinement to Lean lists proved in Ivy.Props.C06list) on random op files, with an independent ring oracle")


def starve_cases(seed):
    import random
    rng = random.Random(seed * 6007 + 6)
    cases = []
    for m in loopgen.METHODS:
        for ring in (1, 2, 3):
            for cfgx in ("", " notimerfd", " nopwait2"):
                rounds = rng.choice([14, 20, 30])
                due = rng.choice([3000, 5000, 9000])
                L = ([f"exclude {m}"] if m else []) + [f"cfg waitlimit={rounds + 12} cblimit=400" + cfgx,
                     "obj fd f0 sock", "obj timer t0", "obj timer t1", "obj event e0"] + [f"obj task k{i + 1}" for i in range(ring)]
                for i in range(ring):
                    nxt = (i + 1) % ring + 1
                    L.append(f"on k{i + 1} * : ?kreg k{nxt}" if ring > 1 else f"on k1 * : ?kreg k1")
                L += ["on f0.in * : rd f0", f"on t1 1 : " + " ; ".join(f"?kunreg k{i + 1}" for i in range(ring)) + " ; ?unreg f0 ; ?evunreg e0",
                      f"at {rng.randrange(2, 6)} : wr f0 2", f"at {rng.randrange(2, 8)} : xpost e0",
                      f"do reg f0 100 ; evreg e0 ; trel t0 {due} ; trel t1 {rounds * 1000} ; kreg k1", "main"]
                cases.append((f"starve-{loopgen.METHOD_NAME[m]}-ring{ring}{cfgx.strip() and '-' + cfgx.strip()}", L))
        # a loop that has been running for a long time: the task round counter passes 2^16 (and 2^31) while a task ring keeps re-registering
        for e0 in (65533, 65535, 2147483646):
            for ring in (1, 2):
                L = ([f"exclude {m}"] if m else []) + [f"cfg waitlimit=20 cblimit=200 epoch0={e0}", "obj timer t1"] + [f"obj task k{i + 1}" for i in range(ring)]
                for i in range(ring):
                    L.append(f"on k{i + 1} * : ?kreg k{(i + 1) % ring + 1}")
                L += ["on t1 1 : " + " ; ".join(f"?kunreg k{i + 1}" for i in range(ring)), "do trel t1 8000 ; kreg k1", "main"]
                cases.append((f"starve-{loopgen.METHOD_NAME[m]}-epoch{e0}-ring{ring}", L))
    return cases


# ---------------------------------------------------------------- several loops in one process (T-sched harness)
THREADS_RULE = ("; plus the ENUMERATED family 'threads' on the multi-thread scheduler harness (harness/mt_h.c): a self-re-registering task, a ring "
                "of two tasks and two threads that both run self-re-registering tasks, while ANOTHER thread's loop goes round during the "
                "handler (woken by an event the handler posts, or busy with tasks of its own), under seed-chosen and systematically enumerated "
                "schedules: rounds are per loop - no task handler may run twice in one thread without that thread's kernel poll in between, every task runs in the thread that registered it, and none is left behind")
MT_H = os.path.join(common.BUILD, "mt_c06")


def threads_scenarios(tier, seed):
    out = []
    for v in ("event", "both", "ring", "timer"):
        for n in ((5,) if tier == "quick" else (4, 7, 12)):
            for sd in range(seed * 10, seed * 10 + (4 if tier == "quick" else 12)):
                L = [f"cfg seed={sd} stay=55 waitlimit=120 cblimit=400", "thread 0", "obj task k1", "obj task k3", "obj timer t0", "do kreg k1"]
                if v == "event":
                    L += [f"on k1 {i} : evpost e1 ; yield ; yield ; kreg k1" for i in range(1, n)]
                    L += ["main", "thread 1", "obj event e1", "do evreg e1", f"on e1 {n - 1} : evunreg e1", "main"]
                elif v == "both":
                    L += [f"on k1 {i} : yield ; kreg k1 ; yield" for i in range(1, n)]
                    L += ["main", "thread 1", "obj task k2", "do kreg k2"] + [f"on k2 {i} : yield ; kreg k2 ; yield" for i in range(1, n)] + ["main"]
                elif v == "ring":
                    L += [f"on k1 {i} : evpost e1 ; yield ; kreg k3 ; yield" for i in range(1, n)] + [f"on k3 {i} : yield ; kreg k1" for i in range(1, n)]
                    L += ["main", "thread 1", "obj event e1", "do evreg e1", f"on e1 {n - 1} : evunreg e1", "main"]
                else:
                    # the handler registers a due timer as well: it must be run (next iteration) although the task keeps re-registering
                    L += [f"on k1 {i} : evpost e1 ; yield ; ?trel t0 0 ; kreg k1" for i in range(1, n)]
                    L += ["main", "thread 1", "obj event e1", "do evreg e1", f"on e1 {n - 1} : evunreg e1", "main"]
                out.append((f"threads-{v}-n{n}-s{sd}", L))
    return out


def threads_oracle(log):
    """C06 on the multi-thread harness' log: per thread, the same task's handler twice with no kernel poll of that thread (and no return
    from iv_main) in between = a re-registration made inside the round was not deferred"""
    ran = {}
    pend = {}       # task -> (thread that registered it, line)
    cur_api = {}
    ended = None
    for n, l in enumerate(log.splitlines(), 1):
        w = l.split()
        if len(w) < 2:
            continue
        t = w[0]
        if w[1] in ("FIN", "QUIESCENT", "WAITLIMIT", "CBLIMIT", "STEPLIMIT"):
            ended = w[1]
        if w[1] == "API" and len(w) > 3 and w[2] == "taskRegister":
            pend[w[3]] = (t, n)
        elif w[1] == "API" and len(w) > 3 and w[2] == "taskUnregister":
            pend.pop(w[3], None)
        if w[1] == "CB" and len(w) > 2 and w[2].startswith("k"):
            own = next((x[6:] for x in w if x.startswith("owner=")), t)
            if own != t:
                return (f"line {n}: handler of task {w[2]} (registered by {own}) runs in {t}: a task's handler is invoked in the registering thread")
            pend.pop(w[2], None)
        if w[1] in ("WAIT", "MAINRET"):
            ran[t] = {}
            if w[1] == "MAINRET":
                lost = sorted(k for k, (tt, _) in pend.items() if tt == t)
                if lost:
                    return (f"line {n}: iv_main of {t} returns while task {lost[0]} (registered at line {pend[lost[0]][1]}) is still registered and "
                            f"has not been run: a registered task's handler is invoked exactly once per registration")
        elif w[1] == "CB" and len(w) > 2 and w[2].startswith("k"):
            if w[2] in ran.setdefault(t, {}):
                return (f"line {n}: handler of task {w[2]} runs again in {t} (previous run at line {ran[t][w[2]]}) although {t}'s loop has not been "
                        f"through a kernel poll in between: a re-registration made by a task that already ran in the current round was not deferred")
            ran[t][w[2]] = n
        elif w[1] == "FATAL":
            return f"line {n}: the library called iv_fatal: {' '.join(w[2:])[:120]}"
    if ended in ("FIN", "QUIESCENT") and pend:
        k = sorted(pend)[0]
        return (f"run ended ({ended}) with task {k} registered by {pend[k][0]} at line {pend[k][1]} never run: a registered task's handler is "
                f"invoked exactly once per registration, before the loop next blocks")
    return None


def run_mt(lines):
    env = dict(os.environ, ASAN_OPTIONS="detect_stack_use_after_return=1:detect_leaks=0:abort_on_error=0")
    try:
        r = subprocess.run([MT_H], input="\n".join(lines) + "\n", stdout=subprocess.PIPE, stderr=subprocess.PIPE, text=True, timeout=75, env=env)
        return r.stdout, r.stderr, r.returncode
    except subprocess.TimeoutExpired:
        return "", "TIMEOUT", -9


def mt_fails(lines):
    out, err, rc = run_mt(lines)
    if "HARNESS-ERROR" in out:
        return None
    m = threads_oracle(out)
    if m is None and rc != 0:
        m = f"harness exit {rc}: {common.san_line(err) or err[-200:]}"
    return m


def threads_part(tier, seed, res):
    ok, log = common.build_mt(out=MT_H)
    if not ok:
        res.divergences.append(("multi-thread harness no longer builds: " + log[-300:], None))
        return
    from . import sched
    cases = threads_scenarios(tier, seed)
    bases = [(c[0], c[1]) for c in cases if c[0].endswith(f"-s{seed * 10}")]
    cases += list(sched.enum_cases(PROP, MT_H, bases, tier, os.path.join(common.BUILD, "sched-c06"), want=len(bases), budget=120 if tier == "quick" else 1500))
    n = inter = 0
    with concurrent.futures.ThreadPoolExecutor(max_workers=common.NCPU) as ex:
        for (name, lines), m, out in common.bounded_map(ex, lambda c: (c, mt_fails(c[1]), None), cases):
            n += 1
            res.evaluations += 1
            if m:
                # shrink only on the same verdict (a degenerate scenario that upsets the harness is not a smaller witness)
                kind = next((k for k in ("runs again", "registering thread", "exactly once per registration") if k in m), None)
                same = lambda ls: "HARNESS-ERROR" not in run_mt(ls)[0] and kind in (threads_oracle(run_mt(ls)[0]) or "")
                small = common.shrink(lines, same, keep_head=1) if kind else lines
                m2 = mt_fails(small) or m
                pth = common.write_case(PROP, name, ["# threads case (multi-thread harness)"] + small, tier, seed, ext="scn")
                res.impl_violations.append(("task:threads:ran-twice-in-round", "implementation violates C06: " + m2, pth))
                break
    res.extra["threads_cases"] = n


def replay_threads(path):
    lines = [l.rstrip("\n") for l in open(path) if l.strip() and not l.startswith("#")]
    ok, log = common.build_mt(out=MT_H)
    if not ok:
        print(log); return 2
    out, err, rc = run_mt(lines)
    print("--- implementation log"); print(out[-6000:], err[-1500:])
    m = threads_oracle(out) or (f"harness exit {rc}" if rc else None)
    print("--- verdict:", m or "ok")
    return 1 if m else 0


def run(tier, seed, proof):
    res = l1.run_property(PROP, tier, seed, proof, FAMILIES, MONS, [], nontrivial, RULE + STARVE_RULE + LIST_RULE + loopgen.ENUM_RULE + THREADS_RULE,
                          extra_cases=lambda tier, seed: starve_cases(seed) + loopgen.quit_cases() + loopgen.chain_cases() +
                          [c for c in loopgen.ktimer_cases(seed) if "kreg" in " ".join(c[1])])
    # the intrusive list the task queue (and every other queue of the library) is built from: pointer-level model, differential run
    if proof["driver_ok"]:
        c06list.check(tier, seed, res)
    if not res.impl_violations:
        threads_part(tier, seed, res)
    return res


def search(tier, seed, proof):
    return l1.search_property(PROP, tier, seed, ["tasks"], MONS, [])


def replay(path):
    if "# threads case" in open(path).read():
        return replay_threads(path)
    if path.endswith(".listops") or "C06:list:" in open(path).read():
        return c06list.replay(path)
    return l1.replay(path)
