"""C06: tasks — decided on the L1 machine (theorem Ivy.Props.C06.monitor_accepts) + T-replay correspondence."""
from . import l1
PROP = "C06"
LEANCHECK_MODULES = ["Ivy.L1.Machine", "Ivy.L1.Exec", "Ivy.Mon.C06", "Ivy.L1.ProofsC06", "Ivy.Props.C06"]
FAMILIES = ["tasks", "mix"]
RULE = ("scenario families 'tasks' (self/mutual re-registration chains, stale/fresh epochs, registration from descriptor/timer/event "
        "handlers, free+reinit of task structs inside handlers) and 'mix', rotating over the four poll methods and fault configurations; every "
        "log is replayed through the Lean machine (all records must be predicted) and through Mon.C06. non-trivial = a task was registered from "
        "inside a task handler; distinct by hash of the log")


def nontrivial(log):
    inside = False
    for l in log.splitlines():
        if l.startswith("CB k"):
            inside = True
        elif l.startswith("END"):
            inside = False
        elif inside and l.startswith("API taskRegister"):
            return True
    return False


def run(tier, seed, proof):
    return l1.run_property(PROP, tier, seed, proof, FAMILIES, ["C06"], [], nontrivial, RULE)


def search(tier, seed, proof):
    return l1.search_property(PROP, tier, seed, ["tasks"], ["C06"], [])


replay = l1.replay
