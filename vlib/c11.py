"""C11: iv_wait — T-sched: the real library under the deterministic scheduler (harness/mt_h.c + mt_proc.c virtual children
and signals + mt_wait.c white-box snapshots) runs generated scenarios (1-3 threads owning wait interests, children with
and without interests, state changes at timers/idle points/at fork time, handlers that unregister/re-register, kill
before and after exit, pid reuse, many interleavings); the Lean LTS Ivy.L3.Wait replays every log (`ivyreplay wait`: the
record->action mapping lives in the Lean driver) and must accept every action and predict every handler call, kill()
and snapshot.  An independent oracle states C11 on the implementation's log alone."""
import collections, concurrent.futures, glob, hashlib, os, random, re, subprocess, tempfile
from . import common

PROP = "C11"
LEANCHECK_MODULES = ["Ivy.L3.Wait", "Ivy.L3.WaitSpec", "Ivy.L3.WaitProofs", "Ivy.Props.C11"]
HARNESS = os.path.join(common.BUILD, "mt_wait_h")
SCRATCH = os.path.join(common.BUILD, "scratch-c11")
CORPUS = os.path.join(common.VERIF, "corpus", PROP)
BUDGET_ENDS = ("WAITLIMIT", "CBLIMIT", "STEPLIMIT")


def build():
    return common.build_mt(out=HARNESS, extra_sources=[os.path.join(common.VERIF, "harness", "mt_wait.c")])


# ------------------------------------------------------------------------------------------------ running
def run_impl(lines):
    os.makedirs(SCRATCH, exist_ok=True)
    fd, path = tempfile.mkstemp(suffix=".scn", dir=SCRATCH)
    with os.fdopen(fd, "w") as f:
        f.write("\n".join(lines) + "\n")
    env = dict(os.environ, ASAN_OPTIONS="detect_stack_use_after_return=1:detect_leaks=0")
    try:
        a = subprocess.run([HARNESS, path], stdout=subprocess.PIPE, stderr=subprocess.PIPE, text=True, timeout=75, env=env)
        return a.stdout, a.stderr, a.returncode
    except subprocess.TimeoutExpired as e:
        out = e.stdout.decode() if isinstance(e.stdout, bytes) else (e.stdout or "")
        return out, "TIMEOUT", -9
    finally:
        os.unlink(path)


def run_model(log):
    b = common.run_cmd([common.REPLAY_BIN, "wait"], log)
    div = [l for l in b.stdout.splitlines() if l.startswith(("DIVERGE", "bad-log"))]
    cov = {}
    for l in b.stdout.splitlines():
        if l.startswith("COV "):
            _, k, n = l.split()
            cov[k] = int(n)
    ok = b.returncode == 0 and "SUMMARY" in b.stdout
    return div, cov, ok, b.stderr[-300:]


# ------------------------------------------------------------------------------------------------ oracle
def status_kind(raw):
    low = raw & 0x7f
    if low == 0:
        return "exited"
    if low == 0x7f:
        return "continued" if raw == 0xffff else "stopped"
    return "killed"


def is_terminal(raw):
    return (raw & 0x7f) != 0x7f


def kvs(words):
    d = {}
    for w in words:
        if "=" in w:
            k, v = w.split("=", 1)
            d[k] = v
    return d


class Epoch:
    def __init__(self, w, owner, start, spawned):
        self.w, self.owner, self.start, self.spawned = w, owner, start, spawned
        self.pid = None
        self.inc = None
        self.active = False             # inserted in the set (spawn: at FORK; plain register: at its LOCK waitmu)
        self.raced = False              # plain register: the child's termination was reaped before the insertion
        self.closed = None              # log index of the API waitUnregister record
        self.expected = []              # [(log index of REAP, raw status)] reaped for its child while it was in the set
        self.cbs = []                   # raw statuses handed to the handler
        self.spawn_ret = -1             # log index of the RET of its register_spawn


def oracle(log, rc=0, stderr=""):
    """C11 on the implementation's own log. Returns (signature, message) or None.  Rules:
    per registration of an interest: the statuses handed to its handler are exactly the statuses of ITS child (same pid
    incarnation) reaped while it was registered, in reap order, by the registering thread, nothing after the terminal
    one, nothing after unregister; whatever was reaped must have been delivered when the run goes quiescent (or the
    owner went three times through its loop before unregistering); kill() never reaches a reaped pid; no crash."""
    lines = log.splitlines()
    started = False
    incs = {}            # pid -> live incarnation id
    ninc = 0
    changes = collections.defaultdict(list)   # inc -> statuses
    nreaped = collections.defaultdict(int)
    open_ep = {}         # w -> Epoch
    closed_eps = []
    api = {}             # thread -> (kind, w, epoch)
    waits = collections.defaultdict(list)   # thread -> log indices of WAIT records
    sigchld_delivered = []
    end = None
    fin = False
    for n, l in enumerate(lines):
        ws = l.split()
        if len(ws) < 2 or not ws[0].startswith("T"):
            continue
        try:
            k = int(ws[0][1:])
        except ValueError:
            continue
        r = ws[1]
        if not started:
            if r == "INIT":
                started = True
            else:
                continue
        d = kvs(ws[2:])
        if r in ("FORK", "STRANGER") and "pid" in d:
            pid = int(d["pid"])
            if pid in incs:
                return ("harness:pid-in-use", f"line {n+1}: harness handed out pid {pid} twice")
            incs[pid] = ninc
            if r == "FORK" and k in api and api[k][0] == "spawn":
                ep = api[k][2]
                ep.pid, ep.inc, ep.active = pid, ninc, True
            ninc += 1
        elif r == "CHILD":
            pid = int(d["pid"])
            if pid in incs:
                changes[incs[pid]].append((n, int(d["status"], 16)))
        elif r == "REAP":
            pid, raw = int(d["pid"]), int(d["status"], 16)
            inc = incs.get(pid)
            if inc is None:
                return ("harness:reap-unknown", f"line {n+1}: reap of unknown pid {pid}")
            nreaped[inc] += 1
            for ep in open_ep.values():
                if ep.inc == inc:
                    if ep.active:
                        ep.expected.append((n, raw))
                    elif is_terminal(raw):
                        ep.raced = True
            if is_terminal(raw):
                del incs[pid]
        elif r == "API" and len(ws) > 3 and ws[2] in ("waitRegister", "waitSpawn", "waitUnregister", "waitKill"):
            w = ws[3]
            if ws[2] == "waitSpawn":
                if w in open_ep:
                    return ("harness:double-register", f"line {n+1}: scenario registers {w} twice")
                ep = Epoch(w, k, n, True)
                open_ep[w] = ep
                api[k] = ("spawn", w, ep)
            elif ws[2] == "waitRegister":
                if w in open_ep:
                    return ("harness:double-register", f"line {n+1}: scenario registers {w} twice")
                pid = int(d["pid"])
                if any(e.pid == pid and e.inc == incs.get(pid) for e in open_ep.values()):
                    return ("harness:two-interests-one-pid", f"line {n+1}: scenario registers a second interest for pid {pid} (invalid use)")
                ep = Epoch(w, k, n, False)
                ep.pid, ep.inc = pid, incs.get(pid)
                open_ep[w] = ep
                api[k] = ("register", w, ep)
            elif ws[2] == "waitUnregister":
                ep = open_ep.pop(w, None)
                if ep is not None:
                    ep.closed = n
                    closed_eps.append(ep)
                    if ep.owner != k:
                        return ("harness:unregister-foreign", f"line {n+1}: scenario unregisters {w} from T{k}, owner T{ep.owner}")
                api[k] = ("unregister", w, ep)
            else:
                ep = open_ep.get(w)
                if ep is not None and ep.owner != k:
                    return ("harness:kill-foreign", f"line {n+1}: scenario kills through {w} from T{k} (owner T{ep.owner}): unsynchronised with unregister")
                api[k] = ("kill", w, ep)
        elif r == "LOCK" and ws[2] == "waitmu" and k in api and api[k][0] == "register":
            api[k][2].active = True
        elif r == "RET" and k in api:
            kind, w, ep = api.pop(k)
            if kind == "register" and ep is not None:
                if not ep.active:
                    return ("wait:register-no-lock", f"line {n+1}: iv_wait_interest_register of {w} returned without taking iv_wait_lock")
                if ep.raced:
                    # documented limit of plain registration (iv_wait.3: the race register_spawn closes): not a case
                    return ("skip:register-raced-reap", f"line {n+1}: the termination of pid {ep.pid} was reaped by another thread between the scenario's liveness check and the insertion of {w}")
            if kind == "spawn" and ep is not None and len(ws) > 2 and ws[2] == "-1":
                if ep.pid is not None:
                    return ("wait:spawn-failed-with-child", f"line {n+1}: register_spawn of {w} failed although a child was forked")
                open_ep.pop(w, None)        # fork failed: the interest is not registered
            elif kind == "spawn" and ep is not None and ep.pid is None:
                return ("wait:spawn-no-child", f"line {n+1}: register_spawn of {w} returned without fork")
            elif kind == "spawn" and ep is not None:
                ep.spawn_ret = n
        elif r == "KILL":
            if k in api and api[k][0] == "kill":
                ep = api[k][2]
                pid = int(d["pid"])
                if ep is not None and (pid != ep.pid or incs.get(pid) != ep.inc):
                    return ("wait:kill-after-reap", f"line {n+1}: the kill helper of {api[k][1]} signalled pid {pid}, which after the reaped termination of its child now belongs to another child")
            else:
                return ("wait:stray-kill", f"line {n+1}: kill() outside the kill helper")
        elif r == "KILL-AFTER-REAP":
            return ("wait:kill-after-reap", f"line {n+1}: the kill helper signalled pid {d.get('pid')} whose termination had already been reaped")
        elif r == "CB" and len(ws) > 2 and ws[2].startswith("w") and "status" in d:
            w = ws[2]
            raw = int(d["status"], 16)
            ep = open_ep.get(w)
            if ep is None:
                return ("wait:cb-without-registration", f"line {n+1}: handler of {w} called with {status_kind(raw)} (0x{raw:x}) while it is not registered")
            if k != ep.owner or d.get("owner") != f"T{ep.owner}":
                return ("wait:cb-wrong-thread", f"line {n+1}: handler of {w} ran in T{k}, registered by T{ep.owner}")
            if ep.cbs and is_terminal(ep.cbs[-1]):
                return ("wait:status-after-terminal", f"line {n+1}: {w} got {status_kind(raw)} (0x{raw:x}) after the terminating status 0x{ep.cbs[-1]:x}")
            if int(d.get("pid", -1)) != ep.pid:
                return ("wait:cb-wrong-pid", f"line {n+1}: handler of {w} sees pid {d.get('pid')}, registered for {ep.pid}")
            i = len(ep.cbs)
            if i >= len(ep.expected):
                return ("wait:status-not-reaped", f"line {n+1}: {w} (pid {ep.pid}) got {status_kind(raw)} (0x{raw:x}) which was not reaped for its child while it was registered (duplicate, foreign or invented status)")
            if ep.expected[i][1] != raw:
                return ("wait:status-order", f"line {n+1}: {w} (pid {ep.pid}) got {status_kind(raw)} (0x{raw:x}) but the next reaped status of its child is 0x{ep.expected[i][1]:x} (lost or reordered)")
            ep.cbs.append(raw)
        elif r == "WAIT":
            waits[k].append(n)
        elif r == "FATAL":
            return ("wait:fatal", f"line {n+1}: iv_fatal: {' '.join(ws[2:])}")
        elif r in ("SELF-DEADLOCK", "DESTROY-LOCKED-MUTEX"):
            return ("wait:lock-misuse", f"line {n+1}: {' '.join(ws[1:])}")
        elif r == "QUIESCENT":
            end = "quiescent"
        elif r in ("ALLDONE", "SECTION-DONE"):
            end = end or "normal"
        elif r in BUDGET_ENDS:
            end = "budget"
        elif r == "HARNESS-ERROR":
            return ("harness:error", f"line {n+1}: {l}")
        elif r == "SIGNAL-DELIVER" and ws[2] == "17":
            sigchld_delivered.append(n)
        elif r == "PROC-END":
            # the engine hands a SIGCHLD to one thread; if that thread exits before its next scheduling point the
            # signal is never delivered to the library (engine artifact, reported) — only delivered signals count
            first_unreaped = min([changes[i][nreaped[i]][0] for i in incs.values() if nreaped[i] < len(changes[i])], default=None)
            if end == "quiescent" and (int(d["zombies"]) or int(d["unreaped_statuses"])) and first_unreaped is not None and \
               any(x > first_unreaped and any(ep.active and ep.start < x for ep in open_ep.values()) for x in sigchld_delivered):
                return ("wait:unreaped-at-quiescence", f"line {n+1}: every thread is idle, interests are registered, yet {d['zombies']} zombie(s) / {d['unreaped_statuses']} status(es) were never reaped although SIGCHLD was delivered while an interest that is still registered was already there")
            # a child the library forked itself for an interest (register_spawn): from before the fork to the end the interest exists, so
            # SIGCHLD must be caught from before the child can possibly end; every status change of that child is reaped before the run idles
            if end == "quiescent":
                for ep in open_ep.values():
                    if ep.spawned and ep.active and ep.inc is not None and nreaped[ep.inc] < len(changes[ep.inc]):
                        ln, raw = changes[ep.inc][nreaped[ep.inc]]
                        if ln > getattr(ep, "spawn_ret", -1):
                            continue        # only a change that happened while register_spawn was still in progress (later ones: see above)
                        return ("wait:spawned-child-never-reaped", f"line {ln+1}: the child spawned for {ep.w} (pid {ep.pid}) reported {status_kind(raw)} "
                                f"(0x{raw:x}) but that status was never reaped although {ep.w} stayed registered until every thread was idle "
                                "(no SIGCHLD handler was in place when the child ended)")
        elif r == "FIN":
            fin = True
    if rc != 0 or not fin:
        return ("wait:crash", f"harness exit {rc}, log {'complete' if fin else 'truncated'}: {common.san_line(stderr) or stderr.strip()[-160:]}")
    if end in ("quiescent", "normal"):
        for ep in open_ep.values():
            miss = ep.expected[len(ep.cbs):]
            if miss:
                return ("wait:missed-status", f"{ep.w} (pid {ep.pid}{', spawned' if ep.spawned else ''}) never got {status_kind(miss[0][1])} (0x{miss[0][1]:x}) reaped at line {miss[0][0]+1} although it stayed registered until the run went idle")
    for ep in closed_eps:
        for (rn, raw) in ep.expected[len(ep.cbs):]:
            if rn > ep.closed:
                continue
            loops = len([x for x in waits[ep.owner] if rn < x < ep.closed])
            if loops >= 3:
                return ("wait:missed-status", f"{ep.w} (pid {ep.pid}) never got {status_kind(raw)} (0x{raw:x}) reaped at line {rn+1}; its owner T{ep.owner} entered the kernel wait {loops} times before unregistering at line {ep.closed+1}")
    return None


# ------------------------------------------------------------------------------------------------ generator
def life(rng):
    k = rng.random()
    if k < 0.30:
        return [rng.choice(["exit 0", "exit 3", "killed 9", "killed 15"])]
    if k < 0.55:
        return ["stop", "cont", rng.choice(["exit 1", "killed 9"])]
    if k < 0.70:
        return ["stop", rng.choice(["killed 9", "exit 2"])]
    if k < 0.80:
        return ["stop", "cont", "stop", "cont", "exit 7"]
    if k < 0.90:
        return ["stop", "cont"]
    return []


def spawn_action(rng, w):
    k = rng.random()
    if k < 0.05:
        return f"forkfail ; wspawn w{w} ; wspawn w{w}"      # the first fork() fails, the second call succeeds
    if k < 0.65:
        return f"wspawn w{w}"
    return f"wspawn w{w} " + rng.choice(["exit 0", "exit 5", "killed 9", "stop", "exit 1"])


def gen_case(rng, tier):
    nthreads = rng.choice([1, 1, 2, 2, 2, 3])
    cfg = f"cfg seed={rng.randrange(1, 1000000)} stay={rng.choice([20, 40, 55, 55, 75])} waitlimit=150"
    if rng.random() < 0.5:
        cfg += " pidreuse"
    if rng.random() < 0.3:
        cfg += " termpolicy=ignore"
    lines = [cfg]
    wid = 0
    cslot = 0
    owners = {}           # w -> thread
    own_child = {}        # w -> c<N> of "its" stranger (only this interest ever registers for it)
    children = []         # refs usable in `child <ref> ...`
    per_thread = collections.defaultdict(list)
    plan = []
    for k in range(nthreads):
        nw = rng.choice([1, 2, 2, 3]) if (k == 0 or rng.random() < 0.85) else 0
        for _ in range(nw):
            owners[wid] = k
            per_thread[k].append(wid)
            wid += 1
    for w in owners:
        children.append(f"w{w}")
        if rng.random() < 0.45:
            own_child[w] = f"c{cslot}"
            children.append(f"c{cslot}")
            cslot += 1
    pure = []
    for _ in range(rng.choice([0, 1, 1, 2])):
        pure.append(f"c{cslot}")
        children.append(f"c{cslot}")
        cslot += 1

    def change(ref=None):
        ref = ref or rng.choice(children)
        return f"child {ref} " + rng.choice(["exit 0", "exit 4", "killed 9", "stop", "cont", "stop", "cont", "exit 1"])

    def own_action(k, inside=None):
        ws = per_thread[k]
        if not ws:
            return change()
        w = rng.choice(ws)
        r = rng.random()
        if r < 0.22:
            return f"wkill w{w} {rng.choice([9, 15, 15, 0])}"
        if r < 0.40:
            return f"wunreg w{w}" + (" free" if rng.random() < 0.4 else "")
        if r < 0.55:
            return spawn_action(rng, w)
        if r < 0.65 and w in own_child:
            return f"stranger {own_child[w]} ; wreg w{w} {own_child[w]}"
        if r < 0.72 and pure:
            return f"stranger {rng.choice(pure)}"
        return change()

    for k in range(nthreads):
        lines.append(f"thread {k}")
        for w in per_thread[k]:
            lines.append(f"obj wait w{w}")
        lines.append(f"obj timer t{k}")
        acts = []
        for w in per_thread[k]:
            r = rng.random()
            if w in own_child and r < 0.6:
                acts += [f"stranger {own_child[w]}", f"wreg w{w} {own_child[w]}"]
            elif r < 0.9:
                acts.append(spawn_action(rng, w))
        if k == 0:
            for c in pure:
                if rng.random() < 0.7:
                    acts.append(f"stranger {c}")
        rng.shuffle(acts) if rng.random() < 0.3 and not any(a.startswith("wreg") for a in acts) else None
        acts.append(f"trel t{k} {rng.choice([500000, 1000000, 1000000, 1500000])}")
        lines.append("do " + " ; ".join(acts))
        nsteps = rng.choice([2, 3, 4, 5])
        for n in range(1, nsteps + 1):
            a = []
            for _ in range(rng.choice([1, 1, 2, 3])):
                a.append(own_action(k) if rng.random() < 0.5 else change())
            if n < nsteps:
                a.append(f"trel t{k} {rng.choice([300000, 1000000, 1000000, 2000000])}")
            elif rng.random() < 0.75:
                a += [f"wunreg w{w}" for w in per_thread[k]]     # else: the thread idles on with its interests (run ends QUIESCENT)
            lines.append(f"on t{k} {n} : " + " ; ".join(a))
        for w in per_thread[k]:
            for n in sorted(rng.sample([1, 2, 3, 4, 5], rng.choice([1, 1, 2, 3]))):
                r = rng.random()
                if r < 0.30:
                    a = [f"wunreg w{w}" + (" free" if rng.random() < 0.4 else "")]
                elif r < 0.50:
                    a = [f"wunreg w{w}" + (" free" if rng.random() < 0.4 else ""), spawn_action(rng, w)]
                elif r < 0.60 and w in own_child:
                    a = [f"wunreg w{w}", f"stranger {own_child[w]}", f"wreg w{w} {own_child[w]}"]
                elif r < 0.72 and len(per_thread[k]) > 1:
                    o = rng.choice([x for x in per_thread[k] if x != w])
                    a = [f"wunreg w{o}" + (" free" if rng.random() < 0.3 else "")]
                elif r < 0.85:
                    a = [own_action(k)]
                else:
                    a = [change(), change()]
                lines.append(f"on w{w} {n} : " + " ; ".join(a))
        if rng.random() < 0.3 and per_thread[k]:
            lines.append(f"at {rng.choice([1, 2, 3])} : " + own_action(k))
        lines.append("main")
    # everybody gets a life; what is still alive is ended at the idle points
    for ref in children:
        for i, ch in enumerate(life(rng)):
            plan.append((rng.randrange(0, 3) + i, f"child {ref} {ch}"))
    nidle = rng.choice([1, 2, 3])
    for i in range(nidle):
        a = [p[1] for p in plan if p[0] == i]
        if i == nidle - 1:
            a += [f"child {ref} " + rng.choice(["exit 0", "killed 9"]) for ref in children if rng.random() < 0.8]
        if a:
            lines.append(f"idle {i} : " + " ; ".join(a))
    return lines


def gen_cases(tier, seed):
    from . import sched
    erng = random.Random(seed * 7919 + 1111)
    bases = list(corpus_cases())
    while len(bases) < 40:
        ls = gen_case(erng, "quick")
        if sum(1 for l in ls if l.startswith("thread")) >= 2 and len(ls) <= 30:
            bases.append((f"gen{len(bases)}", ls))
    yield from sched.enum_cases(PROP, HARNESS, bases, tier, os.path.join(common.BUILD, "sched-c11"))
    rng = random.Random(seed * 7919 + 11)
    for i in range(3000 if tier == "quick" else 60000):
        yield (f"rand-{i}", gen_case(rng, tier))


def corpus_cases(variants=0):
    """the permanent regression scenarios (D1 first), each also under `variants` other scheduler seeds"""
    out = []
    for p in sorted(glob.glob(os.path.join(CORPUS, "*.scn"))):
        lines = [l.rstrip("\n") for l in open(p) if l.strip() and not l.startswith("#")]
        name = "corpus-" + os.path.basename(p)[:-4]
        out.append((name, lines))
        for v in range(variants):
            cfg = re.sub(r"seed=\d+", f"seed={v + 1}", lines[0])
            cfg = re.sub(r" stay=\d+", "", cfg) + f" stay={(20, 50, 75)[v % 3]}"
            out.append((f"{name}-s{v + 1}", [cfg] + lines[1:]))
    return out


# ------------------------------------------------------------------------------------------------ one case
class Case:
    pass


def evaluate(name, lines, with_model=True):
    c = Case()
    c.name, c.lines = name, lines
    c.log, c.err, c.rc = run_impl(lines)
    c.viol = oracle(c.log, c.rc, c.err)
    c.div, c.cov, c.model_ok, c.model_err = [], {}, True, ""
    if with_model and (c.viol is None or not c.viol[0].startswith(("harness:", "skip:"))):
        c.div, c.cov, c.model_ok, c.model_err = run_model(c.log)
    return c


def valid_scenario(lines):
    mains = sum(1 for l in lines if l.startswith("main"))
    return bool(lines) and lines[0].startswith("cfg") and mains >= max(1, sum(1 for l in lines if l.startswith("thread ")))


def shrink_violation(lines, sig):
    def pred(ls):
        if not valid_scenario(ls):
            return False
        out, err, rc = run_impl(ls)
        v = oracle(out, rc, err)
        return v is not None and v[0] == sig
    return common.shrink(lines, pred, budget=120)


def shrink_divergence(lines):
    def pred(ls):
        if not valid_scenario(ls):
            return False
        out, err, rc = run_impl(ls)
        v = oracle(out, rc, err)
        if v is not None and v[0].startswith(("harness:", "skip:")):
            return False
        div, _, ok, _ = run_model(out)
        return bool(div) or not ok
    return common.shrink(lines, pred, budget=100)


def nontrivial_log(log):
    """rule: at least one wait handler ran AND the run contains a reap by a thread other than the interest's owner, or the
    reap of a child nobody is interested in, or a kill through the helper, or an unregister from inside a wait handler"""
    if " CB w" not in log:
        return False
    if re.search(r"^T\d+ KILL ", log, re.M):
        return True
    owners = {}
    cur_cb = {}
    pid_w = {}
    inside = False
    for l in log.splitlines():
        ws = l.split()
        if len(ws) < 2:
            continue
        if ws[1] == "CB":
            cur_cb[ws[0]] = ws[2]
        elif ws[1] == "END":
            cur_cb.pop(ws[0], None)
        elif ws[1] == "API" and len(ws) > 3 and ws[2] == "waitUnregister" and cur_cb.get(ws[0], "").startswith("w"):
            return True
        elif ws[1] == "API" and len(ws) > 3 and ws[2] in ("waitRegister", "waitSpawn"):
            owners[ws[3]] = ws[0]
        elif ws[1] == "SNAPW" and len(ws) > 3:
            pid_w[ws[3][4:]] = ws[2]
        elif ws[1] == "REAP":
            w = pid_w.get(ws[2][4:])
            if w is None or owners.get(w) != ws[0]:
                return True
    return False


def process(c, tier, seed, res, agg):
    res.evaluations += 1
    agg["threads"][str(sum(1 for l in c.lines if l.startswith("thread ")))] += 1
    endk = next((k for k in ("QUIESCENT", "WAITLIMIT", "CBLIMIT", "STEPLIMIT", "ALLDONE") if re.search(r"^T\d+ " + k, c.log, re.M)), "SECTION-DONE")
    agg["ends"][endk] += 1
    agg["handler_calls"] += len(re.findall(r"^T\d+ CB w", c.log, re.M))
    agg["reaps"] += len(re.findall(r"^T\d+ REAP ", c.log, re.M))
    for k, n in c.cov.items():
        agg["cov"][k] += n
    if nontrivial_log(c.log):
        res.nontrivial.add(hashlib.sha1("\n".join(c.lines).encode()).hexdigest()[:12])
    if len(res.samples) < 3 and c.name.startswith("rand"):
        res.samples.append({"case": c.name, "scenario_head": c.lines[:7], "log_lines": c.log.count("\n"), "model_actions_by_kind": dict(list(c.cov.items())[:8])})
    if c.viol is not None:
        sig, msg = c.viol
        if sig.startswith("skip:"):
            agg["skipped_raced_register"] += 1
            return
        if sig.startswith("harness:"):
            agg["invalid_scenarios"] += 1
            res.divergences.append((f"generator produced an invalid scenario ({msg})", common.write_case(PROP, c.name, c.lines, tier, seed, ext="scn")))
            return
        if sig not in agg["sigs"]:
            agg["sigs"].add(sig)
            small = shrink_violation(c.lines, sig)
            out, err, rc = run_impl(small)
            v = oracle(out, rc, err) or c.viol
            p = common.write_case(PROP, c.name, small, tier, seed, ext="scn")
            res.impl_violations.append((sig, f"implementation violates C11: {v[1]}", p))
        return
    if c.div or not c.model_ok:
        if agg["ndiv"] < 2:
            small = shrink_divergence(c.lines)
            p = common.write_case(PROP, c.name, small, tier, seed, ext="scn")
            out, err, rc = run_impl(small)
            v3 = oracle(out, rc, err)
            if v3 is not None and not v3[0].startswith(("harness", "skip")):
                # the minimised diverging scenario is valid use and the oracle rejects the implementation on it: a concrete failing input
                res.impl_violations.append((v3[0], f"implementation violates C11: {v3[1]}", p))
            else:
                d2 = run_model(out)[0] or c.div or ["replayer failed: " + c.model_err]
                res.divergences.append((f"model Ivy.L3.Wait does not predict iv_wait.c: {d2[0][:400]}", p))
        agg["ndiv"] += 1


def run(tier, seed, proof):
    res = common.Result()
    res.rule = ("T-sched scenarios: 1-3 threads each owning 0-3 wait interests and a timer; children created by register_spawn (35% change state "
                "before fork() returns), strangers with a later plain register, strangers nobody registers; stop/continue/exit/kill sequences placed at "
                "timers, idle points and wait entries of any thread; handlers that unregister themselves or a sibling (with free), re-spawn or "
                "re-register; kill helper with signals 0/9/15 before and after exit; pid reuse in half the cases; scheduler seed/stay varied per "
                "case. Every log is replayed on the Lean LTS (every action must be enabled; handler calls, kill(), return values, per-interest "
                "queue/flag snapshots under the lock, posted-event sets and the final process table compared) and judged by the log-only oracle. "
                "non-trivial = a wait handler ran and the run has a reap by a non-owner thread, a stranger reap, a kill or an unregister inside a "
                "wait handler; distinct by hash of the scenario")
    res.assumptions = ["virtual kernel (harness/mt_proc.c): wait4(-1, WNOHANG) hands out queued state changes per child in order; a pid is reused only after "
                       "its termination was reaped; fork never fails; SIGCHLD is sent on every state change to an arbitrary thread",
                       "iv_event (C08) and iv_signal (C10) deliver what iv_wait posts/registers; their internals are abstracted to one 'owed' bit in the model",
                       "valid use only: one interest per pid, register for an unreaped child, unregister/kill from the owner thread; a plain "
                       "iv_wait_interest_register that loses the documented race against another thread reaping the child's termination first "
                       "(iv_wait.3) is outside the guarantee: such runs are counted and skipped",
                       "scheduling points are the wrapped calls only (mutex lock/unlock, write, epoll_ctl, kernel waits); no preemption between them"]
    ok, log = build()
    if not ok:
        res.divergences.append(("T-sched harness (mt_h.c + mt_proc.c + mt_wait.c) no longer builds against the tree: " + log[-400:], None))
        return res
    if not proof["driver_ok"]:
        return res
    agg = {"threads": collections.Counter(), "ends": collections.Counter(), "cov": collections.Counter(), "handler_calls": 0, "reaps": 0,
           "sigs": set(), "ndiv": 0, "invalid_scenarios": 0, "skipped_raced_register": 0}
    cases = corpus_cases(24 if tier == "quick" else 120) + list(gen_cases(tier, seed))
    stop = False
    with concurrent.futures.ThreadPoolExecutor(max_workers=common.NCPU) as ex:
        for i in range(0, len(cases), 4 * common.NCPU):      # in batches, so that a broken tree does not cost the whole run
            for c in ex.map(lambda nc: evaluate(*nc), cases[i:i + 4 * common.NCPU]):
                process(c, tier, seed, res, agg)
                if len(res.impl_violations) >= 3 or len(res.divergences) >= 3:
                    stop = True
            if stop:
                break
    res.extra["model_action_coverage"] = dict(agg["cov"])
    res.extra["threads_per_case"] = dict(agg["threads"])
    res.extra["run_endings"] = dict(agg["ends"])
    res.extra["wait_handler_calls"] = agg["handler_calls"]
    res.extra["statuses_reaped"] = agg["reaps"]
    res.extra["cases_with_divergence"] = agg["ndiv"]
    res.extra["corpus_cases"] = [n for n, _ in corpus_cases()]
    res.extra["invalid_scenarios_generated"] = agg["invalid_scenarios"]
    res.extra["skipped_plain_register_raced_with_reap"] = agg["skipped_raced_register"]
    return res


def search(tier, seed, proof):
    res = common.Result()
    ok, _ = build()
    if not ok:
        return res
    for s in range(seed + 700, seed + 703):
        cases = corpus_cases(60) + list(gen_cases("quick", s))
        with concurrent.futures.ThreadPoolExecutor(max_workers=common.NCPU) as ex:
            for i in range(0, len(cases), 4 * common.NCPU):
                for c in ex.map(lambda nc: evaluate(nc[0], nc[1], with_model=False), cases[i:i + 4 * common.NCPU]):
                    res.evaluations += 1
                    if c.viol is not None and not c.viol[0].startswith(("harness:", "skip:")):
                        small = shrink_violation(c.lines, c.viol[0])
                        p = common.write_case(PROP, "search-" + c.name, small, tier, seed, ext="scn")
                        res.impl_violations.append((c.viol[0], "implementation violates C11: " + c.viol[1], p))
                        return res
    return res


def replay(path):
    lines = [l.rstrip("\n") for l in open(path) if l.strip() and not l.startswith("#")]
    ok, log = build()
    if not ok:
        print(log)
        return 2
    common.lean_build(["ivyreplay"])
    out, err, rc = run_impl(lines)
    print("--- implementation log (tail)")
    print(out[-5000:], err[-2500:])
    b = common.run_cmd([common.REPLAY_BIN, "wait"], out)
    print("--- model replay")
    print(b.stdout[-2500:])
    v = oracle(out, rc, err)
    print("--- oracle:", f"{v[0]}: {v[1]}" if v else "ok")
    return 1 if (v or rc != 0) else 0
