"""C02: decided on the L1 machine (theorem Ivy.Props.C02.monitor_accepts) + T-replay correspondence."""
from . import l1, loopgen
PROP = "C02"
LEANCHECK_MODULES = ["Ivy.L1.Machine", "Ivy.L1.Exec", "Ivy.Mon.C02", "Ivy.L1.ProofsC02", "Ivy.Props.C02"]
FAMILIES = ['churn', 'mix']
MONS = ['C02']
SANS = []
RULE = ("scenario families ['churn', 'mix'] (see vlib/loopgen.py) rotating over the four poll methods and the fault configurations; every log is "
        "replayed through the Lean machine (every library record must be predicted) and through the Lean monitor(s) ['C02']; sanitizer "
        "classes counted as violations of this property: []. non-trivial = a handler was cleared or set between two waits while the descriptor stayed registered; distinct by hash of the log")

RETRACT_RULE = ("; plus the ENUMERATED family 'retract' (416 scenarios per run, not sampled: 264 same-iteration retractions, 24 failed-then-real registrations, 128 failed registration followed by release of the object and table compaction): 4 methods x {descriptor, cross-thread iv_event, iv_event_raw} "
                "handler dispatched first x 10 manipulations of another source collected in the same iteration (handlers cleared then unregistered, "
                "freed, recycled, same struct re-registered, bands dropped and re-added) x both arrival orders, and failed registration attempts "
                "followed by a successful registration of the same, not re-initialised, struct")


def nontrivial(log):
    return "API fdSet" in log and log.count("WAIT ") >= 2


def run(tier, seed, proof):
    return l1.run_property(PROP, tier, seed, proof, FAMILIES, MONS, SANS, nontrivial, RULE + RETRACT_RULE + loopgen.ENUM_RULE,
                           extra_cases=lambda tier, seed: loopgen.retract_cases(seed) + loopgen.erronly_cases() + loopgen.quit_cases() + loopgen.alias_cases())


def search(tier, seed, proof):
    return l1.search_property(PROP, tier, seed, FAMILIES[:1], MONS, SANS)


replay = l1.replay
