"""Scenario generator for the loop harness (harness/loop_h.c). Every choice derives from one PRNG.

Families bias the shapes each property is about:
  mix       everything, mostly-valid, all configurations and faults
  storm     (C01) many objects due in the same iteration; handlers unregister + free self/others, re-register recycled structs
  churn     (C02/C03) handlers set/cleared/re-set in and between iterations; readiness arising and vanishing; HUP/ERR
  deadline  (C04) past/zero/equal/far expiries, re-arming from handlers, descriptor wake-ups while a deadline is pending
            (>= 6 iterations so the kernel-timer path engages and disengages), EINTR
  tasks     (C06) self/mutual re-registration chains, stale/fresh epochs, registration from other handlers
  lifecycle (C07) register/unregister of every kind, iv_quit anywhere, failing registrations, repeated iv_main
"""
import random

METHODS = [None, "epoll-timerfd", "epoll-timerfd epoll", "epoll-timerfd epoll ppoll"]
METHOD_NAME = {None: "epoll-timerfd", "epoll-timerfd": "epoll", "epoll-timerfd epoll": "ppoll", "epoll-timerfd epoll ppoll": "poll"}

W_MIX = dict(reg=2, unreg=2, try_=1, set=3, fdio=2, trel=2, treg0=1, tunreg=1, kreg=2, kunreg=1, evreg=1, evunreg=1, evpost=2,
             rawreg=1, rawunreg=1, rawpost=2, clk=1, inval=1, valid=1, free=1, quit=0.15, nop=0.5)
W_STORM = dict(reg=2, unreg=5, try_=0.5, set=1, fdio=1, trel=2, treg0=0.5, tunreg=3, kreg=2, kunreg=3, evreg=1.5, evunreg=3, evpost=2,
               rawreg=1, rawunreg=2, rawpost=1, clk=0.3, inval=0.2, valid=0.2, free=5, quit=0.05, nop=0.2)
W_CHURN = dict(reg=2, unreg=1.5, try_=1.5, set=8, fdio=5, trel=0.5, treg0=0.1, tunreg=0.2, kreg=0.5, kunreg=0.2, evreg=0, evunreg=0, evpost=0,
               rawreg=0, rawunreg=0, rawpost=0, clk=0.3, inval=0.2, valid=0.2, free=0.5, quit=0.05, nop=0.3)
W_DEADLINE = dict(reg=0.5, unreg=0.3, try_=0.1, set=0.5, fdio=1.5, trel=6, treg0=1, tunreg=2, kreg=0.7, kunreg=0.2, evreg=0, evunreg=0, evpost=0,
                  rawreg=0, rawunreg=0, rawpost=0, clk=2, inval=1.5, valid=1.5, free=0.3, quit=0.03, nop=0.3)
W_TASKS = dict(reg=0.3, unreg=0.2, try_=0, set=0.3, fdio=0.5, trel=1, treg0=0.3, tunreg=0.3, kreg=8, kunreg=3, evreg=0.3, evunreg=0.2, evpost=1,
               rawreg=0, rawunreg=0, rawpost=0, clk=0.3, inval=0.2, valid=0.2, free=1.5, quit=0.05, nop=0.3)
W_LIFE = dict(reg=2, unreg=3, try_=3, set=1, fdio=1, trel=2, treg0=0.5, tunreg=3, kreg=2, kunreg=2, evreg=3, evunreg=3, evpost=1,
              rawreg=2, rawunreg=2, rawpost=1, clk=0.3, inval=0.2, valid=0.2, free=1, quit=1.0, nop=0.2)
WEIGHTS = dict(mix=W_MIX, storm=W_STORM, churn=W_CHURN, deadline=W_DEADLINE, tasks=W_TASKS, lifecycle=W_LIFE)


class Gen:
    def __init__(self, rng, family="mix", method=None, events=True, raws=True, faults=True):
        self.r = rng
        self.family = family
        self.method = method
        self.lines = []
        self.nf = self.nt = self.nk = self.ne = self.nr = 0
        self.events = events
        self.raws = raws
        self.faults = faults
        self.bad = set()
        self.w = WEIGHTS[family]

    def pick(self, kind):
        r = self.r
        if kind == "f" and self.nf: return f"f{r.randrange(self.nf)}"
        if kind == "t" and self.nt: return f"t{r.randrange(self.nt)}"
        if kind == "k" and self.nk: return f"k{1 + r.randrange(self.nk)}"
        if kind == "e" and self.ne: return f"e{r.randrange(self.ne)}"
        if kind == "r" and self.nr: return f"r{1 + r.randrange(self.nr)}"
        return None

    def flags(self):
        r = self.r
        if self.family in ("storm", "churn") and r.random() < 0.6:
            return r.choice(["110", "111", "111", "101", "011"])
        return "".join(r.choice("01") for _ in range(3))

    def delta(self):
        r = self.r
        if self.family == "storm":
            return r.choice([0, 0, 1000000, 1000000, 1000000, -5, 2000000])
        if self.family == "deadline" and r.random() < 0.04:
            # decades ahead ("never"): more than 2^31 and 2^32 seconds from now
            return r.choice([3155760000 * 10**9, 2200000000 * 10**9, 4300000000 * 10**9])
        return r.choice([0, 0, 1, 999999, 1000000, 1000001, 5000000, 5000000, 5000000, 70000000, 3000000000, -5, -2000000000,
                         r.randrange(0, 20000000)])

    def action(self, me=None, unguarded=0.03):
        """one action; `me` = the object whose handler this is (biases towards self)"""
        r = self.r
        g = "" if r.random() < unguarded else "?"
        w = dict(self.w)
        if not self.nf:
            for k in ("reg", "unreg", "try_", "set", "fdio"): w[k] = 0
        if not self.nt:
            for k in ("trel", "treg0", "tunreg"): w[k] = 0
        if not self.nk:
            for k in ("kreg", "kunreg"): w[k] = 0
        if not self.ne:
            for k in ("evreg", "evunreg", "evpost"): w[k] = 0
        if not self.nr:
            for k in ("rawreg", "rawunreg", "rawpost"): w[k] = 0
        keys = list(w)
        c = r.choices(keys, [w[k] for k in keys])[0]

        def obj(kind):
            if me and me[0] == kind and r.random() < 0.5:
                return me
            return self.pick(kind)
        f, t, k, e, rw = obj("f"), obj("t"), obj("k"), obj("e"), obj("r")
        if c == "reg":
            a = f"{g}{'try' if f in self.bad else 'reg'} {f} {self.flags()}"
            return a
        if c == "try_": return f"{g}try {f} {self.flags()}"
        if c == "unreg":
            a = f"{g}unreg {f}"
            if self.family == "storm" and r.random() < 0.7:
                a += f" ; free {f}" + (f" ; init {f} ; ?reg {f} {self.flags()}" if r.random() < 0.4 else "")
            return a
        if c == "set": return f"{g}{r.choice(['setin', 'setout', 'seterr'])} {f} {r.choice('01')}"
        if c == "fdio": return r.choice([f"wr {f} 3", f"rd {f}", f"fill {f}", f"unfill {f}", f"closepeer {f}", f"shutpeer {f}", f"rd {f}", f"wr {f} 1"])
        if c == "trel": return f"{g}trel {t} {self.delta()}"
        if c == "treg0": return f"{g}treg {t} 0"
        if c == "tunreg":
            a = f"{g}tunreg {t}"
            if self.family == "storm" and r.random() < 0.7:
                a += f" ; free {t}" + (f" ; init {t} ; ?trel {t} {self.delta()}" if r.random() < 0.4 else "")
            return a
        if c == "kreg": return f"{g}kreg {k}"
        if c == "kunreg":
            a = f"{g}kunreg {k}"
            if self.family in ("storm", "tasks") and r.random() < 0.6:
                a += f" ; free {k}" + (f" ; init {k} ; ?kreg {k}" if r.random() < 0.5 else "")
            return a
        if c == "evreg": return f"?evreg {e}"
        if c == "evunreg":
            a = f"?evunreg {e}"
            if self.family == "storm" and r.random() < 0.7:
                a += f" ; free {e}" + (f" ; init {e} ; ?evreg {e}" if r.random() < 0.4 else "")
            return a
        if c == "evpost": return f"evpost {e}"
        if c == "rawreg": return f"?rawreg {rw}"
        if c == "rawunreg":
            a = f"?rawunreg {rw}"
            if self.family == "storm" and r.random() < 0.7:
                a += f" ; free {rw}" + (f" ; init {rw} ; ?rawreg {rw}" if r.random() < 0.4 else "")
            return a
        if c == "rawpost": return f"rawpost {rw}"
        if c == "clk": return f"clk {r.choice([1, 1000, 1000000, 6000000, 2000000000])}"
        if c == "inval": return "inval"
        if c == "valid": return "valid"
        if c == "free":
            cand = [x for x in (f, t, k, e, rw, me) if x]
            if not cand: return "nop"
            o = r.choice(cand)
            # one-shot objects may be freed (and recycled) from inside their own handler
            return f"free {o} ; init {o}" if r.random() < 0.6 else f"free {o}"
        if c == "quit": return "quit"
        return "nop"

    def build(self):
        r = self.r
        L = self.lines
        fam = self.family
        if self.method is not None:
            L.append(f"exclude {self.method}")
        cfg = [f"waitlimit={r.choice([12, 25, 40])}", f"cblimit={r.choice([200, 400])}"]
        if self.faults:
            if r.random() < 0.25: cfg.append(r.choice(["nopwait2", "pwait2eperm"]))
            if r.random() < 0.2: cfg.append("notimerfd")
            if r.random() < 0.25: cfg.append("noppoll")
            if r.random() < 0.15: cfg.append("noepollcreate1")
            for _ in range(r.choice([0, 0, 1, 2, 3])):
                cfg.append(f"eintr={r.randrange(1, 20)}")
            if r.random() < 0.15: cfg.append("noeventfd2")
            if fam == "lifecycle":
                if r.random() < 0.2: cfg.append("eventfd-emfile")
                elif r.random() < 0.2: cfg.append("noeventfd")
        if fam == "tasks" and r.random() < 0.3:
            # the loop has been running for a long time: the task round counter is about to pass 2^16 / 2^31
            cfg.append(f"epoch0={r.choice([65533, 65534, 65535, 65536, 2147483646])}")
        L.append("cfg " + " ".join(cfg))
        if fam == "storm":
            self.nf, self.nt, self.nk = r.choice([2, 3, 4, 6]), r.choice([1, 2, 4]), r.choice([1, 2, 3])
            self.ne = r.choice([0, 1, 2]) if self.events else 0
            self.nr = r.choice([0, 1]) if self.raws else 0
        elif fam == "churn":
            self.nf, self.nt, self.nk, self.ne, self.nr = r.choice([1, 2, 3, 5]), r.choice([0, 1]), r.choice([0, 1]), 0, 0
        elif fam == "deadline":
            self.nf, self.nt, self.nk, self.ne, self.nr = r.choice([0, 1, 2]), r.choice([1, 2, 4, 6, 9, 14]), r.choice([0, 1]), 0, 0
        elif fam == "tasks":
            self.nf, self.nt, self.nk = r.choice([0, 1]), r.choice([0, 1, 2]), r.choice([1, 2, 3, 4])
            self.ne, self.nr = (r.choice([0, 1]) if self.events else 0), 0
        else:
            self.nf = r.choice([0, 1, 2, 3, 5])
            self.nt = r.choice([0, 1, 2, 4, 6])
            self.nk = r.choice([0, 1, 2, 3])
            self.ne = r.choice([0, 0, 1, 2, 3]) if self.events else 0
            self.nr = r.choice([0, 0, 1, 2]) if self.raws else 0
        for i in range(self.nf):
            kind = r.choice(['sock', 'sock', 'sock', 'pipe-r', 'pipe-w', 'bad' if (r.random() < 0.3 and fam in ("mix", "lifecycle")) else 'sock'])
            if fam == "storm": kind = "sock"
            if kind == 'bad': self.bad.add(f"f{i}")
            L.append(f"obj fd f{i} {kind}")
        for i in range(self.nt): L.append(f"obj timer t{i}")
        for i in range(1, self.nk + 1): L.append(f"obj task k{i}")
        for i in range(self.ne): L.append(f"obj event e{i}")
        for i in range(1, self.nr + 1): L.append(f"obj raw r{i}")
        # reactions
        for kind, n, bands in (("f", self.nf, ["in", "out", "err"]), ("t", self.nt, [None]), ("k", self.nk, [None]),
                               ("e", self.ne, [None]), ("r", self.nr, [None])):
            for i in range(n):
                oid = i + 1 if kind in "kr" else i
                me = f"{kind}{oid}"
                for b in bands:
                    who = me + (f".{b}" if b else "")
                    nths = r.sample([1, 2, 3, 4, "*"], r.choice([0, 1, 2, 3] if fam != "storm" else [1, 2, 3]))
                    for nth in nths:
                        acts = [self.action(me=me) for _ in range(r.choice([1, 1, 2, 3, 4]))]
                        if b == "out" and nth == "*" and r.random() < 0.8:
                            acts.append(f"?setout {me} 0")
                        if b == "in" and r.random() < 0.6:
                            acts.insert(0, f"rd {me}")
                        L.append(f"on {who} {nth} : " + " ; ".join(acts))
        # stimuli
        dense = fam in ("deadline", "churn")
        for w in range(0, 30):
            if r.random() < (0.8 if dense else 0.45):
                acts = []
                for _ in range(r.choice([1, 1, 2, 3])):
                    k = r.random()
                    f, e, rw = self.pick("f"), self.pick("e"), self.pick("r")
                    if f and k < 0.5: acts.append(r.choice([f"wr {f} 2", f"wr {f} 2", f"rd {f}", f"closepeer {f}", f"shutpeer {f}", f"fill {f}", f"unfill {f}"]))
                    elif e and k < 0.7: acts.append(f"xpost {e}")
                    elif rw and k < 0.85: acts.append(f"xrawpost {rw}")
                    else: acts.append(f"clk {r.choice([1, 500000, 5000000, 100000000])}")
                L.append(f"at {w} : " + " ; ".join(acts))
        # setup
        acts = []
        if fam == "storm":
            for i in range(self.nf): acts += [f"reg f{i} {self.flags()}", f"wr f{i} 2"]
            for i in range(self.nt): acts.append(f"trel t{i} {r.choice([0, 1000000, 1000000])}")
            for i in range(1, self.nk + 1): acts.append(f"kreg k{i}")
            for i in range(self.ne): acts += [f"evreg e{i}", f"evpost e{i}"]
            for i in range(1, self.nr + 1): acts += [f"rawreg r{i}", f"rawpost r{i}"]
        if fam == "deadline":
            far = r.choice([50000000, 200000000, 1000000000])
            if self.nt >= 6 and r.random() < 0.7:
                # a populated heap with distinct deadlines, then removals of interior elements: the earliest
                # remaining deadline must still be honoured
                for i in range(self.nt): acts.append(f"trel t{i} {r.randrange(1, 40) * 1000000}")
                for _ in range(r.choice([1, 2, 3])): acts.append(f"tunreg t{r.randrange(self.nt)}")
            else:
                for i in range(self.nt): acts.append(f"trel t{i} {far if r.random() < 0.6 else self.delta()}")
            for i in range(self.nf): acts.append(f"reg f{i} 100")
            for i in range(self.nf):
                L.append(f"on f{i}.in * : rd f{i}")
                # once the kernel-timer path has engaged (same deadline seen on >= 5 waits), move the deadline
                # earlier / later / away from a descriptor handler: the kernel timer must be cleared and re-armed
                if self.nt and r.random() < 0.7:
                    k = r.choice([6, 7, 8, 9])
                    t = r.randrange(self.nt)
                    L.append(f"on f{i}.in {k} : " + r.choice([f"?tunreg t{t} ; trel t{t} {r.choice([100000, 1000000, 3000000])}",
                                                              f"?trel t{(t + 1) % max(self.nt, 1)} {r.choice([100000, 2000000])}",
                                                              f"?tunreg t{t}", f"?tunreg t{t} ; trel t{t} 5000000000"]))
        if fam == "churn":
            for i in range(self.nf): acts.append(f"reg f{i} {self.flags()}")
        if fam == "tasks":
            for i in range(1, self.nk + 1): acts.append(f"kreg k{i}")
        acts += [self.action(unguarded=0.02) for _ in range(r.choice([2, 4, 8, 12]))]
        acts = [a for a in acts if "quit" not in a]
        if fam == "deadline" and self.nf and self.nt and r.random() < 0.5:
            # kernel-timer shape: the default (timerfd) method, a far deadline, and a descriptor wake-up on every one of the
            # first waits, so that the same deadline is seen on >= 5 consecutive waits and the kernel timer engages
            L[:] = [l for l in L if not l.startswith("exclude") and not l.startswith("at ")]
            L[:] = [(" ".join(t for t in l.split() if t != "notimerfd") if l.startswith("cfg") else l) for l in L]
            for w in range(0, r.choice([7, 10, 14])):
                L.append(f"at {w} : wr f0 1")
            acts = [f"reg f0 100"] + [f"trel t{i} {r.choice([50000000, 200000000, 1000000000]) + i}" for i in range(self.nt)] + \
                   [a for a in acts if a.startswith(("?", "clk", "inval", "valid"))][:3]
        L.append("do " + " ; ".join(acts))
        L.append("main")
        if r.random() < (0.7 if fam == "lifecycle" else 0.4):
            acts = [self.action(unguarded=0.0) for _ in range(r.choice([1, 3, 6]))]
            L.append("do " + " ; ".join(a for a in acts if "quit" not in a))
            L.append("main")
        # byte pattern the library's malloc()ed blocks come back filled with (harness: __wrap_malloc): a field the library forgets to
        # initialise then reads as all-ones / 1 / 0xa5.. instead of zero. Derived from the finished scenario, not from the PRNG stream.
        pat = [255, None, 1, 165][(len(L) * 7919 + sum(len(x) for x in L)) % 4]
        if pat is not None:
            ci = next(i for i, l in enumerate(L) if l.startswith("cfg "))
            L[ci] += f" fill={pat}"
        return L


def cycles_scenario(rng, method):
    """(C18) several init-use-deinit cycles: every round registers things, runs the loop until a guard timer quits it,
    unregisters everything, lets the loop flush, and tears the loop down; ledger lines are compared across rounds"""
    g = Gen(rng, "lifecycle", method, faults=False)
    L = []
    if method is not None:
        L.append(f"exclude {method}")
    L.append(f"cfg waitlimit=60 cblimit=400" + (" notimerfd" if rng.random() < 0.2 else "") + (" noeventfd2" if rng.random() < 0.2 else ""))
    g.nf, g.nt, g.nk, g.ne, g.nr = rng.choice([1, 2, 3]), rng.choice([1, 2, 140 if rng.random() < 0.3 else 3]), rng.choice([0, 1, 2]), rng.choice([0, 1, 2]), rng.choice([0, 1])
    nt_real = min(g.nt, 60)
    for i in range(g.nf): L.append(f"obj fd f{i} sock")
    for i in range(nt_real): L.append(f"obj timer t{i}")
    L.append("obj timer t63")
    for i in range(1, g.nk + 1): L.append(f"obj task k{i}")
    for i in range(g.ne): L.append(f"obj event e{i}")
    for i in range(1, g.nr + 1): L.append(f"obj raw r{i}")
    g.nt = nt_real
    L.append("on t63 * : quit")
    for i in range(g.nf):
        L.append(f"on f{i}.in * : rd f{i}")
        L.append(f"on f{i}.out * : ?setout f{i} 0")
    for w in range(0, 12):
        if rng.random() < 0.4 and g.nf:
            L.append(f"at {w} : wr f{rng.randrange(g.nf)} 2")
    cleanup = ([f"?unreg f{i}" for i in range(g.nf)] + [f"?tunreg t{i}" for i in range(g.nt)] + ["?tunreg t63"] +
               [f"?kunreg k{i}" for i in range(1, g.nk + 1)] + [f"?evunreg e{i}" for i in range(g.ne)] +
               [f"?rawunreg r{i}" for i in range(1, g.nr + 1)])
    burst = rng.choice([0, 130, 300, 700])
    if burst:
        cleanup.append(f"tburstoff 64 {64 + burst}")
    for rnd in range(rng.choice([3, 4, 5])):
        acts = [f"trel t63 {rng.choice([20000000, 60000000])}"]
        if burst and rnd != 1:
            acts.append(f"tburst 64 {64 + burst}")
        for i in range(g.nf): acts.append(f"?reg f{i} {rng.choice(['100', '110', '111', '010'])}")
        for i in range(g.nt): acts.append(f"?trel t{i} {rng.choice([1000000, 5000000, 900000000, 3000000000])}")
        for i in range(1, g.nk + 1): acts.append(f"?kreg k{i}")
        for i in range(g.ne): acts += [f"?evreg e{i}", f"evpost e{i}"]
        for i in range(1, g.nr + 1): acts += [f"?rawreg r{i}", f"rawpost r{i}"]
        L.append("do " + " ; ".join(acts))
        L.append("main")
        keep = burst and rng.random() < 0.4     # tear the loop down with the burst of timers still registered
        # (the flush run then ends through the guard timer's iv_quit, as the loop still has the burst registered)
        L.append("do " + " ; ".join([c for c in cleanup if not (keep and c.startswith("tburstoff"))] + (["trel t63 1000"] if keep else [])))
        L.append("main")
        L.append("cycle")
    return L


def scenario(seed, family="mix", method="rotate", **kw):
    if family == "cycles":
        rng = random.Random(seed * 1000003 + 77)
        return cycles_scenario(rng, METHODS[seed % 4] if method == "rotate" else method)
    rng = random.Random(seed * 1000003 + sorted(WEIGHTS).index(family))
    m = METHODS[seed % 4] if method == "rotate" else method
    return Gen(rng, family, m, **kw).build()


# ---------------------------------------------------------------- enumerated family: same-iteration retraction
def _manips(v, F2):
    """what the handler that runs first does to another object `v` that is due in the same iteration"""
    clear = f"?setin {v} 0 ; ?setout {v} 0 ; ?seterr {v} 0"
    return [
        f"{clear} ; ?unreg {v}",                                   # handlers cleared first, then unregistered
        f"{clear} ; ?unreg {v} ; free {v}",
        f"{clear} ; ?unreg {v} ; free {v} ; init {v} ; ?reg {v} {F2}",
        f"?unreg {v} ; ?reg {v} {F2}",                             # same struct re-registered at once
        f"?unreg {v} ; free {v} ; init {v} ; ?reg {v} {F2}",
        f"?unreg {v} ; free {v}",
        f"?unreg {v}",
        f"{clear} ; ?setin {v} 1",                                 # all bands dropped, one re-added
        f"?setin {v} 0 ; ?setin {v} 1",
        f"{clear}",
    ]


def retract_cases(seed):
    """(C01/C02/C03) Enumerated, not sampled: several sources become due in ONE iteration (descriptors, a cross-thread iv_event,
    an iv_event_raw); the handler that is dispatched first manipulates another source that was already collected for dispatch
    (clear handlers / unregister / free / recycle / re-register the same struct), in both arrival orders, on all four methods.
    Plus: a registration attempt that fails, after which the same struct (not re-initialised) is registered successfully."""
    rng = random.Random(seed * 7907 + 3)
    cases = []
    for mi, m in enumerate(METHODS):
        for first in ("fd", "event", "raw"):
            for k in range(10):
                for order in (0, 1):
                    # order 0: nothing is ready before the stimuli, so the kernel reports in stimulus order
                    F1 = rng.choice(["100", "101"]) if order == 0 else rng.choice(["100", "110", "101", "111"])
                    F2 = rng.choice(["100", "110", "010", "111"])
                    nf = rng.choice([2, 3, 4])
                    L = ([f"exclude {m}"] if m else []) + ["cfg waitlimit=12 cblimit=200"]
                    L += [f"obj fd f{i} sock" for i in range(nf)] + ["obj event e0", "obj raw r1", "obj timer t0"]
                    for i in range(nf):
                        L.append(f"on f{i}.in * : rd f{i}")
                        L.append(f"on f{i}.out 3 : ?setout f{i} 0")
                    wr = [f"wr f{i} 2" for i in range(nf)]
                    if first == "fd":
                        # whichever descriptor handler runs first hits a not-yet-dispatched neighbour
                        for i in range(nf):
                            L.append(f"on f{i}.in 1 : " + _manips(f"f{(i + 1) % nf}", F2)[k])
                        stim = wr if order == 0 else wr[::-1]
                    elif first == "event":
                        L.append("on e0 1 : " + _manips(f"f{rng.randrange(nf)}", F2)[k])
                        stim = (["xpost e0"] + wr) if order == 0 else (wr + ["xpost e0"])
                    else:
                        L.append("on r1 1 : " + _manips(f"f{rng.randrange(nf)}", F2)[k])
                        stim = (["xrawpost r1"] + wr) if order == 0 else (wr + ["xrawpost r1"])
                    L.append("at 0 : " + " ; ".join(stim))
                    L.append("at 2 : " + " ; ".join(wr))
                    L.append("on t0 1 : quit")
                    L.append("do " + " ; ".join([f"reg f{i} {F1}" for i in range(nf)] + ["evreg e0", "rawreg r1", "trel t0 50000000"]))
                    L.append("main")
                    cases.append((f"retract-{METHOD_NAME[m]}-{first}-m{k}-o{order}", L))
        # failed registration, then the same struct registered for real (with the same / other bands)
        for k, (Fa, Fb) in enumerate([("100", "100"), ("110", "110"), ("111", "111"), ("000", "000"), ("100", "010"), ("010", "110")]):
            L = ([f"exclude {m}"] if m else []) + ["cfg waitlimit=10 cblimit=100", "obj fd f0 sock", "obj fd f1 bad", "obj timer t0",
                 "on f1.in * : rd f1", "on f1.out 2 : ?setout f1 0", "on f0.in * : rd f0", "on t0 1 : quit",
                 "at 0 : wr f1 2", "at 2 : wr f1 1 ; wr f0 1",
                 f"do reg f0 100 ; try f1 {Fa} ; heal f1 ; reg f1 {Fb} ; trel t0 30000000", "main"]
            cases.append((f"reregister-{METHOD_NAME[m]}-{k}", L))
        # a descriptor collected as ready loses ALL its handlers to the handler that runs first, which also consumes its readiness; later
        # (another iteration) its handlers are set again while only another band holds: no handler may run for the stale band
        for vi, (F1, later, cond) in enumerate([("100", "setin f1 1 ; setout f1 1", ""), ("110", "setin f1 1 ; setout f1 1", ""),
                                                ("100", "setout f1 1", ""), ("101", "setin f1 1 ; seterr f1 1", "fill f1 ; "),
                                                ("100", "setin f1 1", "")]):
            for order in (0, 1):
                stim = ["wr f0 1", "wr f1 1"][::-1 if order else 1]
                L = ([f"exclude {m}"] if m else []) + ["cfg waitlimit=12 cblimit=100", "obj fd f0 sock", "obj fd f1 sock", "obj timer t0", "obj timer t9",
                     "on f0.in 1 : rd f0 ; ?setin f1 0 ; ?setout f1 0 ; ?seterr f1 0 ; rd f1", "on f0.in 2 : rd f0", "on f1.in * : rd f1",
                     "on f1.out * : ?setout f1 0", f"on t0 1 : {cond}{later}", "on t9 1 : ?unreg f0 ; ?unreg f1",
                     "at 0 : " + " ; ".join(stim), f"do reg f0 100 ; reg f1 {F1} ; trel t0 5000000 ; trel t9 30000000", "main"]
                cases.append((f"phantom-{METHOD_NAME[m]}-{vi}-o{order}", L))
        # iv_fd_register_try on a HEALTHY descriptor while the registration probe (poll/ppoll methods) is interrupted by a signal: it must
        # succeed all the same, on every method
        for k in (1, 2):
            for F1 in ("100", "010", "001"):
                L = ([f"exclude {m}"] if m else []) + [f"cfg waitlimit=10 cblimit=100 probe-eintr={k}", "obj fd f0 sock", "obj fd f1 sock", "obj timer t0",
                     "on f0.in * : rd f0", "on f1.in * : rd f1", "on f0.out 2 : ?setout f0 0", "on t0 1 : ?unreg f0 ; ?unreg f1",
                     "at 0 : wr f0 1 ; wr f1 1", f"do try f0 {F1} ; try f1 100 ; trel t0 30000000", "main"]
                cases.append((f"tryeintr-{METHOD_NAME[m]}-{k}-{F1}", L))
        # failed registration attempt, after which the caller releases the object (free) or the descriptor number comes to life for
        # ANOTHER object; then earlier-registered descriptors go away (table compaction), others are added, and events arrive on the number:
        # the library must have kept nothing of the failed attempt (no table slot, no pointer to the caller's object, no kernel interest)
        for k, after in enumerate(["free f1", "free f1 ; heal f1", "heal f1", "nop"]):
            for j, tail in enumerate(["unreg f0", "unreg f0 ; unreg f2", "setin f0 0 ; setin f2 0", "unreg f2 ; reg f3 100 ; unreg f0"]):
                L = ([f"exclude {m}"] if m else []) + ["cfg waitlimit=10 cblimit=100", "obj fd f0 sock", "obj fd f1 bad", "obj fd f2 sock", "obj fd f3 sock",
                     "obj timer t0", "obj timer t1", "on f0.in * : rd f0", "on f2.in * : rd f2", "on f3.in * : rd f3", f"on t0 1 : {tail}",
                     "on t1 1 : ?unreg f0 ; ?unreg f2 ; ?unreg f3", "at 0 : wr f0 1 ; wr f2 1", "at 2 : wr f2 1 ; wr f3 1",
                     f"do reg f0 100 ; reg f2 100 ; try f1 110 ; {after} ; trel t0 3000000 ; trel t1 30000000", "main"]
                cases.append((f"tryfail-{METHOD_NAME[m]}-{k}-{j}", L))
                # the same with the table compaction done right away (before the loop ever polls)
                L2 = [l for l in L if not l.startswith("on t0 ")]
                L2[-2] = f"do reg f0 100 ; reg f2 100 ; try f1 110 ; {after} ; {tail} ; trel t1 30000000"
                cases.append((f"tryfail-{METHOD_NAME[m]}-{k}-{j}-now", L2))
    return cases


# ---------------------------------------------------------------- enumerated family: the kernel-timer (timerfd) state machine
def ktimer_cases(seed, methods=METHODS):
    """(C04/C07/C15) Enumerated: a far timer L is pending while a descriptor wakes the loop k times in a row (k = 2..8: below, at and
    above the threshold at which the epoll-timerfd method arms its timer descriptor instead of passing a timeout); then a handler changes
    the set of deadlines (earlier timer E added / later timer added / L unregistered / L re-registered with the same or another expiry /
    nothing); then m more wake-ups; all timers must still fire on time on every method."""
    rng = random.Random(seed * 9001 + 4)
    cases = []
    changes = ["trel t1 2000000", "trel t1 900000000", "?tunreg t0", "?tunreg t0 ; trel t0 60000000", "?tunreg t0 ; trel t0 8000000",
               "trel t1 2000000 ; trel t2 70000000", "nop"]
    for m in methods:
        for k in (2, 4, 5, 6, 8):
            for ci, ch in enumerate(changes):
                more = rng.choice([0, 2, 6])
                L = ([f"exclude {m}"] if m else []) + ["cfg waitlimit=40 cblimit=300", "obj fd f0 sock", "obj timer t0", "obj timer t1", "obj timer t2",
                     "obj timer t9", "on f0.in * : rd f0", f"on f0.in {k} : {ch}", "on t9 1 : ?unreg f0 ; ?tunreg t0 ; ?tunreg t1 ; ?tunreg t2"]
                for w in range(k + more):
                    L.append(f"at {w} : wr f0 1")
                L += ["do reg f0 100 ; trel t0 60000000 ; trel t9 2000000000", "main"]
                cases.append((f"ktimer-{METHOD_NAME[m]}-k{k}-c{ci}", L))
        # the armed kernel timer expires while a handler is still running (the clock moves inside the handler), and the next poll finds,
        # besides the expired timer descriptor: a cross-thread event posted afterwards (batch order: timer, kick) / a task that keeps
        # itself pending (zero-deadline poll) / a descriptor; a later timer t2 must still fire on time afterwards
        for k in (5, 6, 8):
            for vi, (hact, stim, extra) in enumerate([
                    ("clk 70000000", "xpost e0", []),
                    ("clk 70000000 ; kreg k1", "nop", ["on k1 1 : ?kreg k1", "on k1 2 : ?kreg k1"]),
                    ("clk 70000000 ; kreg k1", "xpost e0", ["on k1 1 : ?kreg k1"]),
                    ("clk 70000000", "wr f0 1 ; xpost e0", []),
                    ("clk 59999000", "xpost e0", []),
                    # the handler looks at iv_now first (the cached clock is valid from then on) and only then runs across the expiry: the
                    # timer must not be run against a fresher clock than the one iv_now shows inside its handler
                    ("valid ; clk 70000000", "nop", []),
                    ("valid ; clk 70000000", "xpost e0", []),
                    ("valid ; clk 60000000 ; kreg k1", "nop", ["on k1 1 : nop"]),
                    # a task keeps re-registering itself (zero-deadline polls) over a stretch of time that contains the expiry the kernel
                    # timer is armed for, then stops; the later timer t2 must still fire on time
                    ("kreg k1", "nop", ["on k1 1 : clk 30000000 ; ?kreg k1", "on k1 2 : clk 30000000 ; ?kreg k1", "on k1 3 : clk 5000000 ; ?kreg k1", "on k1 4 : nop"]),
                    ("kreg k1", "xpost e0", ["on k1 1 : clk 61000000 ; ?kreg k1", "on k1 2 : ?kreg k1", "on k1 3 : nop"])]):
                L = ([f"exclude {m}"] if m else []) + ["cfg waitlimit=40 cblimit=300", "obj fd f0 sock", "obj timer t0", "obj timer t2", "obj timer t9",
                     "obj event e0", "obj task k1", "on f0.in * : rd f0", f"on f0.in {k} : {hact}", "on t9 1 : ?unreg f0 ; ?evunreg e0 ; ?tunreg t2"] + extra
                for w in range(k):
                    L.append(f"at {w} : wr f0 1")
                L.append(f"at {k} : {stim}")
                L += ["do reg f0 100 ; evreg e0 ; trel t0 60000000 ; trel t2 90000000 ; trel t9 2000000000", "main"]
                cases.append((f"ktimer-{METHOD_NAME[m]}-k{k}-late{vi}", L))
        # the armed kernel timer outlives its reason: the pending timer is unregistered (no timer left) after k wake-ups, the loop then
        # idles until the stale kernel timer goes off with an empty timer set, and only afterwards a handler registers a new timer
        # (sooner / later than the spent expiry); it must fire on time
        for k in (4, 5, 6, 8):
            for vi, (d, idle) in enumerate([(5000000, 1), (90000000, 1), (5000000, 3), (1000, 1)]):
                L = ([f"exclude {m}"] if m else []) + ["cfg waitlimit=40 cblimit=300", "obj fd f0 sock", "obj fd f1 sock", "obj timer t0", "obj timer t1",
                     "on f0.in * : rd f0", f"on f0.in {k} : rd f0 ; ?tunreg t0", f"on f0.in {k + 1} : rd f0 ; trel t1 {d}", "on t1 1 : ?unreg f0 ; ?unreg f1"]
                for w in range(k):
                    L.append(f"at {w} : wr f0 1")
                L.append(f"at {k + idle} : wr f0 1")
                L += ["do reg f0 100 ; reg f1 100 ; trel t0 60000000", "main"]
                cases.append((f"ktimer-{METHOD_NAME[m]}-k{k}-spent{vi}", L))
        # a timer decades ahead (beyond 2^31 / 2^32 seconds) registered next to a near one, before and after it: only the near one fires, the
        # far one neither fires early nor disturbs the order
        for vi, far in enumerate([3155760000 * 10**9, 2200000000 * 10**9, 4300000000 * 10**9]):
            for order in (0, 1):
                regs = [f"trel t0 {far}", "trel t1 5000000"]
                L = ([f"exclude {m}"] if m else []) + ["cfg waitlimit=12 cblimit=60", "obj timer t0", "obj timer t1", "obj timer t2",
                     "on t1 1 : trel t2 3000000", "on t2 1 : tunreg t0", "do " + " ; ".join(regs[::-1] if order else regs), "main"]
                cases.append((f"ktimer-{METHOD_NAME[m]}-far{vi}-{order}", L))
        # several timers come due in the SAME iteration; the handler that runs first unregisters another one of the batch and (or) registers
        # it again, later / earlier / with the same expiry: a cancelled timer does not fire, a re-armed one fires once at its new time
        for vi, manip in enumerate(["tunreg t1", "tunreg t1 ; trel t1 200000000", "tunreg t1 ; trel t1 0", "tunreg t1 ; trel t1 1000",
                                    "tunreg t1 ; tunreg t2 ; trel t2 70000000 ; trel t1 90000000", "tunreg t2 ; trel t2 5000000 ; tunreg t1"]):
            L = ([f"exclude {m}"] if m else []) + ["cfg waitlimit=14 cblimit=80", "obj timer t0", "obj timer t1", "obj timer t2", "obj timer t9",
                 f"on t0 1 : {manip}", "on t9 1 : ?tunreg t0 ; ?tunreg t1 ; ?tunreg t2",
                 "do trel t0 1000000 ; trel t1 1000001 ; trel t2 1000500 ; trel t9 900000000", "main"]
            cases.append((f"ktimer-{METHOD_NAME[m]}-samebatch{vi}", L))
        # deadlines whose distance from `now` is not a whole number of milliseconds, with no other activity: millisecond-granular waits
        # (poll, epoll_wait fallback) must round up, so that one wake-up suffices
        for vi, d in enumerate([20900000, 1000001, 999999, 1, 2000500, 1999999999]):
            for cfg in ("", " nopwait2"):
                L = ([f"exclude {m}"] if m else []) + [f"cfg waitlimit=30 cblimit=60{cfg}", "obj timer t0", "obj timer t1", f"on t0 1 : trel t1 {d}",
                                                      f"do trel t0 {d}", "main"]
                cases.append((f"ktimer-{METHOD_NAME[m]}-subms{vi}{cfg.strip()}", L))
    return cases


# ---------------------------------------------------------------- enumerated family: iv_quit outside iv_main
def quit_cases():
    """(C07) Enumerated: iv_quit() called while the thread is NOT inside iv_main (before the first run, between two runs, twice) must
    have no effect on the next iv_main, which returns only on an iv_quit made since it was entered or when nothing is registered; with a
    not-yet-due timer and an idle descriptor registered; all four methods."""
    cases = []
    for m in METHODS:
        pre = ([f"exclude {m}"] if m else []) + ["cfg waitlimit=12 cblimit=60", "obj timer t0", "obj timer t1", "obj fd f0 sock", "on f0.in * : rd f0"]
        variants = {
            "before-first": ["do trel t0 5000000 ; reg f0 100 ; quit", "on t0 1 : ?unreg f0", "main"],
            "twice-before-first": ["do quit ; trel t0 5000000 ; quit", "main"],
            "between-runs": ["on t0 1 : quit", "do trel t0 1000 ; trel t1 9000000 ; reg f0 100", "main", "do quit", "on t1 1 : ?unreg f0", "main"],
            "between-runs-then-inside": ["on t0 1 : quit", "on t1 1 : quit", "do trel t0 1000 ; trel t1 9000000 ; reg f0 100", "main", "do quit ; wr f0 1", "main",
                                         "do unreg f0", "main"],
        }
        for name, body in variants.items():
            cases.append((f"quit-{METHOD_NAME[m]}-{name}", pre + body))
        # iv_quit() from a handler while other work of the SAME iteration / round is still undelivered, then iv_main() re-entered:
        # nothing that was due may be lost across the return (descriptors still ready must be reported again, tasks stay queued)
        x = ([f"exclude {m}"] if m else []) + ["cfg waitlimit=14 cblimit=80", "obj fd f0 sock", "obj fd f1 sock", "obj fd f2 sock", "obj timer t9",
             "obj task k1", "obj task k2", "obj task k3", "on t9 1 : ?unreg f0 ; ?unreg f1 ; ?unreg f2 ; ?kunreg k1 ; ?kunreg k2 ; ?kunreg k3"]
        for q in ("0", "1", "2", "012"):
            body = [f"on f{i}.in * : rd f{i}" for i in range(3) if str(i) not in q] + [f"on f{i}.in 1 : quit" for i in range(3) if str(i) in q] + \
                   [f"on f{i}.in 2 : rd f{i}" for i in range(3) if str(i) in q] + \
                   ["do reg f0 100 ; reg f1 100 ; reg f2 100 ; wr f0 1 ; wr f1 1 ; wr f2 1 ; trel t9 50000000", "main", "main", "do wr f0 1 ; wr f1 1 ; wr f2 1", "main", "main"]
            cases.append((f"quit-{METHOD_NAME[m]}-batch-fd-{q}", x + body))
            # the same, but between the two runs the application consumes the input itself: whatever was collected but not dispatched in
            # the first run must not be dispatched in the second (the condition no longer holds at that run's poll)
            body2 = body[:-6] + ["do reg f0 100 ; reg f1 100 ; reg f2 100 ; wr f0 1 ; wr f1 1 ; wr f2 1 ; trel t9 50000000", "main",
                                 "do rd f0 ; rd f1 ; rd f2", "main", "main"]
            cases.append((f"quit-{METHOD_NAME[m]}-batch-fd-{q}-drained", x + body2))
        for vi, hs in enumerate([
                ["on k1 1 : kreg k1", "on k2 1 : quit"],
                ["on k1 1 : kreg k1", "on k2 1 : quit ; kreg k2"],
                ["on k1 1 : quit ; kreg k1"],
                ["on k1 1 : kreg k1 ; kreg k3", "on k2 1 : kreg k1 ; quit"],
                ["on k1 1 : kreg k1", "on k2 1 : kreg k2", "on k3 1 : quit"],
                ["on k2 1 : quit ; kunreg k3 ; kreg k3"]]):
            cases.append((f"quit-{METHOD_NAME[m]}-task-round-{vi}", x + hs + ["do kreg k1 ; kreg k2 ; kreg k3 ; trel t9 50000000", "main", "main", "main"]))
        # iv_quit() from an iv_event handler while other posted events of the same batch are undelivered (cross-thread posts at the wait,
        # and posts made by the owner itself), iv_main re-entered, then more posts: every post is still followed by its handler
        ev = ([f"exclude {m}"] if m else []) + ["cfg waitlimit=14 cblimit=80", "obj event e0", "obj event e1", "obj event e2", "obj timer t9", "obj timer t1",
              "on t9 1 : ?evunreg e0 ; ?evunreg e1 ; ?evunreg e2"]
        # the same for iv_event_raw objects (each is a descriptor of its own): posted from another thread at the same wait, the handler
        # dispatched first calls iv_quit, iv_main is re-entered: the other object's post must still be delivered
        rw = ([f"exclude {m}"] if m else []) + ["cfg waitlimit=14 cblimit=80", "obj raw r1", "obj raw r2", "obj raw r3", "obj timer t9",
              "on t9 1 : ?rawunreg r1 ; ?rawunreg r2 ; ?rawunreg r3"]
        for vi, (hs, stim, later) in enumerate([
                (["on r1 1 : quit", "on r2 1 : quit"], "xrawpost r1 ; xrawpost r2", "xrawpost r1"),
                (["on r1 1 : quit", "on r2 1 : quit", "on r3 1 : quit"], "xrawpost r3 ; xrawpost r2 ; xrawpost r1", "xrawpost r2"),
                (["on r2 1 : quit ; rawpost r3"], "xrawpost r1 ; xrawpost r2 ; xrawpost r3", "xrawpost r1")]):
            cases.append((f"quit-{METHOD_NAME[m]}-raw-batch-{vi}", rw + hs + [f"at 0 : {stim}", "do rawreg r1 ; rawreg r2 ; rawreg r3 ; trel t9 50000000",
                                                                                "main", "main", f"at 4 : {later}", "main", "main"]))
        for vi, (hs, stim, later) in enumerate([
                (["on e0 1 : quit", "on e1 1 : quit"], "xpost e0 ; xpost e1", "xpost e0"),
                (["on e0 1 : quit", "on e1 1 : quit", "on e2 1 : quit"], "xpost e2 ; xpost e1 ; xpost e0", "xpost e1"),
                (["on e0 1 : quit"], "xpost e0 ; xpost e1 ; xpost e2", "xpost e2"),
                (["on e1 1 : quit ; evpost e2"], "xpost e0 ; xpost e1 ; xpost e2", "xpost e0"),
                (["on t1 1 : evpost e0 ; evpost e1 ; evpost e2", "on e0 1 : quit", "on e1 1 : quit"], "nop", "xpost e2")]):
            cases.append((f"quit-{METHOD_NAME[m]}-event-batch-{vi}", ev + hs + [f"at 0 : {stim}", "do evreg e0 ; evreg e1 ; evreg e2 ; trel t1 1000 ; trel t9 50000000",
                                                                                  "main", "main", f"at 4 : {later}", "main", "main"]))
    return cases


def erronly_cases():
    """(C02/C03/C15) Enumerated: a descriptor whose only handler is the error handler (wanted bands {err}), reached from no handlers /
    from in+err / from registration, and left again, with the error or hang-up arising before or after each transition; every method
    must report it exactly while the error handler is set."""
    cases = []
    for m in METHODS:
        pre = ([f"exclude {m}"] if m else []) + ["cfg waitlimit=12 cblimit=60", "obj fd f0 sock", "obj fd f1 sock", "obj timer t9",
                                              "on f0.err * : unreg f0", "on f1.in * : rd f1", "on t9 1 : ?unreg f0 ; ?unreg f1"]
        variants = {
            "reg-erronly-then-hup": ["do reg f0 001 ; reg f1 100 ; trel t9 50000000", "at 0 : wr f1 1", "at 1 : closepeer f0", "main"],
            "reg-none-then-erronly": ["do reg f0 000 ; reg f1 100 ; trel t9 50000000", "at 0 : wr f1 1", "on f1.in 1 : rd f1 ; seterr f0 1", "at 1 : closepeer f0", "main"],
            "hup-then-erronly": ["do reg f0 000 ; reg f1 100 ; closepeer f0 ; trel t9 50000000", "at 0 : wr f1 1", "on f1.in 1 : rd f1 ; seterr f0 1", "main"],
            "inerr-to-erronly": ["do reg f0 101 ; reg f1 100 ; trel t9 50000000", "on f0.in * : rd f0", "at 0 : wr f1 1", "on f1.in 1 : rd f1 ; setin f0 0", "at 1 : closepeer f0", "main"],
            "erronly-to-none-then-hup": ["do reg f0 001 ; reg f1 100 ; trel t9 50000000", "at 0 : wr f1 1", "on f1.in 1 : rd f1 ; seterr f0 0", "at 1 : closepeer f0",
                                         "at 2 : wr f1 1", "on f1.in 2 : rd f1 ; seterr f0 1", "main"],
            "erronly-unreg-reuse": ["do reg f0 001 ; reg f1 100 ; trel t9 50000000", "at 0 : wr f1 1", "on f1.in 1 : rd f1 ; unreg f0 ; reg f0 001", "at 1 : closepeer f0", "main"],
        }
        for name, body in variants.items():
            cases.append((f"erronly-{METHOD_NAME[m]}-{name}", pre + body))
    return cases


def chain_cases():
    """(C06/C07) Enumerated: a chain of tasks in which every handler (re-)initialises its successor (IV_TASK_INIT on a fresh or re-used
    struct) and registers it, while a timer that stops the chain (or calls iv_quit) becomes due: a registration made from inside a task
    handler waits for the next round whatever the history of the struct, so the timer is served and iv_main returns."""
    cases = []
    for m in METHODS:
        pre = ([f"exclude {m}"] if m else []) + ["cfg waitlimit=40 cblimit=160", "obj task k1", "obj task k2", "obj task k3", "obj timer t0", "obj fd f0 sock", "on f0.in * : rd f0"]
        for how in ("init", "free-init"):
            prep = (lambda k: f"init {k}") if how == "init" else (lambda k: f"free {k} ; init {k}")
            for stop in ("unreg", "quit"):
                end = "?kunreg k1 ; ?kunreg k2 ; ?kunreg k3 ; ?unreg f0" if stop == "unreg" else "quit"
                body = [f"on k1 * : {prep('k2')} ; kreg k2", f"on k2 * : {prep('k3')} ; kreg k3", f"on k3 * : {prep('k1')} ; kreg k1", f"on t0 1 : {end}",
                        "do kreg k1 ; reg f0 100 ; trel t0 4000", "at 1 : wr f0 1", "main"]
                cases.append((f"chain-{METHOD_NAME[m]}-{how}-{stop}", pre + body))
        # a task that re-initialises ITSELF before registering again
        cases.append((f"chain-{METHOD_NAME[m]}-self-init", pre + ["on k1 * : init k1 ; kreg k1", "on t0 1 : ?kunreg k1 ; ?unreg f0", "do kreg k1 ; reg f0 100 ; trel t0 4000", "at 1 : wr f0 1", "main"]))
    return cases


def alias_cases():
    """(C02/C15) Enumerated: a SECOND struct iv_fd for a descriptor number that a registered object already owns is offered with
    iv_fd_register_try (the epoll methods' kernel refuses a second entry, poll/ppoll give it a slot of its own): whatever the
    outcome, the first object keeps being served; afterwards the second is released (if it was accepted) and the first must still be
    served."""
    cases = []
    for m in METHODS:
        pre = ([f"exclude {m}"] if m else []) + ["cfg waitlimit=14 cblimit=60", "obj fd f0 sock", "obj fd f5 =f0", "obj fd f1 sock", "obj timer t0", "obj timer t1", "obj timer t9",
                                              "on t9 1 : ?unreg f0 ; ?unreg f5 ; ?unreg f1", "on f1.in * : rd f1"]
        variants = {
            # the first object reads, the second would like to write
            "in-then-out": ["on f0.in * : rd f0", "on f5.out 1 : ?setout f5 0", "on t0 1 : try f5 010 ; wr f0 1", "on t1 1 : ?unreg f5 ; wr f0 1",
                            "do reg f0 100 ; reg f1 100 ; wr f0 1 ; trel t0 1000 ; trel t1 900000 ; trel t9 50000000", "main"],
            # the first object writes (once), the second would like to read
            "out-then-in": ["on f0.out 1 : setout f0 0", "on f0.in * : rd f0", "on f5.in * : rd f5", "on t0 1 : try f5 100 ; setin f0 1 ; wr f0 1", "on t1 1 : ?unreg f5 ; wr f0 1",
                            "do reg f0 010 ; reg f1 100 ; trel t0 1000 ; trel t1 900000 ; trel t9 50000000", "main"],
            # offered from inside the first object's own handler, while it is being dispatched
            "from-own-handler": ["on f0.in 1 : rd f0 ; try f5 010", "on f0.in * : rd f0", "on f5.out 1 : ?setout f5 0", "on t1 1 : ?unreg f5 ; wr f0 1",
                                 "do reg f0 100 ; reg f1 100 ; wr f0 1 ; trel t1 900000 ; trel t9 50000000", "at 1 : wr f0 1", "main"],
            # offered without any handler, a handler set later
            "no-handlers-then-out": ["on f0.in * : rd f0", "on f5.out 1 : ?setout f5 0", "on t0 1 : try f5 000 ; wr f0 1", "on t1 1 : ?setout f5 1 ; wr f0 1",
                                     "do reg f0 100 ; reg f1 100 ; trel t0 1000 ; trel t1 900000 ; trel t9 50000000", "main"],
        }
        for name, body in variants.items():
            cases.append((f"alias-{METHOD_NAME[m]}-{name}", pre + body))
    return cases


ENUM_RULE = ("; plus the ENUMERATED families 'erronly' (24 scenarios: a descriptor whose only handler is the error handler, reached and left by every "
             "transition, hang-up before/after, 4 methods) and 'quit' (104 scenarios: iv_quit outside iv_main; iv_quit from a descriptor handler while "
             "other descriptors of the same iteration are undelivered, from a task while later and deferred tasks of the round are pending, from an iv_event handler while other posted events of the batch are undelivered, and from an iv_event_raw handler while other raw objects posted in the same batch are undelivered, then "
             "iv_main re-entered: nothing due may be lost across the return; 4 methods) and 'alias' (16 scenarios: a second struct iv_fd offered with "
             "iv_fd_register_try for a descriptor number another registered object owns, accepted or refused depending on the method: the first object keeps being served) and 'chain' (20 scenarios: every task handler "
             "re-initialises and registers its successor while a timer that ends the chain becomes due)")
