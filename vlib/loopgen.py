"""Scenario generator for the loop harness (harness/loop_h.c). Every choice derives from one PRNG."""
import random

METHODS = [None, "epoll-timerfd", "epoll-timerfd epoll", "epoll-timerfd epoll ppoll"]
METHOD_NAME = {None: "epoll-timerfd", "epoll-timerfd": "epoll", "epoll-timerfd epoll": "ppoll", "epoll-timerfd epoll ppoll": "poll"}


class Gen:
    def __init__(self, rng, family="mix", method=None, events=True, raws=True, faults=True):
        self.r = rng
        self.family = family
        self.method = method
        self.lines = []
        self.nf = self.nt = self.nk = self.ne = self.nr = 0
        self.events = events
        self.raws = raws
        self.faults = faults
        self.bad = set()

    def pick(self, kind):
        r = self.r
        if kind == "f" and self.nf: return f"f{r.randrange(self.nf)}"
        if kind == "t" and self.nt: return f"t{r.randrange(self.nt)}"
        if kind == "k" and self.nk: return f"k{1 + r.randrange(self.nk)}"
        if kind == "e" and self.ne: return f"e{r.randrange(self.ne)}"
        if kind == "r" and self.nr: return f"r{1 + r.randrange(self.nr)}"
        return None

    def flags(self):
        r = self.r
        return "".join(r.choice("01") for _ in range(3))

    def delta(self):
        r = self.r
        return r.choice([0, 0, 1, 999999, 1000000, 1000001, 5000000, 5000000, 5000000, 70000000, 3000000000, -5, -2000000000,
                         r.randrange(0, 20000000)])

    def action(self, in_handler=True, unguarded=0.03):
        r = self.r
        g = "" if r.random() < unguarded else "?"
        choices = []
        if self.nf:
            choices += ["reg", "unreg", "setin", "setout", "seterr", "unreg", "try", "fdio", "fdio"]
        if self.nt:
            choices += ["trel", "trel", "tunreg", "treg0"]
        if self.nk:
            choices += ["kreg", "kreg", "kunreg"]
        if self.ne:
            choices += ["evreg", "evunreg", "evpost", "evpost"]
        if self.nr:
            choices += ["rawreg", "rawunreg", "rawpost", "rawpost"]
        choices += ["clk", "inval", "valid", "free", "quit" if r.random() < 0.15 else "nop"]
        c = r.choice(choices)
        f, t, k, e, rw = self.pick("f"), self.pick("t"), self.pick("k"), self.pick("e"), self.pick("r")
        if c == "reg": return f"{g}{'try' if f in self.bad else 'reg'} {f} {self.flags()}"
        if c == "try": return f"{g}try {f} {self.flags()}"
        if c == "unreg": return f"{g}unreg {f}"
        if c in ("setin", "setout", "seterr"): return f"{g}{c} {f} {r.choice('01')}"
        if c == "fdio": return r.choice([f"wr {f} 3", f"rd {f}", f"fill {f}", f"unfill {f}", f"closepeer {f}", f"shutpeer {f}", f"rd {f}"])
        if c == "trel": return f"{g}trel {t} {self.delta()}"
        if c == "treg0": return f"{g}treg {t} 0"
        if c == "tunreg": return f"{g}tunreg {t}"
        if c == "kreg": return f"{g}kreg {k}"
        if c == "kunreg": return f"{g}kunreg {k}"
        if c == "evreg": return f"?evreg {e}"
        if c == "evunreg": return f"?evunreg {e}"
        if c == "evpost": return f"evpost {e}"
        if c == "rawreg": return f"?rawreg {rw}"
        if c == "rawunreg": return f"?rawunreg {rw}"
        if c == "rawpost": return f"rawpost {rw}"
        if c == "clk": return f"clk {r.choice([1, 1000, 1000000, 6000000, 2000000000])}"
        if c == "inval": return "inval"
        if c == "valid": return "valid"
        if c == "free":
            cand = [x for x in (f, t, k, e, rw) if x]
            if not cand: return "nop"
            o = r.choice(cand)
            return f"free {o} ; init {o}" if r.random() < 0.7 else f"free {o}"
        if c == "quit": return "quit"
        return "nop"

    def build(self):
        r = self.r
        L = self.lines
        fam = self.family
        if self.method is not None:
            L.append(f"exclude {self.method}")
        cfg = [f"waitlimit={r.choice([12, 25, 40])}", f"cblimit={r.choice([200, 400])}"]
        if self.faults:
            if r.random() < 0.25: cfg.append(r.choice(["nopwait2", "pwait2eperm"]))
            if r.random() < 0.2: cfg.append("notimerfd")
            if r.random() < 0.25: cfg.append("noppoll")
            if r.random() < 0.15: cfg.append("noepollcreate1")
            for _ in range(r.choice([0, 0, 1, 2, 3])):
                cfg.append(f"eintr={r.randrange(1, 20)}")
            if r.random() < 0.15: cfg.append(r.choice(["noeventfd2", "noeventfd2"]))
        L.append("cfg " + " ".join(cfg))
        self.nf = r.choice([0, 1, 2, 3, 5]) if fam != "timers" else r.choice([0, 1])
        self.nt = r.choice([0, 1, 2, 4, 6]) if fam != "fds" else r.choice([0, 1])
        self.nk = r.choice([0, 1, 2, 3])
        self.ne = r.choice([0, 0, 1, 2, 3]) if self.events else 0
        self.nr = r.choice([0, 0, 1, 2]) if self.raws else 0
        for i in range(self.nf):
            kind = r.choice(['sock', 'sock', 'sock', 'pipe-r', 'pipe-w', 'bad' if r.random() < 0.3 else 'sock'])
            if kind == 'bad': self.bad.add(f"f{i}")
            L.append(f"obj fd f{i} {kind}")
        for i in range(self.nt): L.append(f"obj timer t{i}")
        for i in range(1, self.nk + 1): L.append(f"obj task k{i}")
        for i in range(self.ne): L.append(f"obj event e{i}")
        for i in range(1, self.nr + 1): L.append(f"obj raw r{i}")
        # reactions
        for kind, n, bands in (("f", self.nf, ["in", "out", "err"]), ("t", self.nt, [None]), ("k", self.nk, [None]),
                               ("e", self.ne, [None]), ("r", self.nr, [None])):
            for i in range(n):
                oid = i + 1 if kind in "kr" else i
                for b in bands:
                    who = f"{kind}{oid}" + (f".{b}" if b else "")
                    for nth in r.sample([1, 2, 3, 4, "*"], r.choice([0, 1, 2, 3])):
                        acts = [self.action() for _ in range(r.choice([1, 1, 2, 3, 4]))]
                        if b == "out" and nth == "*" and r.random() < 0.8:
                            acts.append(f"?setout {kind}{oid} 0")
                        if b == "in" and r.random() < 0.6:
                            acts.insert(0, f"rd {kind}{oid}")
                        L.append(f"on {who} {nth} : " + " ; ".join(acts))
        # stimuli
        for w in range(0, 30):
            if r.random() < 0.45:
                acts = []
                for _ in range(r.choice([1, 1, 2, 3])):
                    k = r.random()
                    f, e, rw = self.pick("f"), self.pick("e"), self.pick("r")
                    if f and k < 0.5: acts.append(r.choice([f"wr {f} 2", f"wr {f} 2", f"rd {f}", f"closepeer {f}", f"shutpeer {f}", f"fill {f}", f"unfill {f}"]))
                    elif e and k < 0.7: acts.append(f"xpost {e}")
                    elif rw and k < 0.85: acts.append(f"xrawpost {rw}")
                    else: acts.append(f"clk {r.choice([1, 500000, 5000000, 100000000])}")
                L.append(f"at {w} : " + " ; ".join(acts))
        # setup
        acts = [self.action(in_handler=False, unguarded=0.05) for _ in range(r.choice([2, 4, 8, 12]))]
        acts = [a for a in acts if not a.startswith(("quit",))]
        L.append("do " + " ; ".join(acts))
        L.append("main")
        if r.random() < 0.4:
            acts = [self.action(in_handler=False, unguarded=0.0) for _ in range(r.choice([1, 3, 6]))]
            L.append("do " + " ; ".join(a for a in acts if not a.startswith("quit")))
            L.append("main")
        return L


def scenario(seed, family="mix", method="rotate", **kw):
    rng = random.Random(seed)
    m = METHODS[seed % 4] if method == "rotate" else method
    return Gen(rng, family, m, **kw).build()
