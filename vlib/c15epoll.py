"""C15 extension (epoll registration bookkeeping): T-diff of the REAL /repo/src/iv_fd_epoll.c as driven by /repo/src/iv_fd.c
(harness/fdepoll_h.c: 8 iv_fd objects, 8 socketpair slots at fixed descriptor numbers, the library's epoll_ctl / epoll_wait /
epoll_pwait2 references wrapped to log what goes in and out of the REAL kernel) against the Lean model Ivy.L0.FdEpoll
(`ivyreplay fdepoll`; properties proved in Ivy.Props.C15epoll), plus an independent reference (`oracle`, plain Python, no model)
that judges the harness output alone.  Both poll methods that share the code are run: "epoll" and "epoll-timerfd".
Not a plugin of its own: call check(tier, seed, res) / replay(path); stand-alone runner: /verif/run_c15epoll.py."""
import concurrent.futures, itertools, multiprocessing, os, random, re, subprocess, time
from . import common

HARNESS = os.path.join(common.BUILD, "fdepoll_h")
NOBJ, ND = 8, 8
MODES = {"epoll": "epoll-timerfd", "epoll-timerfd": ""}        # poll method -> value of IV_EXCLUDE_POLL_METHOD
OPKINDS = ["reg", "regtry", "unreg", "setin", "setout", "seterr", "flush", "closefd", "openfd", "wr", "drain", "closepeer", "dump",
           "other"]
FULL = ("reg", "regtry", "unreg", "setin", "setout", "seterr", "flush", "closefd", "openfd")   # ops with a ctl=/ret=/... result line
EPOLLIN, EPOLLOUT, EPOLLERR, EPOLLHUP = 1, 4, 8, 16
EBADF, EEXIST = 9, 17
QUICK_BUDGET_S, THOROUGH_BUDGET_S = 10, 120


def build():
    return common.build_wrapped(HARNESS, os.path.join(common.VERIF, "harness", "fdepoll_h.c"), ["epoll_ctl", "epoll_wait", "epoll_pwait2"])


def ensure_replay():
    """the driver binary is built by the proof phase / by hand; only build it here when it is missing"""
    if not os.path.exists(common.REPLAY_BIN):
        return common.lean_build(["ivyreplay"])
    return True, ""


# ---------------------------------------------------------------- running
class _R:
    pass


def run_proc(cmd, text, env_extra=None, timeout=8):
    env = dict(os.environ, ASAN_OPTIONS="detect_stack_use_after_return=1")
    env.update(env_extra or {})
    try:
        return subprocess.run(cmd, input=text, stdout=subprocess.PIPE, stderr=subprocess.PIPE, text=True, timeout=timeout, env=env,
                              close_fds=True)
    except subprocess.TimeoutExpired as e:
        r = _R()
        r.stdout = (e.stdout or b"").decode() if isinstance(e.stdout, bytes) else (e.stdout or "")
        r.stderr = "TIMEOUT"
        r.returncode = -9
        return r


def run_harness(ops, mode, timeout=8):
    return run_proc([HARNESS], "\n".join(ops) + "\n", {"IV_EXCLUDE_POLL_METHOD": MODES[mode]}, timeout)


def method_of(stderr):
    m = re.search(r"^METHOD (\S+)", stderr, re.M)
    return m.group(1) if m else None


def model_input(ops, al):
    """the model's copy of the op file: every `flush` the harness executed carries the events its wrapped epoll_wait returned"""
    out = []
    for i, op in enumerate(ops):
        w = words(op)
        if w and w[0] == "flush" and i < len(al) and al[i].startswith("flush ctl="):
            m = re.search(r" ev=(\S*) rdy=", al[i])
            evs = [t for t in (m.group(1) if m else "").split(",") if t]
            out.append(" ".join(["flush"] + evs))
        else:
            out.append(op)
    return out


def run_model(lines, timeout=8):
    return run_proc([common.REPLAY_BIN, "fdepoll"], "\n".join(lines) + "\n", None, timeout)


def lines_of(r):
    return [l.rstrip() for l in r.stdout.splitlines()]


def run_both(ops, mode):
    a = run_harness(ops, mode)
    al = lines_of(a)
    b = run_model(model_input(ops, al))
    return a, al, b, lines_of(b)


def first_diff(al, bl, nops):
    for j in range(max(len(al), len(bl), nops)):
        if j >= len(al) or j >= len(bl) or al[j] != bl[j]:
            return j
    return None


# ---------------------------------------------------------------- op syntax (independent of the driver; same rules)
def words(op):
    """like the driver: white space trimmed at both ends, words separated by blanks only"""
    return [t for t in op.strip().split(" ") if t]


def _nat(t):
    return int(t) if re.fullmatch(r"[0-9]+", t) else None


def parse_op(op):
    """-> (kind, args) | None for a malformed line (`bad-op`)"""
    w = words(op)
    if not w:
        return ("empty", ())
    if w == ["dump"]:
        return ("dump", ())
    if w[0] == "flush":
        return ("flush", ()) if all(re.fullmatch(r"[0-9]+:[0-9]+", t) for t in w[1:]) else None
    if len(w) == 2:
        a = _nat(w[1])
        if a is None:
            return None
        if w[0] == "unreg":
            return ("unreg", (a,)) if a < NOBJ else None
        if a >= ND or w[0] not in ("closefd", "openfd", "wr", "drain", "closepeer"):
            return None
        return (w[0], (a,))
    if len(w) == 3:
        a, b = _nat(w[1]), _nat(w[2])
        if a is None or b is None or a >= NOBJ:
            return None
        if w[0] in ("reg", "regtry"):
            return (w[0], (a, b)) if b < ND else None
        if b > 1 or w[0] not in ("setin", "setout", "seterr"):
            return None
        return (w[0], (a, b))
    return None


def kind_of(op):
    w = words(op)
    return w[0] if w and w[0] in OPKINDS[:-1] else "other"


# ---------------------------------------------------------------- result line syntax
LINE = re.compile(r"^(\w+) ctl=(\S*) ret=(-?\d+) ev=(\S*) rdy=(\S*) calls=(\S*) \| (.*) \| q=(\S*)$")
SHORT = re.compile(r"^(\w+) \| (.*) \| q=(\S*)$")


def _pairs(s):
    return [tuple(int(x) for x in t.split(":")) for t in s.split(",") if t]


def _ctls(s):
    out = []
    for t in s.split(","):
        if t:
            f = t.split(":")
            out.append((f[0], int(f[1]), int(f[2]), int(f[3]), int(f[4])))
    return out


def _state(s, q):
    """-> ([None | (d, reg, wanted, registered, q)] per object, notify list)"""
    objs = []
    for t in s.split(" "):
        v = t.split("=", 1)[1]
        objs.append(None if v == "-" else tuple(int(x) for x in v.split("/")))
    return objs, [x for x in q.split(",") if x]


def emask(w):
    return (EPOLLIN if w & 1 else 0) | (EPOLLOUT if w & 2 else 0)


def bands_of(ev):
    return ((1 if ev & (EPOLLIN | EPOLLERR | EPOLLHUP) else 0) | (2 if ev & (EPOLLOUT | EPOLLERR | EPOLLHUP) else 0) |
            (4 if ev & (EPOLLERR | EPOLLHUP) else 0))


# ---------------------------------------------------------------- the independent reference
def oracle(ops, out, rc=0):
    """Judges the harness output alone.  Tracks, from the op history and the logged epoll_ctl calls only: which objects are registered,
    on which slot, their handler flags; which slots are closed / have an open peer / have unread bytes; the kernel's interest set
    K: slot -> (mask, obj) (err==0: ADD/MOD set, DEL remove; closefd removes).  Returns None or (op index, short tag, message).

    Readiness of an AF_UNIX SOCK_STREAM socketpair end as observed on Linux (6.x) through epoll, level triggered, which (5) below
    predicts exactly:  EPOLLIN  iff requested and (unread bytes pending or the peer end closed);
                       EPOLLOUT iff requested (the end is never written to, so it is always writable -- also after the peer closed);
                       EPOLLHUP iff the peer end is closed, whether requested or not (also with an empty mask);
                       EPOLLERR never (the peer never has unread data when it is closed);
    an entry whose event word would be 0 is not reported; every entry with a non-zero word is reported by the zero-timeout wait
    (maxevents = st->numfds >= number of entries)."""
    reg = [False] * NOBJ
    slot = [None] * NOBJ
    h = [[0, 0, 0] for _ in range(NOBJ)]
    ever = [False] * NOBJ
    closed = [False] * ND
    peer = [True] * ND
    pending = [0] * ND
    K = {}
    prev_objs, prev_q = [None] * NOBJ, []

    def wanted(o):
        return (h[o][0] | h[o][1] << 1 | h[o][2] << 2) if reg[o] else 0

    def free(d):
        return not any(reg[o] and slot[o] == d for o in range(NOBJ))

    for i, op in enumerate(ops):
        def fail(tag, msg):
            return (i, tag, f"after op #{i} '{op}': {msg}")
        if i >= len(out):
            return (i, "crash", f"implementation produced {len(out)} lines for {len(ops)} ops: died at op #{i} '{op}'")
        got = out[i]
        p = parse_op(op)
        if p is None:
            if got != "bad-op":
                return fail("bad-op", f"malformed op answered with '{got[:80]}'")
            continue
        k, args = p
        # ---- the API contract / environment hypothesis: when the harness must refuse
        if k == "reg":
            okpre = not reg[args[0]] and not closed[args[1]] and free(args[1])
        elif k == "regtry":
            okpre = not reg[args[0]] and (free(args[1]) or args[1] in K)
        elif k == "unreg":
            okpre = reg[args[0]]
        elif k == "closefd":
            okpre = not closed[args[0]] and free(args[0])
        elif k == "openfd":
            okpre = closed[args[0]]
        elif k in ("wr", "closepeer"):
            okpre = not closed[args[0]] and peer[args[0]]
        elif k == "drain":
            okpre = not closed[args[0]]
        else:
            okpre = True
        if not okpre:
            if got != "skip":
                return fail("skip", f"op outside the API contract was not refused: '{got[:80]}'")
            continue
        m = (LINE if k in FULL else SHORT).match(got)
        if m is None or m.group(1) != k:
            return fail("format", f"unexpected result line '{got[:120]}'")
        if k in FULL:
            ctls, ret, evs, rdy, calls = _ctls(m.group(2)), int(m.group(3)), _pairs(m.group(4)), _pairs(m.group(5)), _pairs(m.group(6))
            objs, q = _state(m.group(7), m.group(8))
        else:
            ctls, ret, evs, rdy, calls = [], 0, [], [], []
            objs, q = _state(m.group(2), m.group(3))
        if k != "flush" and (evs or rdy or calls):
            return fail("spurious", f"events / handler calls outside a poll: '{got[:120]}'")

        def ctl_check(c, w, want_err):
            """one logged epoll_ctl against the tracked interest set; w = wanted bands of the object at the time of the call"""
            cop, o, d, mask, err = c
            if o >= NOBJ or d != slot[o]:
                return fail("ctl-fd", f"epoll_ctl {c} on a descriptor that is not the object's (slot {slot[o] if o < NOBJ else '?'})")
            if err != want_err:
                return fail("ctl-err", f"epoll_ctl {c} returned errno {err}, expected {want_err}")
            if mask != emask(w):
                return fail("ctl-mask", f"epoll_ctl {c} carries mask {mask}, wanted bands {w} need mask {emask(w)}")
            if want_err == 0:
                if cop == "ADD" and d in K:
                    return fail("ctl-op", f"EPOLL_CTL_ADD {c} on a descriptor already in the interest set {K[d]}")
                if cop in ("MOD", "DEL") and d not in K:
                    return fail("ctl-op", f"EPOLL_CTL_{cop} {c} on a descriptor that is not in the interest set")
                if cop == "DEL":
                    del K[d]
                elif cop in ("ADD", "MOD"):
                    K[d] = (mask, o)
                else:
                    return fail("ctl-op", f"unknown epoll_ctl op in {c}")
            return None

        if k in ("reg", "setin", "setout", "seterr", "closefd", "openfd"):
            if ctls:
                return fail("minimal", f"{k} issued epoll_ctl calls {ctls} (must only queue)")
            if ret != 0:
                return fail("ret", f"ret={ret}")
        if k == "reg":
            o, d = args
            reg[o], slot[o], ever[o] = True, d, True
        elif k in ("setin", "setout", "seterr"):
            h[args[0]][("setin", "setout", "seterr").index(k)] = args[1]
        elif k == "regtry":
            o, d = args
            want_err = EBADF if closed[d] else (EEXIST if d in K else 0)
            reg[o], slot[o], ever[o] = True, d, True
            w = wanted(o) or 3
            if len(ctls) != 1 or ctls[0][0] != "ADD":
                return fail("regtry", f"iv_fd_register_try must issue exactly one EPOLL_CTL_ADD, got {ctls}")
            bad = ctl_check(ctls[0], w, want_err)
            if bad:
                return bad
            if ret != want_err:
                return fail("ret", f"iv_fd_register_try result {ret}, epoll_ctl errno was {want_err}")
            if want_err:
                reg[o] = False
        elif k == "unreg":
            o = args[0]
            d = slot[o]
            reg[o] = False
            if len(ctls) > 1 or (ctls and (ctls[0][0] != "DEL" or d not in K)):
                return fail("minimal", f"iv_fd_unregister issued {ctls} (at most one EPOLL_CTL_DEL, only when the kernel has the descriptor)")
            for c in ctls:
                bad = ctl_check(c, 0, 0)
                if bad:
                    return bad
            if d in K:
                return fail("unreg-stale", f"descriptor slot {d} still in the kernel's interest set {K[d]} after iv_fd_unregister")
            so = objs[o]
            if so is None or so[1] != 0 or so[4] != 0 or str(o) in q:
                return fail("unreg-state", f"object {o} after iv_fd_unregister: state {so}, notify list {q}")
        elif k == "flush":
            # (6) minimality
            seen = set()
            for c in ctls:
                o = c[1]
                if o >= NOBJ or str(o) not in prev_q:
                    return fail("minimal", f"poll issued epoll_ctl {c} for an object that was not queued (notify list was {prev_q})")
                if o in seen:
                    return fail("minimal", f"poll issued more than one epoll_ctl for object {o}: {ctls}")
                seen.add(o)
                w = wanted(o)
                d = slot[o]
                enc = (K.get(d) == (emask(w), o)) if w else (d not in K)
                po = prev_objs[o]
                if enc and po is not None and po[3] == po[2]:
                    return fail("minimal", f"poll issued a redundant epoll_ctl {c}: interest set already encodes wanted bands {w}")
            # (1) the calls themselves
            for c in ctls:
                o = c[1]
                if not reg[o]:
                    return fail("ctl-fd", f"epoll_ctl {c} for an object that is not registered")
                w = wanted(o)
                bad = ctl_check(c, w, 0)
                if bad:
                    return bad
                if (c[0] == "DEL") != (w == 0):
                    return fail("ctl-op", f"epoll_ctl {c} with wanted bands {w}")
            # (2) pending changes are all in the kernel after the flush
            if q:
                return fail("flush-queue", f"notify list not empty after the poll: {q}")
            for o in range(NOBJ):
                if not reg[o]:
                    continue
                w, d = wanted(o), slot[o]
                if w == 0 and d in K:
                    return fail("flush-stale", f"object {o} wants nothing but slot {d} is in the interest set {K[d]}")
                if w != 0 and K.get(d) != (emask(w), o):
                    return fail("flush-missing", f"object {o} wants bands {w} (mask {emask(w)}) but the interest set has {K.get(d)} for slot {d}")
                so = objs[o]
                if so is None or so[2] != w or so[3] != w or so[4] != 0:
                    return fail("flush-state", f"object {o} after the poll: state {so}, expected wanted=registered={w}, not queued")
            for d in K:
                if free(d):
                    return fail("flush-stale", f"interest set entry {K[d]} for slot {d} which no registered object uses")
            # (4) events -> ready bands -> handler calls
            seen_d = set()
            exp_rdy = []
            for d, ev in evs:
                if d not in K or d in seen_d:
                    return fail("event", f"event {d}:{ev} for a descriptor that is not in the interest set (or reported twice)")
                seen_d.add(d)
                mask, o = K[d]
                if ev == 0 or ev & ~(mask | EPOLLERR | EPOLLHUP):
                    return fail("event", f"event {d}:{ev} outside the requested mask {mask}")
                j = next((j for j, x in enumerate(exp_rdy) if x[0] == o), None)
                if j is None:
                    exp_rdy.append([o, bands_of(ev)])
                else:
                    exp_rdy[j][1] |= bands_of(ev)
            exp_rdy = [tuple(x) for x in exp_rdy]
            if rdy != exp_rdy:
                return fail("ready", f"ready bands {rdy}, events {evs} require {exp_rdy}")
            exp_calls = []
            for o, b in exp_rdy:
                if b & 4 and h[o][2]:
                    exp_calls.append((o, 4))
                if b & 1 and h[o][0]:
                    exp_calls.append((o, 1))
                if b & 2 and h[o][1]:
                    exp_calls.append((o, 2))
            if calls != exp_calls:
                return fail("calls", f"handler calls {calls}, ready bands {exp_rdy} with handlers {[h[o] for o, _ in exp_rdy]} require {exp_calls}")
            # (5) readiness expected from the op history (a set per poll)
            exp_ev = {}
            for d, (mask, o) in K.items():
                e = ((EPOLLIN if (mask & EPOLLIN) and (pending[d] or not peer[d]) else 0) | (EPOLLOUT if mask & EPOLLOUT else 0) |
                     (EPOLLHUP if not peer[d] else 0))
                if e:
                    exp_ev[d] = e
            if dict(evs) != exp_ev:
                return fail("readiness", f"kernel reported {sorted(evs)}, the interest set {K} with pending={pending} peer={peer} predicts {sorted(exp_ev.items())}")
        elif k == "closefd":
            d = args[0]
            K.pop(d, None)
            closed[d], peer[d], pending[d] = True, False, 0
        elif k == "openfd":
            d = args[0]
            closed[d], peer[d], pending[d] = False, True, 0
        elif k == "wr":
            pending[args[0]] += 1
        elif k == "drain":
            pending[args[0]] = 0
        elif k == "closepeer":
            peer[args[0]] = False
        # ---- every state line: history flags, wanted bands, notify list
        for o in range(NOBJ):
            so = objs[o]
            if (so is not None) != ever[o]:
                return fail("state", f"object {o} shown as {so}, registered once: {ever[o]}")
            if so is None:
                continue
            if so[1] != (1 if reg[o] else 0) or (reg[o] and (so[0] != slot[o] or so[2] != wanted(o))):
                return fail("state", f"object {o} shown as {so}: expected slot {slot[o]}, registered {reg[o]}, wanted {wanted(o)}")
            # registered_bands is the library's record of what the kernel holds for this object
            ent = K.get(so[0])
            if ent is not None and ent[1] == o and (reg[o] or k == "unreg"):
                if so[3] == 0 or emask(so[3]) != ent[0]:
                    return fail("rb-kernel", f"object {o} shows registered_bands {so[3]} but the kernel holds {ent} for its descriptor")
            elif so[3] != 0:
                return fail("rb-kernel", f"object {o} shows registered_bands {so[3]} but the kernel holds no entry of this object (slot {so[0]}: {ent})")
        flagged = sorted(str(o) for o in range(NOBJ) if objs[o] is not None and objs[o][4])
        if sorted(q) != flagged or len(set(q)) != len(q):
            return fail("notify-list", f"notify list {q} does not hold exactly the objects whose list_notify is linked {flagged}")
        prev_objs, prev_q = objs, q
    if len(out) > len(ops):
        return (len(ops), "format", f"{len(out)} result lines for {len(ops)} ops")
    if rc != 0:
        return (len(out), "crash", f"harness exit status {rc} after the last op")
    return None


# ---------------------------------------------------------------- generators
class Sim:
    """what the generator believes about the run (only used to steer towards valid / interesting ops; judges nothing)"""

    def __init__(self):
        self.reg = [False] * NOBJ
        self.slot = [0] * NOBJ
        self.h = [[0, 0, 0] for _ in range(NOBJ)]
        self.rb = [0] * NOBJ
        self.closed = [False] * ND
        self.peer = [True] * ND

    def wanted(self, o):
        return (self.h[o][0] | self.h[o][1] << 1 | self.h[o][2] << 2) if self.reg[o] else 0

    def user(self, d):
        return next((o for o in range(NOBJ) if self.reg[o] and self.slot[o] == d), None)

    def kern(self, d):
        o = self.user(d)
        return o is not None and self.rb[o] != 0

    def apply(self, op):
        p = parse_op(op)
        if p is None:
            return
        k, a = p
        if k == "reg":
            if not self.reg[a[0]] and not self.closed[a[1]] and self.user(a[1]) is None:
                self.reg[a[0]], self.slot[a[0]], self.rb[a[0]] = True, a[1], 0
        elif k == "regtry":
            if not self.reg[a[0]] and (self.user(a[1]) is None or self.kern(a[1])):
                if not self.closed[a[1]] and not self.kern(a[1]):
                    self.reg[a[0]], self.slot[a[0]] = True, a[1]
                    self.rb[a[0]] = self.wanted(a[0]) or 3
        elif k == "unreg":
            self.reg[a[0]] = False
        elif k in ("setin", "setout", "seterr"):
            self.h[a[0]][("setin", "setout", "seterr").index(k)] = a[1]
        elif k == "flush":
            for o in range(NOBJ):
                if self.reg[o]:
                    self.rb[o] = self.wanted(o)
        elif k == "closefd":
            if not self.closed[a[0]] and self.user(a[0]) is None:
                self.closed[a[0]], self.peer[a[0]] = True, False
        elif k == "openfd":
            if self.closed[a[0]]:
                self.closed[a[0]], self.peer[a[0]] = False, True
        elif k == "closepeer":
            if not self.closed[a[0]]:
                self.peer[a[0]] = False


def _junk(rng):
    c = rng.randrange(8)
    big = rng.choice([8, 9, 12, 64, 255, 99999999999999999999])
    if c == 0:
        return f"{rng.choice(['reg', 'regtry'])} {rng.choice([rng.randrange(NOBJ), big])} {rng.choice([rng.randrange(ND), big])}"
    if c == 1:
        return f"{rng.choice(['setin', 'setout', 'seterr'])} {rng.randrange(NOBJ)} {rng.choice([2, 3, big, 'x', '-1'])}"
    if c == 2:
        return f"{rng.choice(['unreg', 'closefd', 'openfd', 'wr', 'drain', 'closepeer'])} {rng.choice([big, 'z', '-1', '1 1 1'])}"
    if c == 3:
        return rng.choice(["dump 1", "dump 1 1", "flush x", "flush 1", "flush 1:2:3", "reg", "unreg", "frob 1", "frob 1 1", "setin 1", "reg 1 2 3"])
    if c == 4:
        return f"{rng.choice(['reg', 'regtry'])} {rng.randrange(NOBJ)} {rng.randrange(ND)}"         # arbitrary, mostly refused
    if c == 5:
        return f"unreg {rng.randrange(NOBJ)}"
    if c == 6:
        return f"{rng.choice(['closefd', 'openfd', 'closepeer', 'wr', 'drain'])} {rng.randrange(ND)}"
    return f"flush {rng.randrange(ND)}:{rng.choice([1, 4, 5, 16, 21])}"       # event tokens on the input are ignored by the harness


def gen_ops(rng, n):
    """structured random op file: phases that favour handler toggling between polls, unreg+reg of the same object on the same slot
    without a poll in between, regtry on occupied / closed / free slots, readiness changes, descriptor recycling; ~5% arbitrary or
    malformed lines (which must be refused)"""
    s = Sim()
    ops = []
    nobj = rng.choice([2, 3, 4, 8])
    nd = rng.choice([2, 3, 4, 8])
    O, D = list(range(nobj)), list(range(nd))

    def emit(op):
        ops.append(op)
        s.apply(op)

    def regd():
        return [o for o in O if s.reg[o]]

    def unregd():
        return [o for o in O if not s.reg[o]]

    def freeopen():
        return [d for d in D if not s.closed[d] and s.user(d) is None]

    def seth(o):
        j = rng.randrange(3)
        b = (1 - s.h[o][j]) if rng.random() < 0.75 else s.h[o][j]
        emit(f"{('setin', 'setout', 'seterr')[j]} {o} {b}")

    def some_reg():
        """make sure something is registered; returns a registered object or None"""
        r = regd()
        if r and rng.random() < 0.8:
            return rng.choice(r)
        u, f = unregd(), freeopen()
        if u and f:
            o = rng.choice(u)
            if rng.random() < 0.5:
                seth(o)
            emit(f"{'reg' if rng.random() < 0.8 else 'regtry'} {o} {rng.choice(f)}")
            return o if s.reg[o] else None
        return rng.choice(r) if r else None

    while len(ops) < n:
        phase = rng.choice(["toggle", "toggle", "rereg", "rereg", "regtry", "io", "fdlife", "mixed"])
        for _ in range(rng.randint(4, 24)):
            if len(ops) >= n:
                break
            if rng.random() < 0.05:
                emit(_junk(rng))
                continue
            if phase == "toggle":
                o = some_reg()
                if o is None:
                    break
                seth(o)
                if rng.random() < 0.3:
                    emit("flush")
            elif phase == "rereg":
                o = some_reg()
                if o is None:
                    break
                d = s.slot[o]
                emit(f"unreg {o}")
                r = rng.random()
                if r < 0.15:
                    emit("flush")
                elif r < 0.3:
                    seth(o)
                r = rng.random()
                if r < 0.7:
                    emit(f"reg {o} {d}")
                elif r < 0.8 and unregd():
                    emit(f"reg {rng.choice(unregd())} {d}")            # another object takes over the descriptor
                elif r < 0.9 and freeopen():
                    emit(f"reg {o} {rng.choice(freeopen())}")
                else:
                    emit(f"regtry {o} {d}")
                if rng.random() < 0.35:
                    emit("flush")
            elif phase == "regtry":
                u = unregd()
                if not u:
                    emit(f"unreg {rng.choice(regd())}")
                    continue
                o = rng.choice(u)
                occ = [d for d in D if s.kern(d)]
                occ0 = [d for d in D if s.user(d) is not None and not s.kern(d)]
                cl = [d for d in D if s.closed[d]]
                fr = freeopen()
                pools = [p for p in (occ, occ, cl, fr, fr, occ0) if p]
                if not pools:
                    break
                if rng.random() < 0.4:
                    seth(o)
                emit(f"regtry {o} {rng.choice(rng.choice(pools))}")
                if rng.random() < 0.4:
                    emit("flush")
                if not cl and rng.random() < 0.2 and fr:
                    emit(f"closefd {rng.choice(fr)}")
            elif phase == "io":
                o = some_reg()
                if o is None:
                    break
                d = s.slot[o]
                r = rng.random()
                if r < 0.45:
                    emit(f"wr {d}")
                elif r < 0.65:
                    emit(f"drain {d}")
                elif r < 0.75:
                    emit(f"closepeer {d}")
                elif r < 0.9:
                    seth(o)
                elif not s.peer[d]:
                    emit(f"unreg {o}")                               # recycle a slot whose peer is gone
                    emit(f"closefd {d}")
                    emit(f"openfd {d}")
                    emit(f"reg {o} {d}")
                if rng.random() < 0.5:
                    emit("flush")
            elif phase == "fdlife":
                r = rng.random()
                fr = freeopen()
                cl = [d for d in D if s.closed[d]]
                if r < 0.3 and fr:
                    emit(f"closefd {rng.choice(fr)}")
                elif r < 0.55 and cl:
                    emit(f"openfd {rng.choice(cl)}")
                elif r < 0.7 and cl and unregd():
                    emit(f"{rng.choice(['reg', 'regtry'])} {rng.choice(unregd())} {rng.choice(cl)}")
                elif r < 0.85 and unregd() and fr:
                    emit(f"reg {rng.choice(unregd())} {rng.choice(fr)}")
                elif regd():
                    emit(f"unreg {rng.choice(regd())}")
                if rng.random() < 0.25:
                    emit("flush")
            else:
                r = rng.random()
                if r < 0.3:
                    seth(rng.choice(O))
                elif r < 0.5:
                    emit("flush")
                elif r < 0.6 and unregd():
                    emit(f"{rng.choice(['reg', 'reg', 'regtry'])} {rng.choice(unregd())} {rng.choice(D)}")
                elif r < 0.7 and regd():
                    emit(f"unreg {rng.choice(regd())}")
                elif r < 0.8:
                    emit(f"{rng.choice(['wr', 'wr', 'drain', 'closepeer'])} {rng.choice(D)}")
                elif r < 0.9:
                    emit(f"{rng.choice(['closefd', 'openfd'])} {rng.choice(D)}")
                else:
                    emit("dump")
    return ops[:n]


# enumerated short sequences: alphabet per object {setin o 0, setin o 1, setout o 0, setout o 1, unreg o + reg o o}, plus flush
ENUM_LEN = 5


def enum_symbols(nobj):
    syms = [("flush",)]
    for o in range(nobj):
        syms += [("setin", o, 0), ("setin", o, 1), ("setout", o, 0), ("setout", o, 1), ("rereg", o)]
    return syms


def enum_count(nobj):
    return len(enum_symbols(nobj)) ** ENUM_LEN


def sym_ops(sym):
    if sym[0] == "flush":
        return ["flush"]
    if sym[0] == "rereg":
        return [f"unreg {sym[1]}", f"reg {sym[1]} {sym[1]}"]
    return [f"{sym[0]} {sym[1]} {sym[2]}"]


def enum_seq(nobj, idx):
    """the idx-th sequence of ENUM_LEN symbols (idx written in base len(symbols))"""
    syms = enum_symbols(nobj)
    seq = []
    for _ in range(ENUM_LEN):
        seq.append(syms[idx % len(syms)])
        idx //= len(syms)
    return seq


def canonical(seq):
    """objects renamed in order of first mention"""
    ren = {}
    out = []
    for sym in seq:
        if len(sym) > 1:
            o = ren.setdefault(sym[1], len(ren))
            sym = (sym[0], o) + sym[2:]
        out.append(sym)
    return tuple(out)


def enum_body(seq):
    return [op for sym in seq for op in sym_ops(sym)]


def enum_case(nobj, seq):
    return [f"reg {o} {o}" for o in range(nobj)] + enum_body(seq) + ["flush", "dump"]


def enum_reset(nobj):
    """ops that take the library, the kernel and the objects back to the state after start (except that the objects have been
    registered once): used to run many enumerated sequences in one process"""
    return [f"unreg {o}" for o in range(nobj)] + [f"{k} {o} 0" for o in range(nobj) for k in ("setin", "setout")]


def enum_cases(nobj=2):
    """every sequence (for nobj == 3: up to renaming of objects, canonical representatives only) as its own op file"""
    for idx in range(enum_count(nobj)):
        seq = tuple(enum_seq(nobj, idx))
        if nobj > 2 and canonical(seq) != seq:
            continue
        yield f"enum{nobj}-{idx}", enum_case(nobj, seq)


def enum_sample(nobj, rng, count):
    total = enum_count(nobj)
    seen = set()
    out = []
    tries = 0
    while len(out) < count and tries < 20 * count:
        tries += 1
        seq = canonical(enum_seq(nobj, rng.randrange(total))) if nobj > 2 else tuple(enum_seq(nobj, rng.randrange(total)))
        if seq in seen:
            continue
        seen.add(seq)
        out.append((f"enum{nobj}-s{len(out)}", enum_case(nobj, list(seq))))
    return out


def enum_group(nobj, start, end):
    """sequences start..end-1 on nobj objects (nobj == 3: the canonical ones among them) in ONE op file, each followed by `flush`,
    `dump` and enum_reset"""
    ops = []
    bounds = []
    for idx in range(start, end):
        seq = enum_seq(nobj, idx)
        if nobj > 2 and canonical(seq) != tuple(seq):
            continue
        b0 = len(ops)
        ops += enum_case(nobj, seq) + enum_reset(nobj)
        bounds.append((b0, len(ops)))
    return ops, bounds


# ---------------------------------------------------------------- one work item (runs in a pool worker)
def _work(item):
    """(name, mode, kind, payload) -> summary; kind 'ops': payload = op list; kind 'group': payload = (nobj, start, end)"""
    try:
        return _work1(item)
    except Exception:
        import traceback
        return {"name": item[0], "mode": item[1], "nops": 0, "dist": {}, "bad": None, "div": None, "env": None, "ops": None, "san": "",
                "cases": 0, "internal": traceback.format_exc()[-600:]}


def _work1(item):
    name, mode, kind, payload = item
    bounds = None
    if kind == "group":
        ops, bounds = enum_group(*payload)
    else:
        ops = payload
    a, al, b, bl = run_both(ops, mode)
    dist = {}
    for j, op in enumerate(ops):
        e = dist.setdefault(kind_of(op), [0, 0])
        e[0] += 1
        if j < len(al) and al[j] not in ("skip", "bad-op"):
            e[1] += 1
    out = {"name": name, "mode": mode, "nops": len(ops), "dist": dist, "bad": None, "div": None, "env": None, "ops": None, "san": "",
           "cases": len(bounds) if kind == "group" else 1}
    meth = method_of(a.stderr)
    if meth != mode and (meth is not None or a.returncode == 0):
        out["env"] = f"poll method '{mode}' was not selected (IV_EXCLUDE_POLL_METHOD='{MODES[mode]}'): library reports '{meth}'"
    bad = oracle(ops, al, a.returncode)
    d = None
    if bad is None:
        d = first_diff(al, bl, len(ops))
        if d is None and b.returncode != 0:
            d = 0
    if bad is not None or d is not None:
        i = bad[0] if bad is not None else d
        cut = ops[:i + 1]
        if bounds:                     # the block of the failing sequence alone, when it fails alone
            blk = next((ops[s:e] for s, e in bounds if s <= i < e), None)
            if blk is not None:
                cut = (blk, cut)
        out["ops"] = cut
        out["bad"] = bad
        errl = [l for l in a.stderr.splitlines() if l.strip() and not l.startswith("METHOD ")]
        out["san"] = common.san_line(a.stderr) or (f"[stderr: {errl[-1][:200]}]" if a.returncode != 0 and errl else "")
        if d is not None:
            out["div"] = (d, ops[min(d, len(ops) - 1)], al[d] if d < len(al) else "<none>", bl[d] if d < len(bl) else "<none>")
    return out


def impl_fails(ops, mode):
    a = run_harness(ops, mode, timeout=5)
    return oracle(ops, lines_of(a), a.returncode) is not None


def diverges(ops, mode):
    a, al, b, bl = run_both(ops, mode)
    return first_diff(al, bl, len(ops)) is not None


def _shrunk(cand, pred, deadline):
    """cand: op list, or (preferred small list, fallback list); no further reduction is tried once `deadline` has passed"""
    lists = list(cand) if isinstance(cand, tuple) else [cand]
    start = next((l for l in lists if pred(l)), None)
    if start is None:
        return lists[-1], False
    best = [start]

    def p2(l):
        if time.time() > deadline:
            return False
        if pred(l):
            best[0] = l
            return True
        return False
    common.shrink(start, p2, keep_head=0)
    return best[0], True


def check(tier, seed, res):
    """random op files + enumerated short sequences through harness (real iv_fd_epoll.c + real kernel) and `ivyreplay fdepoll`, in both
    poll methods: the reference oracle judges the implementation (res.impl_violations), then the two outputs are compared line by
    line (res.divergences)."""
    t0 = time.time()
    budget = QUICK_BUDGET_S if tier == "quick" else THOROUGH_BUDGET_S
    ok, log = build()
    if not ok:
        res.divergences.append(("harness fdepoll_h.c (iv_fd_epoll.c / iv_fd.c / iv_private.h) no longer compiles: " + log[-400:], None))
        return res
    okr, logr = ensure_replay()
    if not okr or not os.path.exists(common.REPLAY_BIN):
        res.divergences.append(("lake build ivyreplay failed: " + logr[-400:], None))
        return res
    rng = random.Random(f"c15epoll-{seed}")
    items = []
    if tier == "quick":
        nfiles, nops, ns2, ns3, groups, groups3 = 40, 300, 200, 200, [], []
    else:
        nfiles, nops, ns2, ns3 = 500, 600, 1500, 3000
        gsz = 700
        groups = [(s, min(s + gsz, enum_count(2))) for s in range(0, enum_count(2), gsz)]
        g3 = 4096
        groups3 = [(s, min(s + g3, enum_count(3))) for s in range(0, enum_count(3), g3)]
    rnd = [(f"rnd-{i}", gen_ops(random.Random(rng.getrandbits(64)), nops)) for i in range(nfiles)]
    e2 = enum_sample(2, random.Random(rng.getrandbits(64)), ns2)
    e3 = enum_sample(3, random.Random(rng.getrandbits(64)), ns3)
    modes = list(MODES)
    # interleave so that an early stop (budget) still covers every family in both modes
    fam_rnd = [(n, m, "ops", o) for n, o in rnd for m in modes]
    fam_enum = [(n, m, "ops", o) for n, o in e2 + e3 for m in modes]
    # every sequence on 2 objects, in both poll methods: grouped runs (ONE process runs many sequences, each followed by enum_reset,
    # which takes library + kernel + objects back to the start state; 161051 processes per method do not fit the time budget)
    fam_grp = [(f"enum2-all-{s}", m, "group", (2, s, e)) for (s, e) in groups for m in modes]
    # every sequence on 3 objects up to renaming: the same way, the poll method alternating from group to group (offset by the
    # seed): one thorough run covers every sequence once, two consecutive seeds cover every sequence in both methods
    fam_grp3 = [(f"enum3-all-{s}", modes[(gi + seed) % 2], "group", (3, s, e)) for gi, (s, e) in enumerate(groups3)]
    for tup in itertools.zip_longest(fam_rnd, fam_enum, fam_grp, fam_grp3):
        items += [x for x in tup if x is not None]
    if tier == "quick":
        ex = concurrent.futures.ThreadPoolExecutor(max_workers=common.NCPU)
    else:
        # the oracle is plain Python: worker processes instead of threads, forked before this run starts any thread of its own
        ex = concurrent.futures.ProcessPoolExecutor(max_workers=common.NCPU, mp_context=multiprocessing.get_context("fork"))
    dist = {k: [0, 0] for k in OPKINDS}
    total = 0
    ncases = {"random": 0, "enum_isolated": 0, "enum2_grouped_sequences": 0, "enum3_grouped_sequences": 0}
    findings = 0
    seen_env = set()
    stopped = None
    done_items = 0
    shrink_spent = [0.0]

    def shrink(cand, pred):
        """shrinking may use half of the tier's budget in total (a hanging mutant costs a timeout per attempt)"""
        ts = time.time()
        r = _shrunk(cand, pred, ts + max(0.0, budget * 0.5 - shrink_spent[0]))
        shrink_spent[0] += time.time() - ts
        return r
    try:
        for out in common.bounded_map(ex, _work, items, window=3 * common.NCPU):
            res.evaluations += out["cases"]
            done_items += 1
            total += out["nops"]
            fam = ("random" if out["name"].startswith("rnd-") else "enum2_grouped_sequences" if out["name"].startswith("enum2-all") else
                   "enum3_grouped_sequences" if out["name"].startswith("enum3-all") else "enum_isolated")
            ncases[fam] += out["cases"]
            for k, (g, e) in out["dist"].items():
                dist[k][0] += g
                dist[k][1] += e
            mode = out["mode"]
            if out.get("internal"):
                res.divergences.append((f"internal error of the checker on case {out['name']} ({mode}): {out['internal']}", None))
                findings += 1
            if out["env"] and mode not in seen_env:
                seen_env.add(mode)
                res.divergences.append(("environment: " + out["env"], None))
                findings += 1
            if out["bad"] is not None:
                i, short, msg = out["bad"]
                small, repro = shrink(out["ops"], lambda l: impl_fails(l, mode))
                a2 = run_harness(small, mode)
                bad2 = oracle(small, lines_of(a2), a2.returncode)
                if bad2 is not None:
                    short, msg = bad2[1], bad2[2]
                p = common.write_case("C15", out["name"] + "-" + mode, [f"# mode={mode}"] + small, tier, seed, ext="epollops")
                san = out["san"] or common.san_line(a2.stderr)
                res.impl_violations.append((f"C15:epoll:{short}", f"iv_fd_epoll.c ({mode}) breaks the registration contract: {msg} {san}".strip(), p))
                findings += 1
            elif out["div"] is not None:
                d, op, x, y = out["div"]
                small, repro = shrink(out["ops"], lambda l: diverges(l, mode))
                if repro:
                    a2, al2, b2, bl2 = run_both(small, mode)
                    d2 = first_diff(al2, bl2, len(small))
                    if d2 is not None:
                        d, op = d2, small[min(d2, len(small) - 1)]
                        x, y = (al2[d2] if d2 < len(al2) else "<none>"), (bl2[d2] if d2 < len(bl2) else "<none>")
                p = common.write_case("C15", out["name"] + "-" + mode, [f"# mode={mode}"] + small, tier, seed, ext="epollops")
                res.divergences.append((f"model Ivy.L0.FdEpoll and iv_fd_epoll.c ({mode}) disagree at op #{d} '{op}': impl={x} model={y} {out['san']}".strip(), p))
                findings += 1
            if findings >= 5:
                stopped = "5 findings"
                break
            if time.time() - t0 > budget * 0.9:
                stopped = f"time budget ({budget} s)"
                break
    finally:
        ex.shutdown(wait=True, cancel_futures=True)
    res.extra["epoll_ops_compared"] = total
    res.extra["epoll_ops_distribution"] = {k: {"generated": dist[k][0], "executed_not_refused": dist[k][1]} for k in OPKINDS}
    res.extra["epoll_cases"] = dict(ncases, planned_work_items=len(items), work_items_done=done_items, enum2_total=enum_count(2),
                                    enum3_total_up_to_renaming=178651, stopped_early=stopped, wall_s=round(time.time() - t0, 1))
    res.assumptions.append("epoll back end: kernel epoll_ctl semantics assumed as in Ivy.L0.FdEpoll.kernelCtl (ADD on a present descriptor -> EEXIST, "
                           "MOD/DEL on an absent one -> ENOENT, any op on a closed one -> EBADF); the model does not predict readiness: the events "
                           "of every poll are taken from the harness' wrapped epoll_wait/epoll_pwait2 and must satisfy eventsOk; handlers are "
                           "passive; one thread; descriptors are AF_UNIX stream socketpairs")
    return res


def replay(path):
    """re-run a .epollops case (or a replay-*.txt written by common.finish for a 'C15:epoll:' signature)"""
    raw = [l.strip() for l in open(path)]
    mode = next((m.group(1) for l in raw if l.startswith("#") for m in [re.search(r"\bmode=(\S+)", l)] if m), None)
    ops = [l for l in raw if l and not l.startswith("#")]
    ok, log = build()
    if not ok:
        print(log)
        return 2
    ensure_replay()
    rc = 0
    for mode in ([mode] if mode in MODES else list(MODES)):
        print(f"=== poll method {mode}")
        a, al, b, bl = run_both(ops, mode)
        if method_of(a.stderr) != mode:
            print(f"--- environment: library selected '{method_of(a.stderr)}'")
            rc = 1
        for i, op in enumerate(ops):
            x, y = (al[i] if i < len(al) else "<none>"), (bl[i] if i < len(bl) else "<none>")
            print(f"#{i} {op}\n    impl : {x}" + ("" if x == y else f"\n    model: {y}"))
        err = "\n".join(l for l in a.stderr.splitlines() if not l.startswith("METHOD "))
        if err.strip():
            print("--- implementation stderr:", common.san_line(err) or err.strip().splitlines()[-1])
        bad = oracle(ops, al, a.returncode)
        print("--- oracle:", bad[2] if bad else "ok")
        if bad or a.returncode != 0 or al != bl:
            rc = 1
    return rc
