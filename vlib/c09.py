"""C09: iv_event_raw — T-sched: the real library under the deterministic multi-thread engine (harness/mt_h.c +
mt_proc.c + the C09 extension harness/mt_raw.c) runs generated scenarios in the three transport configurations
(eventfd2 / old eventfd / pipe fallback); every log is (a) replayed through the Lean LTS Ivy.L2.Raw by
`ivyreplay raw` (every register/post/write/drain/handler record must be an enabled action and every white-box
observation must equal the model's state) and (b) judged by an implementation-only oracle that states C09 on the
log alone.  The mapping log record -> LTS action is done in the Lean driver (lean/Ivy/Drv/Raw.lean)."""
import collections, concurrent.futures, hashlib, os, random, re, subprocess, tempfile
from . import common
from .l1 import shrink_scenario, san_kind

PROP = "C09"
LEANCHECK_MODULES = ["Ivy.L2.Raw", "Ivy.L2.RawSpec", "Ivy.L2.RawProofs", "Ivy.Props.C09"]
HARNESS = os.path.join(common.BUILD, "mt_c09")
SCRATCH = os.path.join(common.BUILD, "scn")
EXTRA_WRAPS = ["iv_fd_register", "iv_fd_unregister", "pipe", "close"]
TRANSPORTS = [("eventfd2", ""), ("eventfd-old", "noeventfd2"), ("pipe", "noeventfd")]
EXCLUDES = ["", "exclude epoll-timerfd", "exclude epoll-timerfd epoll", "exclude epoll-timerfd epoll ppoll"]
SIGS = [10, 12]


def build():
    return common.build_mt(out=HARNESS, extra_sources=[os.path.join(common.VERIF, "harness", "mt_raw.c")], extra_wraps=EXTRA_WRAPS)


# ---------------------------------------------------------------- implementation-only oracle
def oracle(log, rc=0, stderr=""):
    """C09 stated on the implementation's own log. Returns None or (kind, message); kind is stable."""
    objs = {}        # id -> dict
    pend_reg = {}    # thread -> object id whose rawRegister is in progress
    stacks = collections.defaultdict(list)   # thread -> open RAWPOSTs [(id, line)]
    disp = {}        # id -> [avail, cb_seen]
    limit = False
    fin = False
    quiescent = None
    for n, l in enumerate(log, 1):
        w = l.split()
        if len(w) < 2:
            continue
        t, rec = w[0], w[1]
        if rec in ("WAITLIMIT", "CBLIMIT", "STEPLIMIT"):
            limit = True
        elif rec == "FIN":
            fin = True
        elif rec == "QUIESCENT":
            quiescent = l
        elif rec.startswith("HARNESS-ERROR") or w[0].startswith("HARNESS-ERROR"):
            return ("harness", f"line {n}: {l}")
        elif rec == "FATAL":
            return ("fatal", f"line {n}: the library called iv_fatal: {' '.join(w[2:])[:120]}")
        elif rec == "CLOSE-EBADF":
            return ("double-close", f"line {n}: the library closed descriptor {w[2]} which is not open (closed twice): in a threaded program that number may "
                    "already belong to another event object, whose posts are then lost")
        elif rec == "API" and w[2] == "rawRegister":
            pend_reg[t] = w[3]
        elif rec == "RET" and t in pend_reg:
            i = pend_reg.pop(t)
            if w[2] == "0":
                objs[i] = dict(reg=True, owner=t, need=None, nok=0, ncb=0, regline=n)
        elif rec == "API" and w[2] == "rawUnregister":
            if w[3] in objs:
                objs[w[3]]["reg"] = False
        elif rec == "RAWFLAGS":
            kvs = dict(x.split("=", 1) for x in w[3:] if "=" in x)
            if kvs.get("r_nonblock") != "1" or kvs.get("w_nonblock") != "1":
                return ("blocking-descriptor", f"line {n}: after registration {w[2]} has r_nonblock={kvs.get('r_nonblock')} w_nonblock={kvs.get('w_nonblock')} ({kvs.get('kind')})")
        elif rec == "RAWPOST":
            i = w[2]
            cnt = int(next((x[2:] for x in w if x.startswith("n=")), "1"))
            stacks[t].append([i, n, cnt, 0])
            o = objs.get(i)
            if o and o["reg"] and cnt > 0:
                o["need"] = n
        elif rec == "RAWPOSTED":
            if not stacks[t] or stacks[t][-1][0] != w[2]:
                return ("harness", f"line {n}: RAWPOSTED without RAWPOST")
            stacks[t].pop()
        elif rec == "WRITE":
            i = w[2]
            kvs = dict(x.split("=", 1) for x in w[3:] if "=" in x)
            stale = "stale" in w
            if kvs.get("nonblock") != "1":
                return ("blocking-descriptor", f"line {n}: iv_event_raw_post writes to a descriptor without O_NONBLOCK ({l.strip()})")
            if stale:
                continue
            if kvs.get("errno") != "EINTR" and stacks[t] and stacks[t][-1][0] == i:
                # one iv_event_raw_post = one write (repeated only after EINTR): more writes than calls means a call went back to
                # write after EAGAIN or an error, i.e. it waits for room in the pipe instead of returning
                stacks[t][-1][3] += 1
                if stacks[t][-1][3] > stacks[t][-1][2]:
                    return ("poster-spins", f"line {n}: iv_event_raw_post on {i} (entered at line {stacks[t][-1][1]}, {stacks[t][-1][2]} call(s)) issued more "
                                            f"writes than calls after {kvs.get('errno')}: posting waits for room instead of returning")
            o = objs.get(i)
            if kvs.get("errno") == "0":
                if o and o["reg"]:
                    o["need"] = n
                    if o.get("wneed") is None:
                        o["wneed"] = n
                    o["nok"] += 1
            elif kvs.get("errno") == "EAGAIN":
                if o and o["reg"]:
                    o["need"] = n
            elif kvs.get("errno") != "EINTR":
                return ("write-error", f"line {n}: the post's write failed with {kvs.get('errno')} on a registered object: the post is lost")
        elif rec == "BLOCKED-WRITE":
            return ("blocking-descriptor", f"line {n}: a post would block")
        elif rec == "BLOCKED-READ":
            return ("blocking-descriptor", f"line {n}: the owner's drain of {w[2]} would block (read end without O_NONBLOCK, nothing to read)")
        elif rec == "WAIT":
            for o in objs.values():
                if o["reg"] and o["owner"] == t and o.get("wneed") is not None:
                    o["armed"] = True
        elif rec == "WRET" and w[2].startswith("n=") and not w[2].startswith("n=-"):
            # a kernel poll that was ENTERED after the post's write completed, and returned (not interrupted): the descriptor is
            # readable the whole time, so the very first such poll reports it; ten of them without the handler = the owner's loop
            # does not watch the descriptor (any more)
            for i, o in objs.items():
                if o["reg"] and o["owner"] == t and o.get("wneed") is not None and o.get("armed"):
                    o["polls"] = o.get("polls", 0) + 1
                    if o["polls"] >= 10:
                        return ("lost-post", f"line {n}: {i} (owner {t}): a post whose write completed at line {o['wneed']} was not followed by the handler "
                                             f"although the owner has since entered and completed 10 kernel polls")
        elif rec == "DISP":
            disp[w[2]] = [int(w[3].split("=")[1]), False]
        elif rec == "CB" and w[2].startswith("r"):
            i = w[2]
            o = objs.get(i)
            if o is None or not o["reg"]:
                return ("handler-unregistered", f"line {n}: handler of {i} called while it is not registered")
            if t != o["owner"]:
                return ("wrong-thread", f"line {n}: handler of {i} runs in {t}, registered by {o['owner']}")
            o["ncb"] += 1
            o["need"] = None
            o["armed"] = False; o["polls"] = 0; o["wneed"] = None
            if i in disp:
                disp[i][1] = True
                if disp[i][0] == 0:
                    return ("spurious-handler", f"line {n}: handler of {i} called although the drain found nothing")
            if o["ncb"] > o["nok"]:
                return ("spurious-handler", f"line {n}: handler of {i} called {o['ncb']} times with only {o['nok']} accepted post writes")
        elif rec == "DISPEND":
            d = disp.pop(w[2], None)
            if d and d[0] > 0 and not d[1]:
                return ("drained-no-handler", f"line {n}: {w[2]} was drained ({d[0]} pending) but its handler was not called")
    if rc != 0:
        return ("san:" + san_kind(stderr or "abort"), f"harness exit {rc}: {common.san_line(stderr) or (stderr.strip().splitlines() or ['?'])[-1][:200]}")
    if limit:
        return None     # nothing can be concluded about the tail
    if not fin:
        return ("harness", "log does not end with FIN")
    for t, st in stacks.items():
        if st:
            return ("poster-stuck", f"iv_event_raw_post on {st[-1][0]} entered at line {st[-1][1]} by {t} never returned ({(quiescent or 'end of run').strip()})")
    for i, o in objs.items():
        if o["reg"] and o["need"] is not None:
            return ("lost-post", f"{i} (owner {o['owner']}): a post whose write completed at line {o['need']} was never followed by the handler; "
                                 f"run ended with {(quiescent or 'all threads done').strip()}")
    return None


def cb_sequence(log):
    return [(l.split()[0], l.split()[2]) for l in log if " CB r" in l]


# ---------------------------------------------------------------- scenario generator
def _post(rng, raws):
    r = rng.choice(raws)
    k = rng.random()
    if k < 0.55:
        return f"rawpost r{r}"
    if k < 0.75:
        return f"rawpost r{r} {rng.choice([2, 3, 5, 9])}"
    if k < 0.93:
        return f"childpost r{r}" + (f" {rng.choice([2, 4])}" if rng.random() < 0.4 else "")
    return "yield"


def gen_random(rng, fam):
    """threads 0..n-1; each owns 0-2 raw events; posters are threads (straight-line code and timer handlers),
    handlers, scenario-defined signal handlers and forked-child stand-ins"""
    nth = rng.choice([2, 2, 3])
    nraw = rng.choice([1, 1, 2, 3])
    raws = list(range(1, nraw + 1))
    owner = {r: (0 if r == 1 else rng.randrange(nth)) for r in raws}
    cfg = [f"seed={rng.randrange(1, 10**6)}", f"stay={rng.choice([20, 55, 55, 80])}", "{T}"]
    if rng.random() < 0.35:
        cfg.append("eintr=%x" % rng.getrandbits(32) if rng.random() < 0.5 else "eintr=%x" % (rng.getrandbits(32) & rng.getrandbits(32)))
    burst = fam == "burst"
    big = 0
    if burst:
        if rng.random() < 0.6:
            cfg.append("pipesz=4096"); big = rng.choice([4200, 5000, 9000])
        else:
            big = 70000
        cfg += ["steplimit=900000", "waitlimit=90000", "cblimit=90000"]
    lines = ["cfg " + " ".join(cfg), rng.choice(EXCLUDES) or "exclude"]
    sig_actions = {}
    if fam in ("signal", "mix") or rng.random() < 0.3:
        for s in SIGS[:rng.choice([1, 2])]:
            acts = [_post(rng, raws) for _ in range(rng.choice([1, 1, 2]))]
            if rng.random() < 0.3:
                acts.insert(rng.randrange(len(acts) + 1), "yield")
            sig_actions[s] = acts
    burst_done = False
    for t in range(nth):
        mine = [r for r in raws if owner[r] == t]
        lines.append(f"thread {t}")
        for r in mine:
            lines.append(f"obj raw r{r}")
        has_timer = (not mine and rng.random() < 0.7) or (mine and rng.random() < 0.3)
        if has_timer:
            lines.append(f"obj timer t{t}")
        pre = []
        if t == 0:
            for s, acts in sig_actions.items():
                pre.append(f"sighandler {s} : " + " , ".join(acts))
        if t == 0 and mine and fam != "burst" and rng.random() < 0.15:
            pre.append("close0")        # the program runs with stdin closed: the event's descriptor is number 0
        for r in mine:
            pre += [f"rawreg r{r}", f"rawflags r{r}"]
            if rng.random() < 0.2:
                pre.append(f"rawspur r{r}")
        if mine and rng.random() < 0.3:
            pre.append(_post(rng, mine))
        if burst and mine and not burst_done and rng.random() < 0.5:
            pre.append(f"rawpost r{mine[0]} {big}"); burst_done = True
        if has_timer:
            pre.append(f"trel t{t} {rng.choice([100, 1000, 5000])}")
        if not mine and not has_timer:
            for _ in range(rng.choice([2, 4, 8])):
                k = rng.random()
                if k < 0.45:
                    pre.append("yield")
                elif k < 0.85:
                    pre.append(_post(rng, raws))
                elif sig_actions:
                    pre.append(f"deliver {rng.choice(list(sig_actions))} T{rng.randrange(nth)}")
            if burst and not burst_done and rng.random() < 0.6:
                pre.append(f"rawpost r{rng.choice(raws)} {big}"); burst_done = True
        if pre:
            lines.append("do " + " ; ".join(pre))
        if mine or has_timer:
            lines.append("main")
        if has_timer:
            shots = rng.choice([1, 2, 3, 5])
            for n in range(1, shots + 1):
                acts = [_post(rng, raws) for _ in range(rng.choice([1, 1, 2]))]
                if sig_actions and rng.random() < 0.4:
                    acts.append(f"deliver {rng.choice(list(sig_actions))} T{rng.randrange(nth)}")
                if n < shots:
                    acts.append(f"trel t{t} {rng.choice([10, 500, 3000])}")
                lines.append(f"on t{t} {n} : " + " ; ".join(acts))
        for r in mine:
            for n in range(1, rng.choice([2, 3, 5])):
                acts = []
                for _ in range(rng.choice([0, 1, 1, 2, 3])):
                    k = rng.random()
                    if k < 0.30:
                        acts.append("yield")
                    elif k < 0.55:
                        acts.append(f"rawpost r{r}")                 # post to itself from its own handler
                    elif k < 0.75:
                        acts.append(_post(rng, raws))
                    elif k < 0.88 and sig_actions:
                        acts += [f"deliver {rng.choice(list(sig_actions))} T{t}", "yield"]   # interrupts the owner inside its handler
                    elif k < 0.91 and len(mine) > 1:
                        acts.append(f"rawspur r{rng.choice([x for x in mine if x != r])}")   # spurious wake-up of a sibling
                    elif k < 0.95:
                        acts += [f"rawunreg r{r}", f"rawreg r{r}", f"rawflags r{r}"]
                    else:
                        acts.append(f"rawunreg r{r}")
                if burst and not burst_done and rng.random() < 0.5:
                    acts.append(f"rawpost r{r} {big}"); burst_done = True
                if acts:
                    lines.append(f"on r{r} {n} : " + " ; ".join(acts))
            if rng.random() < 0.5:
                lines.append(f"on r{r} {rng.choice([3, 4, 6, 9])} : rawunreg r{r}")
            if rng.random() < 0.3:
                lines.append(f"on r{r} * : yield")
        if mine:
            for n in range(rng.choice([0, 1, 2])):
                k = rng.random()
                w = rng.randrange(0, 4)
                if k < 0.6:
                    lines.append(f"at {w} : {_post(rng, raws)}")
                elif sig_actions:
                    lines.append(f"at {w} : deliver {rng.choice(list(sig_actions))} T{t}")
    for n in range(rng.choice([0, 1, 2, 3])):
        if sig_actions:
            lines.append(f"idle {n} : deliver {rng.choice(list(sig_actions))} T{rng.randrange(nth)}")
        else:
            lines.append(f"idle {n} : clk 1000")
    if burst and not burst_done:
        lines.insert(lines.index("thread 0") + 2, f"do rawreg r1 ; rawpost r1 {big}")
    return lines, ("none")


def gen_regfail(rng):
    """registrations that fail for lack of descriptors (the k-th eventfd call gets EMFILE) before, between and after successful ones:
    a failed registration must change nothing for the objects that are registered or get registered later"""
    nfail = rng.choice([1, 2, 2, 3])
    first_ok = rng.choice([0, 1, 1, 2])            # successful registrations before the failures
    cfg = [f"seed={rng.randrange(1, 10**6)}", f"stay={rng.choice([20, 55, 80])}", "{T}"]
    # every registration makes one eventfd-family call that reaches the kernel in the eventfd transports
    for k in range(nfail):
        cfg.append(f"eventfd-emfile={first_ok + k + 1}")
    lines = ["cfg " + " ".join(cfg), rng.choice(EXCLUDES) or "exclude", "thread 0", "obj raw r1", "obj raw r2", "obj raw r3", "obj timer t0"]
    regs = [f"rawreg r{i + 1} ; rawflags r{i + 1}" for i in range(first_ok)]
    victim = first_ok + 1
    regs += [f"rawreg r{victim}"] * nfail + [f"rawreg r{victim} ; rawflags r{victim}"]
    posts = [f"rawpost r{i + 1}" for i in range(victim)]
    lines.append("do " + " ; ".join(regs + posts + ["trel t0 1000"]))
    lines.append("on t0 1 : " + " ; ".join(posts))
    lines.append("main")
    lines += ["thread 1", "do yield ; " + " ; yield ; ".join(posts), "idle 0 : clk 2000"]
    return lines, "none"


def rgs(n, k):
    """restricted growth strings of length n over at most k letters (sequences up to renaming of the objects)"""
    out = [[0]]
    for _ in range(n - 1):
        out = [s + [c] for s in out for c in range(min(max(s) + 1, k - 1) + 1)]
    return out


def regorder_cases(tier):
    """Enumerated: every order (up to renaming) of 5 (thorough: 4-6) register/unregister toggles on three raw events of one thread,
    made before iv_main or from a timer handler inside it, under every poll method; afterwards every object that is registered is
    posted by its owner and by another thread and must be called.  Reaches back-end bookkeeping that depends on the ORDER in which
    descriptors came and went (slots moved on removal, re-used slot numbers), which random scenarios with 1-3 objects seldom produce."""
    cases = []
    for n in ([5] if tier == "quick" else [4, 5, 6]):
        for idx, seq in enumerate(rgs(n, 3)):
            regd, toggles = set(), []
            for o in seq:
                r = o + 1
                if r in regd:
                    regd.discard(r); toggles.append(f"rawunreg r{r}")
                else:
                    regd.add(r); toggles += [f"rawreg r{r}", f"rawflags r{r}"]
            if not regd:
                continue
            posts = [f"rawpost r{r}" for r in sorted(regd)]
            for ex in EXCLUDES:
                for inside in ([idx % 2] if tier == "quick" else [0, 1]):
                    lines = [f"cfg seed={1 + idx} stay=55 {{T}}", ex or "exclude", "thread 0", "obj raw r1", "obj raw r2", "obj raw r3", "obj timer t0", "obj timer t1"]
                    if inside:
                        lines += ["do trel t0 100", "main", "on t0 1 : " + " ; ".join(toggles + ["trel t1 1000"] + posts[-1:])]
                    else:
                        lines += ["do " + " ; ".join(toggles + ["trel t1 1000"] + posts[:1]), "main"]
                    lines.append("on t1 1 : " + " ; ".join(posts))
                    lines += [f"on r{r} 2 : rawunreg r{r}" for r in sorted(regd)]
                    lines += ["thread 1", "do yield ; yield ; " + " ; yield ; ".join(posts), "idle 0 : clk 2000", "idle 1 : clk 2000"]
                    name = "regorder-" + "".join(str(o + 1) for o in seq) + "-" + (ex.replace("exclude ", "no-").replace(" ", "+") or "all") + ("-inside" if inside else "")
                    cases.append((name, "regorder", lines, "none"))
    return cases


def gen_pingpong(rng):
    """at most one post in flight per object at any time: no coalescing is possible, so the callback sequence must
    be IDENTICAL in the three transports and under every poll method"""
    rounds = rng.choice([3, 5, 8])
    ctx = rng.choice(["rawpost", "childpost", "signal"])
    lines = [f"cfg seed={rng.randrange(1, 10**6)} stay={rng.choice([20, 55, 80])} {{T}}", rng.choice(EXCLUDES) or "exclude",
             "thread 0", "obj raw r1"]
    lines.append("do " + ("sighandler 10 : rawpost r2 ; " if ctx == "signal" else "") + "rawreg r1 ; rawflags r1")
    lines.append("main")
    if ctx == "signal":
        lines.append("on r1 * : deliver 10 T0 ; yield")
    else:
        lines.append(f"on r1 * : {ctx} r2")
    lines.append(f"on r1 {rounds} : rawunreg r1")
    lines += ["thread 1", "obj raw r2", "obj timer t1", "do rawreg r2 ; rawflags r2 ; trel t1 1000", "main",
              "on t1 * : rawpost r1", f"on r2 {rounds} : rawunreg r2", "on r2 * : ?trel t1 1000"]
    return lines, "exact"


FAMILIES = ["threads", "signal", "mix", "burst", "pingpong", "regfail"]


def gen_cases(tier, seed, search=False):
    per = {"threads": 40, "signal": 40, "mix": 40, "burst": 10, "pingpong": 12, "regfail": 16} if tier == "quick" else \
          {"threads": 700, "signal": 700, "mix": 700, "burst": 120, "pingpong": 80, "regfail": 120}
    for fam in FAMILIES:
        for i in range(per[fam]):
            s = (seed + (7 if search else 0)) * 100003 + (50000 if search else 0) + i * 5 + FAMILIES.index(fam)
            rng = random.Random(s)
            lines, cmp_mode = gen_pingpong(rng) if fam == "pingpong" else gen_regfail(rng) if fam == "regfail" else gen_random(rng, fam)
            yield (f"{fam}-{s}", fam, lines, cmp_mode)
    if not search:
        yield from regorder_cases(tier)
    if not search:
        # systematic schedule enumeration (vlib/sched.py) on a few small multi-thread scenarios; the schedules are found on the
        # eventfd2 instantiation and then run, like every case, in all three transports
        from . import sched
        erng = random.Random(seed * 7919 + 909)
        # (a corpus scenario with a burst of thousands of posts is no base for a systematic sweep: every one of its schedules costs as much
        # as the burst itself; it still runs, as it is, with the corpus)
        bases = [(c[0], instantiate(c[2], ""), c[2]) for c in corpus_cases()
                 if not any(re.search(r"rawpost r\d+ \d{3,}|childpost r\d+ \d{3,}|steplimit=9", l) for l in c[2])]
        k = 0
        while len(bases) < 40 and k < 2000:
            k += 1
            ls, _ = gen_random(erng, "threads")
            if sum(1 for l in ls if l.startswith("thread")) >= 2 and len(ls) <= 26 and not any("70000" in l or "4200" in l for l in ls):
                bases.append((f"gen{len(bases)}", instantiate(ls, ""), ls))
        def mk(name, lines, base):
            tok = next(t for t in lines[[i for i, l in enumerate(lines) if l.startswith("cfg")][0]].split() if t.startswith("sched="))
            raw = list(base[2])
            ci = [i for i, l in enumerate(raw) if l.startswith("cfg")]
            if ci:
                raw[ci[0]] = raw[ci[0]] + " " + tok
            else:
                raw.insert(0, "cfg {T} " + tok)
            return (name, "enum", raw, "none")
        yield from sched.enum_cases(PROP, HARNESS, bases, tier, os.path.join(common.BUILD, "sched-c09"), mk=mk,
                                    want=2 if tier == "quick" else 6, budget=100 if tier == "quick" else 1500)


def corpus_cases():
    d = os.path.join(common.VERIF, "corpus", PROP)
    out = []
    if os.path.isdir(d):
        for f in sorted(os.listdir(d)):
            if f.endswith(".scn"):
                lines = [l.rstrip("\n") for l in open(os.path.join(d, f)) if l.strip() and not l.startswith("#")]
                out.append(("corpus-" + f[:-4], "corpus", lines, "none"))
    return out


# ---------------------------------------------------------------- running
class Run:
    __slots__ = ("name", "fam", "transport", "lines", "log", "rc", "err", "verdict", "diverge", "envbad", "cov", "replay_ok", "end")


def instantiate(lines, tcfg):
    out = []
    for l in lines:
        if l.startswith("cfg "):
            l = " ".join(x for x in l.replace("{T}", tcfg).split())
        if l.strip() == "exclude":
            continue
        out.append(l)
    return out


def run_one(name, fam, lines, transport, tcfg, with_model=True):
    os.makedirs(SCRATCH, exist_ok=True)
    inst = instantiate(lines, tcfg)
    fd, path = tempfile.mkstemp(suffix=".scn", dir=SCRATCH)
    with os.fdopen(fd, "w") as f:
        f.write("\n".join(inst) + "\n")
    env = dict(os.environ, ASAN_OPTIONS="detect_stack_use_after_return=1:detect_leaks=0:abort_on_error=0", UBSAN_OPTIONS="print_stacktrace=0")
    try:
        a = subprocess.run([HARNESS, path], stdout=subprocess.PIPE, stderr=subprocess.PIPE, text=True, timeout=75, env=env)
        out, err, rc = a.stdout, a.stderr, a.returncode
    except subprocess.TimeoutExpired as e:
        out = e.stdout.decode() if isinstance(e.stdout, bytes) else (e.stdout or "")
        err, rc = "TIMEOUT", -9
    finally:
        os.unlink(path)
    r = Run()
    r.name, r.fam, r.transport, r.lines, r.log, r.rc, r.err = name, fam, transport, inst, out, rc, err
    loglines = out.splitlines()
    r.verdict = oracle(loglines, rc, err)
    r.end = next((w for w in ("QUIESCENT", "ALLDONE", "WAITLIMIT", "CBLIMIT", "STEPLIMIT", "FATAL", "BLOCKED-WRITE") if f" {w}" in out[-3000:]), "SECTION-DONE")
    r.diverge, r.envbad, r.cov, r.replay_ok = [], [], {}, True
    if with_model:
        b = common.run_cmd([common.REPLAY_BIN, "raw"], out, timeout=300)
        r.replay_ok = b.returncode == 0 and "SUMMARY" in b.stdout
        for l in b.stdout.splitlines():
            if l.startswith(("DIVERGE", "bad-log")):
                r.diverge.append(l)
            elif l.startswith("ENVBAD"):
                r.envbad.append(l)
            elif l.startswith("COV "):
                _, k, n = l.split()
                r.cov[k] = int(n)
    return r


def diverging(r):
    if r.diverge:
        return "model Ivy.L2.Raw does not predict iv_event_raw_posix.c: " + r.diverge[0]
    if r.envbad:
        return "kernel contract of the model violated: " + r.envbad[0]
    if not r.replay_ok:
        return "replayer failed on this log"
    return None


def nontrivial(r):
    c = r.cov
    return bool(c.get("write-during-handler") or c.get("write-eagain") or c.get("post-from-signal") or c.get("post-from-child")
                or c.get("drain-partial"))



def raw_lost_post_oracle(log):
    """loop-harness log (one thread): a post to a registered iv_event_raw object (RAWPOST rK) must be followed by its handler (CB rK) before
    the object is unregistered or the run ends; posts made while the handler has not yet run coalesce"""
    owed = {}            # object -> line of the oldest unanswered post
    waits_since = {}     # object -> kernel returns since that post
    reg = set()
    for n, l in enumerate(log.splitlines(), 1):
        w = l.split()
        if not w:
            continue
        if w[0] == "API" and len(w) > 2 and w[1] == "rawRegister":
            pend = w[2]
        elif w[0] == "RET" and "pend" in dir() and pend:
            if w[1] == "0":
                reg.add(pend)
            pend = None
        elif w[0] == "API" and len(w) > 2 and w[1] == "rawUnregister":
            reg.discard(w[2]); owed.pop(w[2], None)
        elif w[0] == "RAWPOST" and w[1] in reg:
            owed.setdefault(w[1], n)
            waits_since.setdefault(w[1], 0)
        elif w[0] == "CB" and w[1] in owed:
            owed.pop(w[1]); waits_since.pop(w[1], None)
        elif w[0] == "WRET":
            # the loop came back from the kernel: a post made before this wait is delivered before the loop waits again; three returns
            # without the handler = the post is lost (e.g. the descriptor stays readable but is never dispatched: the loop spins)
            for k in list(waits_since):
                waits_since[k] += 1
                if waits_since[k] >= 4 and k in owed:
                    return (f"post to {k} (line {owed[k]}) was never followed by its handler although the loop returned from the kernel "
                            f"{waits_since[k]} times afterwards and {k} stayed registered")
        elif w[0] in ("WAITLIMIT", "CBLIMIT"):
            return None     # inconclusive
    if owed and ("BLOCKED" in log or "EOF" in log):
        k, n = sorted(owed.items(), key=lambda x: x[1])[0]
        return f"post to {k} (line {n}) was never followed by its handler although {k} stayed registered until the run ended"
    return None


def single_loop_part(tier, seed, res):
    """iv_event_raw inside ONE loop: several objects posted in the same poll batch while the handler dispatched first calls iv_quit or
    retracts another source (the enumerated loop families of C01-C07), iv_main re-entered; judged by the lost-post rule on the loop
    harness' log and replayed through the L1 machine"""
    from . import l1, loopgen
    ok, log = l1.build()
    if not ok:
        res.divergences.append(("loop harness no longer builds: " + log[-300:], None))
        return
    cases = [c for c in loopgen.quit_cases() if "-raw-batch-" in c[0]] + [c for c in loopgen.retract_cases(seed) if "-raw-" in c[0]]
    n = 0
    with concurrent.futures.ThreadPoolExecutor(max_workers=common.NCPU) as ex:
        for r in common.bounded_map(ex, lambda c: l1.run_case(*c), cases):
            n += 1
            res.evaluations += 1
            msg = raw_lost_post_oracle(r.log)
            last = (r.log.strip().splitlines() or [""])[-1]
            if not msg and r.san and "TIMEOUT" in r.san and last.split()[:1] in (["RAWPOST"], ["XRAWPOST"]):
                msg = f"iv_event_raw_post never returned (the run was cut by the watchdog inside it; log ends with '{last}'): posting never blocks the poster"
                pth = common.write_case(PROP, r.name, ["# single-loop case (replayed by vlib/l1.py)"] + r.lines, tier, seed, ext="scn")
                res.impl_violations.append(("raw:loop:poster-stuck", "implementation violates C09: " + msg, pth))
                break
            if msg:
                small = l1.shrink_scenario(r.lines, lambda ls: raw_lost_post_oracle(l1.run_case("s", ls).log) is not None, budget=60)
                pth = common.write_case(PROP, r.name, ["# single-loop case (replayed by vlib/l1.py)"] + small, tier, seed, ext="scn")
                res.impl_violations.append(("raw:loop:lost-post", "implementation violates C09: " + msg, pth))
                break
            d = l1.diverging(r)
            if d and not any("single-loop part" in x[0] for x in res.divergences):
                res.divergences.append(("single-loop part: " + d[:300], common.write_case(PROP, r.name + "-div", ["# single-loop case (replayed by vlib/l1.py)"] + r.lines, tier, seed, ext="scn")))
    res.extra["single_loop_cases"] = n


def run(tier, seed, proof):
    res = common.Result()
    res.rule = ("(plus a single-loop part: the enumerated loop families with several raw objects posted in one poll batch while the first handler calls "
                "iv_quit or retracts another source, lost-post rule + L1 replay) generated multi-thread scenarios (families threads / signal / mix / burst / pingpong / regfail, see vlib/c09.py) on the real library "
                "under the deterministic scheduler, each in the three transports (eventfd2, old eventfd, pipe fallback) and rotating over "
                "the four poll methods: 2-3 threads, 1-3 raw events, posts from the owner, other threads, timer handlers, the object's own "
                "handler, scenario-defined signal handlers delivered into any thread (also into the owner while it is inside its handler or "
                "blocked) and forked-child stand-ins; bursts of 4200-70000 posts (beyond the pipe capacity); injected EINTR; simulated "
                "spurious wake-ups; unregister/re-register. Every log is replayed through the Lean LTS (each record = an enabled action; "
                "kernel-object content before every drain, descriptor flags, O_NONBLOCK at every write, handler thread compared) and judged "
                "by the log-only oracle (lost post at quiescence, blocking descriptor, poster stuck, fatal, wrong thread, spurious handler, "
                "drained-without-handler); pingpong cases must give identical callback sequences in all transports. "
                "non-trivial = a post was written while the owner was inside the handler, or got EAGAIN on a full pipe, or came from a "
                "signal handler or a child, or a drain left data behind; distinct by hash of the log")
    res.assumptions = [
        "kernel contract (KObj in Ivy/L2/Raw.lean): eventfd counter semantics; a non-blocking 1-byte pipe write succeeds or fails with "
        "EAGAIN and fails only when the pipe holds data; a pipe read takes min(content, count); a read on an empty non-blocking object "
        "gives EAGAIN; availability of eventfd2/eventfd is constant over the life of the process; checked on every log (ENVBAD)",
        "LoopSpec (Ivy/L2/RawSpec.lean): the owner is never blocked while a registered descriptor with an in-handler is readable "
        "(level-triggered dispatch; L1 properties C02/C03) — assumed in C09_delivered_when_blocked, checked at every QUIESCENT of every log",
        "signal context is modelled as an interleaving at the thread's scheduling points (wrapped calls); true asynchronous delivery "
        "between arbitrary instructions and async-signal-safety of write(2) are outside the model",
        "a forked child is represented by a byte copy of the object plus a dup() of its write descriptor used from a harness thread "
        "(same open file description, as after fork); a real second process is not created",
        "a registration failing for lack of descriptors (EMFILE on the k-th eventfd call, family regfail) is a no-op of the model; pipe EOF (all writers closed) cannot occur while "
        "the object holds its own write end",
        "the in-handler of the raw event's iv_fd is routed through a logging trampoline (harness/mt_raw.c); the library code is unmodified",
    ]
    ok, log = build()
    if not ok:
        res.divergences.append(("T-sched harness with the C09 extension no longer builds against /repo: " + log[-500:], None))
        return res
    if not proof["driver_ok"]:
        return res
    for complaint in oracle_selftest():
        res.divergences.append((complaint, None))
    res.extra["oracle_selftest_bad_logs_rejected"] = len(_BAD_LOGS)
    cases = corpus_cases() + list(gen_cases(tier, seed))
    jobs = [(c, tr) for c in cases for tr in TRANSPORTS]
    cov = collections.Counter()
    ends = collections.Counter()
    fams = collections.Counter()
    viol, div = [], []
    groups = collections.defaultdict(dict)
    cmp_mode = {c[0]: c[3] for c in cases}
    with concurrent.futures.ThreadPoolExecutor(max_workers=common.NCPU) as ex:
        for r in common.bounded_map(ex, lambda j: run_one(j[0][0], j[0][1], j[0][2], j[1][0], j[1][1]), jobs):
            res.evaluations += 1
            ends[r.end] += 1
            fams[f"{r.fam}/{r.transport}"] += 1
            for k, v in r.cov.items():
                cov[k] += v
            m = re.search(r"INIT method=(\S+)", r.log)
            if m:
                cov["method-" + m.group(1)] += 1
            if nontrivial(r):
                res.nontrivial.add(hashlib.sha1(r.log.encode()).hexdigest()[:16])
            groups[r.name][r.transport] = r
            if r.verdict:
                viol.append((r, r.verdict))
            else:
                d = diverging(r)
                if d:
                    div.append((r, d))
            if len(res.samples) < 2 and nontrivial(r) and not r.verdict and len(r.log) < 20000:
                res.samples.append({"case": r.name, "transport": r.transport, "scenario": r.lines[:24], "log_head": r.log.splitlines()[:30]})
    # "behaves identically": deterministic no-coalescing family must give the same callback sequence everywhere
    compared = 0
    for name, g in groups.items():
        if cmp_mode.get(name) != "exact" or len(g) != 3 or any(x.verdict for x in g.values()):
            continue
        compared += 1
        seqs = {tr: cb_sequence(x.log.splitlines()) for tr, x in g.items()}
        base = seqs["eventfd2"]
        for tr, s in seqs.items():
            if s != base:
                viol.append((g[tr], ("transport-differs", f"callback sequence with transport {tr} differs from eventfd2 on a scenario without coalescing: "
                                                        f"{s[:12]} vs {base[:12]}")))
                break
    seen = set()
    for r, (kind, msg) in viol:
        sig = "raw:" + kind
        if sig in seen or len(seen) >= 4:
            continue
        seen.add(sig)
        tcfg = dict(TRANSPORTS)[r.transport]
        if kind == "transport-differs":
            small = r.lines
        else:
            def pred(ls, kind=kind, tcfg=tcfg):
                v = run_one("shrink", "shrink", ls, "x", tcfg, with_model=False).verdict
                return v is not None and v[0] == kind
            small = shrink_scenario(r.lines, pred, budget=80)
        p = common.write_case(PROP, r.name + "-" + r.transport, small, tier, seed, ext="scn")
        res.impl_violations.append((sig, f"implementation violates C09 (transport {r.transport}): {msg}", p))
    for r, d in div[:3]:
        tcfg = dict(TRANSPORTS)[r.transport]
        def predd(ls, tcfg=tcfg):
            return diverging(run_one("shrink", "shrink", ls, "x", tcfg)) is not None
        small = shrink_scenario(r.lines, predd, budget=40)
        p = common.write_case(PROP, r.name + "-" + r.transport + "-div", small, tier, seed, ext="scn")
        res.divergences.append((d[:500], p))
    res.extra["model_action_coverage"] = dict(cov)
    res.extra["run_endings"] = dict(ends)
    res.extra["runs_per_family_and_transport"] = dict(fams)
    res.extra["scenarios"] = len(cases)
    res.extra["transport_comparisons_exact"] = compared
    res.extra["cases_with_divergence"] = len(div)
    res.extra["cases_with_impl_violation"] = len(viol)
    res.extra["log_to_action_mapping"] = "lean/Ivy/Drv/Raw.lean (Lean driver)"
    if not res.impl_violations:
        single_loop_part(tier, seed, res)
    return res


def search(tier, seed, proof):
    """implementation-only search for a concrete failing input (runs when the proof or the correspondence broke)"""
    res = common.Result()
    ok, _ = build()
    if not ok:
        return res
    cases = list(gen_cases("quick", seed, search=True))
    jobs = [(c, tr) for c in cases for tr in TRANSPORTS]
    with concurrent.futures.ThreadPoolExecutor(max_workers=common.NCPU) as ex:
        for r in common.bounded_map(ex, lambda j: run_one(j[0][0], j[0][1], j[0][2], j[1][0], j[1][1], with_model=False), jobs):
            res.evaluations += 1
            if r.verdict and not res.impl_violations:
                kind, msg = r.verdict
                tcfg = dict(TRANSPORTS)[r.transport]
                def pred(ls, kind=kind, tcfg=tcfg):
                    v = run_one("shrink", "shrink", ls, "x", tcfg, with_model=False).verdict
                    return v is not None and v[0] == kind
                small = shrink_scenario(r.lines, pred, budget=80)
                p = common.write_case(PROP, "search-" + r.name + "-" + r.transport, small, tier, seed, ext="scn")
                res.impl_violations.append(("raw:" + kind, f"implementation violates C09 (transport {r.transport}): {msg}", p))
    return res


def replay(path):
    if "# single-loop case" in open(path).read():
        from . import l1
        rc = l1.replay(path)
        lines = [l.rstrip("\n") for l in open(path) if l.strip() and not l.startswith("#")]
        msg = raw_lost_post_oracle(l1.run_case("replay", lines).log)
        print("--- lost-post rule:", msg or "ok")
        return 1 if (rc or msg) else 0
    lines = [l.rstrip("\n") for l in open(path) if l.strip() and not l.startswith("#")]
    ok, log = build()
    if not ok:
        print(log)
        return 2
    common.lean_build(["ivyreplay"])
    bad = 0
    has_t = any("{T}" in l for l in lines)
    for tr, tcfg in (TRANSPORTS if has_t else [("as-recorded", "")]):
        r = run_one("replay", "replay", lines, tr, tcfg)
        print(f"--- implementation log (transport {tr}; last lines)")
        print("\n".join(r.log.splitlines()[-60:]))
        if r.rc != 0:
            print("--- harness exit", r.rc, common.san_line(r.err))
        print("--- model replay:", r.diverge or r.envbad or "agrees")
        print("--- oracle:", r.verdict or "ok")
        if r.verdict or r.diverge:
            bad = 1
    return bad


# ---------------------------------------------------------------- oracle sanity: hand-written bad logs must be rejected
_BAD_LOGS = {
    "double-close": ["T0 API rawRegister r1", "T0 RET 0", "T0 API rawUnregister r1", "T0 CLOSE-EBADF fd=5", "T0 RET 0", "T0 FIN"],
    "lost-post": ["T0 API rawRegister r1", "T0 RET 0", "T0 API main", "T0 WAIT prim=poll to=-1", "T1 RAWPOST r1 owner=T0 n=1",
                  "T1 WRITE r1 fd=5 nonblock=1 ret=8 errno=0", "T1 RAWPOSTED r1", "T0 QUIESCENT T0:wait", "T0 FIN"],
    "lost-post#during-handler": ["T0 API rawRegister r1", "T0 RET 0", "T1 RAWPOST r1 owner=T0 n=1", "T1 WRITE r1 fd=5 nonblock=1 ret=8 errno=0",
                  "T1 RAWPOSTED r1", "T0 DISP r1 avail=1", "T0 CB r1 owner=T0", "T1 RAWPOST r1 owner=T0 n=1",
                  "T1 WRITE r1 fd=5 nonblock=1 ret=8 errno=0", "T1 RAWPOSTED r1", "T0 END", "T0 DISPEND r1", "T0 QUIESCENT T0:wait", "T0 FIN"],
    "blocking-descriptor": ["T0 API rawRegister r1", "T0 RET 0", "T1 RAWPOST r1 owner=T0 n=1", "T1 WRITE r1 fd=6 nonblock=0 ret=1 errno=0",
                            "T1 RAWPOSTED r1", "T0 DISP r1 avail=1", "T0 CB r1 owner=T0", "T0 END", "T0 DISPEND r1", "T0 QUIESCENT T0:wait", "T0 FIN"],
    "wrong-thread": ["T0 API rawRegister r1", "T0 RET 0", "T1 RAWPOST r1 owner=T0 n=1", "T1 WRITE r1 fd=5 nonblock=1 ret=8 errno=0",
                     "T1 RAWPOSTED r1", "T1 CB r1 owner=T0", "T1 END", "T0 QUIESCENT T0:wait", "T0 FIN"],
    "poster-stuck": ["T0 API rawRegister r1", "T0 RET 0", "T1 RAWPOST r1 owner=T0 n=1", "T0 QUIESCENT T0:wait T1:run", "T0 FIN"],
    "spurious-handler": ["T0 API rawRegister r1", "T0 RET 0", "T0 DISP r1 avail=0", "T0 CB r1 owner=T0", "T0 END", "T0 DISPEND r1", "T0 QUIESCENT T0:wait", "T0 FIN"],
    "drained-no-handler": ["T0 API rawRegister r1", "T0 RET 0", "T1 RAWPOST r1 owner=T0 n=1", "T1 WRITE r1 fd=5 nonblock=1 ret=1 errno=0",
                           "T1 RAWPOSTED r1", "T0 DISP r1 avail=1", "T0 DISPEND r1", "T0 QUIESCENT T0:wait", "T0 FIN"],
    "fatal": ["T0 API rawRegister r1", "T0 RET 0", "T0 FATAL iv_event_raw: reading from event fd returned zero", "T0 FIN"],
}
_GOOD_LOG = ["T0 API rawRegister r1", "T0 RET 0", "T1 RAWPOST r1 owner=T0 n=2", "T1 WRITE r1 fd=5 nonblock=1 ret=8 errno=0",
             "T1 WRITE r1 fd=5 nonblock=1 ret=-1 errno=EINTR injected", "T1 WRITE r1 fd=5 nonblock=1 ret=8 errno=0", "T1 RAWPOSTED r1",
             "T0 DISP r1 avail=2", "T0 CB r1 owner=T0", "T0 END", "T0 DISPEND r1", "T0 QUIESCENT T0:wait", "T0 FIN"]


def oracle_selftest():
    """returns a list of complaints (empty = the oracle rejects every hand-written bad log and accepts the good one)"""
    bad = []
    for k, log in _BAD_LOGS.items():
        v = oracle(log)
        if v is None or v[0] != k.split("#")[0]:
            bad.append(f"oracle self-test: bad log '{k}' judged {v}")
    if oracle(_GOOD_LOG) is not None:
        bad.append(f"oracle self-test: good log judged {oracle(_GOOD_LOG)}")
    return bad
