"""C14: no unsynchronised conflicting accesses on the cross-thread entry points.

Proof side (Ivy.Props.C14): generic lockset theorem; `accesses_comply` over the access table that gen/gen_access.py
REGENERATES from the current C source before every Lean build; `C14_drf`.
Tie / search side: six free-running multi-threaded programs (harness/tsan_*.c: real threads, real kernel, no
scheduler) linked against the library built from the current tree with -fsanitize=thread.  Every ThreadSanitizer
data-race report whose stack lies in the library and whose location is not a listed one-way flag is a violation
(signature tsan:<file>:<function>:<location>, replay = program + seed + arguments + report excerpt).  Every report is
also mapped back to the rows of the table: a race on rows that all comply is a divergence (extractor or policy wrong)."""
import concurrent.futures, hashlib, os, re, subprocess, sys, time
from . import common

PROP = "C14"
LEANCHECK_MODULES = ["Ivy.L2.Lockset", "Ivy.Generated.AccessTable", "Ivy.Props.C14"]
TSAN_FLAGS = ["-O1", "-g", "-fsanitize=thread"]
PROGS = ["event", "raw", "work", "thread", "signal", "wait", "inotify"]
NO_EPOLL = "epoll-timerfd epoll"          # IV_EXCLUDE_POLL_METHOD value that forces ppoll (raw-event transport for iv_event)
MAX_PARALLEL = 5
RULE = ("free-running ThreadSanitizer programs (real threads/kernel): iv_event ping-pong with (un)registration churn, raw events, "
        "work pool with continuations from pool threads and shutdown, iv_thread create/exit/join churn with iv_init/iv_deinit in "
        "every thread plus plain pthreads running independent loops, signals via pthread_kill/kill during interest churn, iv_wait "
        "with real forked children; each under the epoll and the ppoll method family. A run is non-trivial when its STATS line shows "
        "cross-thread traffic (posts / continuations / children / delivered signals / reaped children > 0); distinct by "
        "(program, method family, seed, threads, flags). Any TSan data race in /repo/src that is not an exempt one-way flag is a violation.")

sys.path.insert(0, os.path.join(common.VERIF, "gen"))


def gen_access():
    import importlib
    import gen_access as g
    return importlib.reload(g) if os.environ.get("C14_RELOAD_GEN") else g


# ------------------------------------------------------------------------------------------------ build
def exe(prog):
    return os.path.join(common.BUILD, "tsan_" + prog)


def build():
    ok, objs, log = common.build_lib(flags=TSAN_FLAGS, tag="tsan")
    if not ok:
        return False, "library does not build with -fsanitize=thread: " + log[-400:]
    hd = os.path.join(common.VERIF, "harness")
    stamp = hashlib.sha1((os.path.dirname(objs[0]) + "".join(open(os.path.join(hd, f), "rb").read().decode("latin1")
                          for f in ["tsan_util.h"] + [f"tsan_{p}.c" for p in PROGS])).encode("latin1")).hexdigest()[:16]
    sf = os.path.join(common.BUILD, "tsan_progs.stamp")
    with common.Lock("tsan-progs"):
        if os.path.exists(sf) and open(sf).read() == stamp and all(os.path.exists(exe(p)) for p in PROGS):
            return True, ""
        procs = []
        for p in PROGS:
            cmd = ["gcc"] + TSAN_FLAGS + common.CFLAGS_COMMON + [f"-I{hd}", "-o", exe(p), os.path.join(hd, f"tsan_{p}.c")] + objs + ["-lpthread"]
            procs.append((p, subprocess.Popen(cmd, stdout=subprocess.PIPE, stderr=subprocess.STDOUT, text=True)))
        bad = ""
        for p, pr in procs:
            out, _ = pr.communicate()
            if pr.returncode != 0:
                bad += f"tsan_{p}: {out[-400:]}\n"
        if bad:
            return False, bad
        open(sf, "w").write(stamp)
    return True, ""


# ------------------------------------------------------------------------------------------------ the table, as Lean sees it
def lean_report():
    """evaluate policy/complies in Lean on the generated table: returns (noncomply rows, classes) or (None, error)"""
    scratch = os.path.join(common.BUILD, f"c14_report_{os.getpid()}.lean")
    with open(scratch, "w") as f:
        f.write("import Ivy.L2.Lockset\nimport Ivy.Generated.AccessTable\n"
                "#eval (Ivy.L2.Lockset.report Ivy.Generated.accesses).forM IO.println\n")
    with common.Lock("lake"):
        common.sh(["lake", "build", "Ivy.Generated.AccessTable"], cwd=common.LEAN)
        r = common.sh(["lake", "env", "lean", scratch], cwd=common.LEAN)
    os.unlink(scratch)
    rows = []
    for l in r.stdout.splitlines():
        m = re.match(r"(NONCOMPLY|ROW (\w+)) (\S+):(\d+) (\S+) (\S+) (read|write) locks=\[(.*?)\] ctx=(\w+)( atomic)? policy=(.*)$", l)
        if m:
            rows.append(dict(cls="noncomply" if m.group(1) == "NONCOMPLY" else m.group(2), file=m.group(3), line=int(m.group(4)),
                             fn=m.group(5), loc=m.group(6), rw=m.group(7), locks=m.group(8), ctx=m.group(9), atomic=bool(m.group(10)), policy=m.group(11), text=l))
    if not rows:
        return None, "Lean could not evaluate the table: " + r.stdout[-400:]
    return rows, None


# ------------------------------------------------------------------------------------------------ scenarios
def scenarios(tier, seed):
    """(name, prog, seed, threads, ms, flags, exclude-methods)"""
    out = []
    seeds = [seed] if tier == "quick" else [seed * 1000 + k for k in range(12)]
    ms = 700 if tier == "quick" else 2500
    for s in seeds:
        for excl in ("", NO_EPOLL):
            fam = "ppoll" if excl else "epoll"
            nt = {"event": 2 + s % 3, "raw": 2 + (s + 1) % 3, "work": 1 + s % 2 + (1 if tier != "quick" else 0),
                  "thread": 3 + s % 3, "signal": 2 + s % 3, "wait": 2 + s % 2, "inotify": 2 + s % 2}
            for p in PROGS:
                out.append((f"{p}-{fam}-s{s}", p, s, nt[p], ms, 0, excl))
        # the debug helper iv_thread_list_children() called by the parent while children start: its own scenario
        out.append((f"thread-list-epoll-s{s}", "thread", s, 4, ms, 1, ""))
        # creators that leave (iv_quit, tear-down) while threads they created are starting, running or exiting
        out.append((f"thread-abandon-epoll-s{s}", "thread", s, 4, ms, 2, ""))
        out.append((f"thread-abandon-ppoll-s{s}", "thread", s, 3, ms, 2, NO_EPOLL))
    return corpus_scenarios() + out


def corpus_scenarios():
    """regression programs of repaired defects: corpus/C14/*.tsan (prog / seed / threads / ms / flags / exclude lines)"""
    d = os.path.join(common.VERIF, "corpus", PROP)
    out = []
    for f in sorted(os.listdir(d)) if os.path.isdir(d) else []:
        if f.endswith(".tsan"):
            kv = parse_case(os.path.join(d, f))
            if kv.get("prog") in PROGS:
                out.append(("corpus-" + f[:-5], kv["prog"], int(kv.get("seed", 1)), int(kv.get("threads", 2)), int(kv.get("ms", 800)),
                            int(kv.get("flags", 0)), kv.get("exclude", "")))
    return out


def parse_case(path):
    kv = {}
    for l in open(path):
        if l.startswith("#") or not l.strip():
            continue
        k, _, v = l.rstrip("\n").partition(" ")
        kv[k] = v.strip()
    return kv


def run_scenario(sc):
    name, prog, seed, nthr, ms, flags, excl = sc
    env = dict(os.environ, TSAN_OPTIONS="halt_on_error=0 exitcode=0 report_signal_unsafe=0 history_size=4", IV_EXCLUDE_POLL_METHOD=excl)
    t0 = time.time()
    # a program that does not finish in time is run again with three times the allowance before it counts as "did not finish": on a
    # machine that is busy with other checks a ThreadSanitizer build can be starved for a minute; a real hang shows up every time
    for attempt in (1, 3, 9):
        try:
            r = subprocess.run([exe(prog), str(seed), str(nthr), str(ms), str(flags)], stdout=subprocess.PIPE, stderr=subprocess.PIPE,
                               text=True, timeout=attempt * (90 + 4 * ms / 1000), env=env, errors="replace")
            out, err, rc = r.stdout, r.stderr, r.returncode
            break
        except subprocess.TimeoutExpired as e:
            out = e.stdout if isinstance(e.stdout, str) else (e.stdout or b"").decode(errors="replace")
            err = (e.stderr if isinstance(e.stderr, str) else (e.stderr or b"").decode(errors="replace")) + "\nTIMEOUT"
            rc = -9
    return dict(sc=sc, out=out, err=err, rc=rc, wall=time.time() - t0)


def case_text(sc, excerpt=""):
    name, prog, seed, nthr, ms, flags, excl = sc
    L = [f"prog {prog}", f"seed {seed}", f"threads {nthr}", f"ms {ms}", f"flags {flags}", f"exclude {excl}",
         f"# run: IV_EXCLUDE_POLL_METHOD='{excl}' TSAN_OPTIONS='halt_on_error=0 exitcode=0' build/tsan_{prog} {seed} {nthr} {ms} {flags}"]
    L += ["# " + l for l in excerpt.splitlines()]
    return L


# ------------------------------------------------------------------------------------------------ TSan report parsing
ACC = re.compile(r"^\s+(Previous )?(atomic )?(read|write) of size (\d+) at (0x[0-9a-f]+) by (main thread|thread T\d+)(?: \(mutexes: ([^)]*)\))?:", re.I)
FRAME = re.compile(r"^\s+#(\d+) (\S+) (\S+?):(\d+)(?::\d+)? \(")


def parse_reports(stderr):
    reps = []
    for block in stderr.split("=================="):
        if "WARNING: ThreadSanitizer:" not in block:
            continue
        kind = re.search(r"WARNING: ThreadSanitizer: ([^(\n]+)", block).group(1).strip()
        rep = dict(kind=kind, accesses=[], glob=None, text=block.strip())
        cur = None
        for l in block.splitlines():
            m = ACC.match(l)
            if m:
                cur = dict(rw=m.group(3).lower(), mutexes=m.group(7) or "", frames=[])
                rep["accesses"].append(cur)
                continue
            if l.strip().startswith(("Location is", "Mutex ", "Thread T", "SUMMARY")):
                g = re.search(r"Location is global '([^']+)'", l)
                if g:
                    rep["glob"] = g.group(1)
                cur = None
                continue
            f = FRAME.match(l)
            if f and cur is not None:
                cur["frames"].append((f.group(2), f.group(3), int(f.group(4))))
        reps.append(rep)
    return reps


def lib_frame(acc):
    """the frame that names the access in the signature: the innermost frame in a .c file of the library"""
    src = os.path.join(common.REPO, "src") + os.sep
    c_frames = [fr for fr in acc["frames"] if fr[1].startswith(src) and fr[1].endswith(".c")]
    if c_frames:
        return c_frames[0]
    h = [fr for fr in acc["frames"] if fr[1].startswith(src)]
    return h[0] if h else None


def lib_frames_upto_c(acc):
    """library frames from the innermost one down to (and including) the first .c frame: header helpers first"""
    src = os.path.join(common.REPO, "src") + os.sep
    out = []
    for fr in acc["frames"]:
        if fr[1].startswith(src):
            out.append(fr)
            if fr[1].endswith(".c"):
                break
    return out


class Table:
    def __init__(self, full_rows, lean_rows):
        self.by_line = {}
        self.by_file = {}
        for r in full_rows:
            self.by_line.setdefault((r["file"], r["line"]), []).append(r)
            self.by_file.setdefault(r["file"], []).append(r)
        self.cls = {}
        self.oneway = set()
        self.noncomply = []
        for r in lean_rows or []:
            self.cls[(r["file"], r["fn"], r["loc"], r["rw"][0], r["locks"], r["ctx"], r["atomic"])] = r["cls"]
            if r["cls"] == "oneway":
                self.oneway.add(r["loc"])
            if r["cls"] == "noncomply":
                self.noncomply.append(r)

    def candidates_at(self, fr, rw):
        """rows for one frame: same function + same line + same kind; else the nearest line (<= 3 away: optimised code
        merges identical stores of two branches and reports the line of the branch); else anything on that line"""
        f, fn, line = os.path.basename(fr[1]), fr[0], fr[2]
        rows_fn = [r for r in self.by_file.get(f, []) if r["fn"] == fn and r["rw"] == rw[0]]
        exact = [r for r in rows_fn if r["line"] == line]
        if exact:
            return exact
        near = [r for r in rows_fn if abs(r["line"] - line) <= 3]
        if near:
            d = min(abs(r["line"] - line) for r in near)
            return [r for r in near if abs(r["line"] - line) == d]
        return self.by_line.get((f, line), [])

    def candidates(self, acc):
        for fr in lib_frames_upto_c(acc):
            c = self.candidates_at(fr, acc["rw"])
            if c:
                return c
        return []

    def row_class(self, r):
        return self.cls.get((r["file"], r["fn"], r["loc"], r["rw"], ",".join(r["locks"]), r["ctx"], bool(r.get("atomic"))), "?")


def classify(rep, tbl):
    """-> dict(verdict= 'harness' | 'exempt' | 'violation', sig, loc, note)"""
    accs = rep["accesses"][:2]
    frs = [lib_frame(a) for a in accs]
    if not any(frs):
        return dict(verdict="harness", sig=None, loc=None, note="")
    cands = [tbl.candidates(a) if fr else [] for fr, a in zip(frs, accs)]
    locsets = [{r["loc"] for r in c} for c in cands]
    common_locs = set.intersection(*locsets) if len(locsets) == 2 and all(locsets) else set()
    if rep["glob"] and any(rep["glob"] in s for s in locsets):
        loc = rep["glob"]
    elif len(common_locs) >= 1:
        loc = sorted(common_locs)[0]
    elif any(locsets):
        loc = sorted(next(s for s in locsets if s))[0]
    else:
        loc = rep["glob"] or "?"
    if loc in tbl.oneway or (rep["glob"] in tbl.oneway):
        return dict(verdict="exempt", sig=None, loc=loc if loc in tbl.oneway else rep["glob"], note="")
    # culprit access: non-complying row, else fewest mutexes, else lexicographic
    scored = []
    for a, fr, c in zip(accs, frs, cands):
        if not fr:
            continue
        rows = [r for r in c if r["loc"] == loc]
        bad = any(tbl.row_class(r) == "noncomply" for r in rows)
        scored.append((0 if bad else 1, len([m for m in a["mutexes"].split(",") if m.strip()]), os.path.basename(fr[1]), fr[0], rows))
    scored.sort(key=lambda x: x[:4])
    _, _, f, fn, rows = scored[0]
    note = ""
    allrows = [r for s in scored for r in s[4]]
    if not allrows:
        note = "the access table has no row at the reported source line(s)"
    elif all(tbl.row_class(r) in ("strong", "exempt") for r in allrows):
        note = "every table row at the reported lines complies with the policy"
    return dict(verdict="violation", sig=f"tsan:{f}:{fn}:{loc}", loc=loc, note=note)


def excerpt(rep):
    keep = []
    for l in rep["text"].splitlines():
        if re.match(r"\s*(WARNING|Read|Write|Previous|Atomic|Location|SUMMARY)", l) or re.match(r"\s+#[0-4] ", l):
            keep.append(l.rstrip())
    return "\n".join(keep[:24])


STAT_KEYS = {"event": ["posts"], "raw": ["posts"], "work": ["continuations", "completions"], "thread": ["created"],
             "signal": ["handled"], "wait": ["reaped"], "inotify": ["events"]}


def stats_of(out):
    m = re.search(r"^STATS (.*)$", out, flags=re.M)
    return dict(kv.split("=", 1) for kv in m.group(1).split()) if m else None


# ------------------------------------------------------------------------------------------------ run / search
def ensure_table(proof):
    """regenerate the table if gen_all.py has not done so, and redo the proof phase when that changed the Lean input"""
    g = gen_access()
    path = os.path.join(common.LEAN, "Ivy", "Generated", "AccessTable.lean")
    before = open(path).read() if os.path.exists(path) else None
    facts = g.generate(common.REPO, os.path.dirname(path))
    after = open(path).read()
    if before != after:
        again = common.proof_phase(PROP)
        proof.clear()
        proof.update(again)
    proof["gen"] = dict(proof.get("gen") or {}, **facts)
    return g, facts


def evaluate(results, tbl, res, tier, seed, label=""):
    seen = set()
    counts = dict(reports=0, exempt=0, harness=0, violations=0, other_kinds=0)
    exempt_hits = {}
    for r in results:
        sc = r["sc"]
        res.evaluations += 1
        st = stats_of(r["out"])
        crashed = r["rc"] != 0 or st is None
        if not crashed and any(float(st.get(k, "0")) > 0 for k in STAT_KEYS[sc[1]]):
            res.nontrivial.add((sc[1], sc[6], sc[2], sc[3], sc[5]))
        if not crashed and len(res.samples) < 6:
            res.samples.append({"scenario": sc[0], "stats": st, "wall_s": round(r["wall"], 2)})
        before = counts["violations"]
        for rep in parse_reports(r["err"]):
            counts["reports"] += 1
            if rep["kind"] != "data race":
                counts["other_kinds"] += 1
                continue
            c = classify(rep, tbl)
            if c["verdict"] == "harness":
                counts["harness"] += 1
            elif c["verdict"] == "exempt":
                counts["exempt"] += 1
                exempt_hits[c["loc"]] = exempt_hits.get(c["loc"], 0) + 1
            else:
                counts["violations"] += 1
                if c["sig"] in seen:
                    continue
                seen.add(c["sig"])
                p = common.write_case(PROP, label + sc[0], case_text(sc, excerpt(rep)), tier, seed, ext="tsan")
                first = excerpt(rep).splitlines()
                res.impl_violations.append((c["sig"], f"unsynchronised conflicting access on {c['loc']} (ThreadSanitizer data race, program "
                                            f"tsan_{sc[1]} seed {sc[2]}): " + " | ".join(x.strip() for x in first[1:6]), p))
                if c["note"]:
                    res.divergences.append((f"ThreadSanitizer reports a race on {c['loc']} ({c['sig']}) but {c['note']}: "
                                            "the extractor or the policy misses it", p))
        if crashed and counts["violations"] == before:
            # the program died / hung without a data-race report of its own
            sig = f"tsan:{sc[1]}:crash"
            if sig not in seen:
                seen.add(sig)
                tail = (r["err"].strip().splitlines() or ["?"])[-1][:200]
                p = common.write_case(PROP, label + sc[0], case_text(sc, r["err"][-1500:]), tier, seed, ext="tsan")
                res.impl_violations.append((sig, f"program tsan_{sc[1]} did not finish (rc={r['rc']}): {tail}", p))
    return counts, exempt_hits


def run_all(scs):
    with concurrent.futures.ThreadPoolExecutor(max_workers=MAX_PARALLEL) as ex:
        return list(ex.map(run_scenario, scs))


def run(tier, seed, proof):
    res = common.Result()
    res.rule = RULE
    res.assumptions = [
        "extractor classification (gen/gen_access.py header): which pointer denotes the caller's own loop state / object (ctx), canonical lock names, "
        "list/avl primitive summaries, variant split of iv_signal fields; rows are claimed to describe every access of the covered files",
        "exempted private phases (init before publication, tear-down after unpublication, detached stolen lists, refcount-guarded reads of "
        "iv_active_fd, single-threaded mode without libpthread) are ordered w.r.t. other accesses by publication: assumed, exercised by TSan only",
        "one-way flags are exempt by the property statement: inited, eventfd_in_use, epoll_support, epoll_pwait2_support, iv_event_use_event_raw, "
        "splice_available, pipe2_support, clock_source, method, iv_thread_debug, iv_state_key_allocated, sig_owner_pid",
        "ThreadSanitizer's happens-before detection on the schedules that actually ran (sampled); valid API use by the programs (barriers around cross-thread posts)",
        "files outside the C14 list (iv_task.c, iv_timer.c, iv_avl.c, iv_fd_poll.c, iv_popen.c, iv_inotify.c) are covered by TSan only, not by the table",
    ]
    g, facts = ensure_table(proof)
    if facts.get("C14_extractor_error"):
        res.divergences.append(("access extractor failed on the current tree: " + facts["C14_extractor_error"], None))
    if facts.get("C14_unclassified"):
        res.divergences.append(("access extractor met expressions it cannot classify: " + "; ".join(facts["C14_unclassified"][:6]), None))
    lean_rows, err = lean_report()
    if err:
        proof["failures"].append(err)
    full = g.load_rows(common.REPO)["rows"]
    tbl = Table(full, lean_rows)
    for r in tbl.noncomply:
        proof["failures"].append("accesses_comply: non-complying access " + r["text"][len("NONCOMPLY "):])
    if lean_rows:
        cls = {}
        for r in lean_rows:
            cls[r["cls"]] = cls.get(r["cls"], 0) + 1
        res.extra["access_table"] = {"rows": len(lean_rows), "rows_with_lines": len(full), "locations": len({r["loc"] for r in lean_rows}),
                                     "classes": cls, "noncomplying": [r["text"] for r in tbl.noncomply],
                                     "entry_point_rows": sum(1 for r in full if r["entry"]),
                                     "foreign_ctx_rows": sum(1 for r in full if r["ctx"] == "foreign")}
    ok, log = build()
    if not ok:
        res.divergences.append(("ThreadSanitizer programs do not build against the current tree: " + log[-400:], None))
        return res
    scs = scenarios(tier, seed)
    results = run_all(scs)
    counts, exempt_hits = evaluate(results, tbl, res, tier, seed)
    res.extra["tsan"] = dict(counts, exempt_hits=exempt_hits, scenarios=len(scs),
                             per_program={p: sum(1 for s in scs if s[1] == p) for p in PROGS})
    return res


def search(tier, seed, proof):
    """proof failed: look for a ThreadSanitizer replay, preferably on a non-complying location"""
    res = common.Result()
    ok, _ = build()
    if not ok:
        return res
    g = gen_access()
    lean_rows, _ = lean_report()
    tbl = Table(g.load_rows(common.REPO)["rows"], lean_rows)
    want = {r["loc"] for r in tbl.noncomply}
    for rnd in range(3):
        scs = scenarios("quick", seed * 7 + 101 + rnd)
        scs = [(n, p, s, min(4, t + rnd % 2), 1200, f, e) for (n, p, s, t, ms, f, e) in scs if not n.startswith("corpus-")]
        evaluate(run_all(scs), tbl, res, tier, seed, label="search-")
        hit = [v for v in res.impl_violations if any(v[0].endswith(":" + w) for w in want)]
        if hit:
            res.impl_violations = hit + [v for v in res.impl_violations if v not in hit]
            break
        if res.impl_violations and not want:
            break
    return res


def replay(path):
    kv = parse_case(path)
    ok, log = build()
    if not ok:
        print(log)
        return 2
    sc = ("replay", kv["prog"], int(kv.get("seed", 1)), int(kv.get("threads", 2)), int(kv.get("ms", 800)), int(kv.get("flags", 0)), kv.get("exclude", ""))
    g = gen_access()
    g.generate(common.REPO, os.path.join(common.LEAN, "Ivy", "Generated"))
    lean_rows, _ = lean_report()
    tbl = Table(g.load_rows(common.REPO)["rows"], lean_rows)
    bad = 0
    for attempt in range(3):       # a free-running schedule: allow a few attempts
        r = run_scenario(sc)
        print(f"--- attempt {attempt + 1}: rc={r['rc']} {(stats_of(r['out']) or {})}")
        for rep in parse_reports(r["err"]):
            if rep["kind"] != "data race":
                continue
            c = classify(rep, tbl)
            print(f"[{c['verdict']}] {c['sig'] or c['loc'] or ''}")
            if c["verdict"] == "violation":
                bad += 1
                print(excerpt(rep))
        if bad or r["rc"] != 0:
            break
    return 1 if bad or r["rc"] != 0 else 0
