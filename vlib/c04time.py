"""C04 extension (time arithmetic): timespec_gt / to_relative / to_msec of /repo/src/iv_private.h, the clock cache
(iv_validate_now / iv_invalidate_now, the read-through in to_relative and iv_run_timers), the expiry test of iv_run_timers,
iv_get_soonest_timeout (/repo/src/iv_timer.c) and the timerfd value of iv_fd_epoll_timerfd_{set,clear}_poll_timeout
(/repo/src/iv_fd_epoll.c), run on the REAL code (harness/timearith_h.c: the inline functions compiled from the tree under test,
iv_time_get and timerfd_settime redirected) -- T-diff against the Lean model Ivy.L0.TimeArith (`ivyreplay timearith`; order, clamp,
least-millisecond rounding, cap, agreement of the two wait primitives, progress, cache theorems proved in Ivy.Props.C04time for all
normalised inputs), plus an independent reference (exact arithmetic on Python ints in nanoseconds) that judges the implementation's
lines alone.  Not a plugin of its own: vlib/c04.py may call check()."""
import concurrent.futures, os, random, re
from . import common

HARNESS = os.path.join(common.BUILD, "timearith_h")
G = 10 ** 9
M = 10 ** 6
DAY = 86400 * G
SECLIM = 2 ** 62                # |tv_sec| < 2^62: the side condition of the no-overflow theorems; beyond it the C code has UB
NSLIM = 2 * G                   # non-normalised tv_nsec accepted by harness and driver: |v| <= 2*10^9
OPKINDS = ["gt", "due", "rel", "msec", "arm", "clear", "clock", "inval", "valid", "now", "relc", "msecc", "runc"]
NSEC_EDGES = [0, 1, 999999, 1000000, 1000001, 999999999]
SEC_EDGES = [0, 1, 2, 59, 86399, 86400, 86401, 10 ** 9, 2 ** 31 - 1, 2 ** 31, 2 ** 32, 2 ** 40, SECLIM - 1,
             -1, -2, -86400, -(2 ** 31), -(2 ** 31) - 1, -(SECLIM - 1)]
DELTA_EDGES = [0, 1, 2, 999999, M - 1, M, M + 1, 2 * M - 1, 2 * M, 2 * M + 1, 999 * M, 999 * M + 1, G - M, G - M + 1, G - 1, G, G + 1,
               G + M - 1, G + M, G + M + 1, 60 * G, DAY - G, DAY - G + 1, DAY - M - 1, DAY - M, DAY - M + 1, DAY - 1, DAY, DAY + 1,
               DAY + M - 1, DAY + M, DAY + M + 1, DAY + G - 1, DAY + G, 2 * DAY, 365 * DAY, 36525 * DAY, (2 ** 31) * G, (2 ** 40) * G]


def build():
    return common.build_wrapped(HARNESS, os.path.join(common.VERIF, "harness", "timearith_h.c"), ["iv_time_get", "timerfd_settime"])


def ensure_replay():
    if not os.path.exists(common.REPLAY_BIN):
        return common.lean_build(["ivyreplay"])
    return True, ""


# ---------------------------------------------------------------- independent reference
NUM = re.compile(r"-?[0-9]{1,19}")


def p_int(s, lim, strict):
    if not NUM.fullmatch(s):
        return None
    v = int(s)
    if (abs(v) >= lim) if strict else (abs(v) > lim):
        return None
    return v


def p_ts(w):
    if len(w) != 2:
        return None
    s, n = p_int(w[0], SECLIM, True), p_int(w[1], NSLIM, False)
    return None if s is None or n is None else (s, n)


def p_opt(w):
    """-> ('none',) | ('ts', (s, n)) | None"""
    if w == ["none"]:
        return ("none",)
    t = p_ts(w)
    return None if t is None else ("ts", t)


def norm(t):
    return 0 <= t[1] < G


def ns(t):
    return t[0] * G + t[1]


def of_ns(x):
    return (x // G, x % G)


def spec_rel(now, a):
    """the remaining time, clamped at 0, as a normalised timespec"""
    return of_ns(max(0, ns(a) - ns(now)))


def spec_msec(now, a):
    """no deadline: -1; a day or more: 86400000; else the LEAST m >= 0 with m ms >= remaining"""
    if a is None:
        return -1
    r = max(0, ns(a) - ns(now))
    if r >= DAY:
        return 86400000
    m = r // M
    while m * M < r:
        m += 1
    return m


def fmt(t):
    return f"{t[0]} {t[1]}"


class Ref:
    """the cache as the documentation describes it (valid flag, cached instant, what the clock would return) and the specification
    of every stateless op; judges one implementation line per op"""

    def __init__(self):
        self.valid = False
        self.t = (0, 0)
        self.next = (0, 0)

    def use(self):
        """a function that needs the time: reads the clock iff the cache is invalid; returns the number of reads"""
        if self.valid:
            return 0
        self.valid = True
        self.t = self.next
        return 1

    def tail(self):
        return f"valid={int(self.valid)} t={fmt(self.t)}"

    def expect(self, op):
        """-> the expected line, or ('prefix', p) when only the beginning is specified (non-normalised operands), or 'bad-op'"""
        w = [x for x in op.strip().split(" ") if x != ""]           # as harness and driver: trim, then split at spaces only
        if not w:
            return None
        k, a = w[0], w[1:]
        if k in ("gt", "due", "rel") and len(a) == 4:
            x, y = p_ts(a[:2]), p_ts(a[2:])
            if x is None or y is None:
                return "bad-op"
            if not (norm(x) and norm(y)):
                return ("prefix", k.upper() + " ")
            if k == "gt":
                return f"GT {int(ns(x) > ns(y))}"
            if k == "due":
                return f"DUE {int(ns(y) <= ns(x))}"
            return f"REL {fmt(spec_rel(x, y))}"
        if k == "msec" and len(a) in (3, 4):
            x, y = p_ts(a[:2]), p_opt(a[2:])
            if x is None or y is None:
                return "bad-op"
            if y[0] == "none":
                return "MSEC -1"
            if not (norm(x) and norm(y[1])):
                return ("prefix", "MSEC ")
            return f"MSEC {spec_msec(x, y[1])}"
        if k == "arm" and len(a) == 2:
            x = p_ts(a)
            if x is None:
                return "bad-op"
            return f"ARM {fmt((0, 1) if x == (0, 0) else x)}"
        if k == "clear" and not a:
            return "CLEAR 0 0"
        if k == "clock" and len(a) == 2:
            x = p_ts(a)
            if x is None:
                return "bad-op"
            self.next = x
            return "CLOCK"
        if k == "inval" and not a:
            self.valid = False
            return f"INVAL {self.tail()}"
        if k in ("valid", "now") and not a:
            r = self.use()
            return f"{k.upper()} read={r} {self.tail()}"
        if k in ("relc", "msecc", "runc") and len(a) in (1, 2):
            y = p_opt(a)
            if y is None:
                return "bad-op"
            name = k.upper()
            if y[0] == "none":
                return f"{name} read=0 {self.tail()} " + {"relc": "rel=null", "msecc": "ms=-1", "runc": "due=0"}[k]
            r = self.use()
            head = f"{name} read={r} {self.tail()} "
            if not (norm(self.t) and norm(y[1])):
                return ("prefix", head)
            if k == "relc":
                return head + f"rel={fmt(spec_rel(self.t, y[1]))}"
            if k == "msecc":
                return head + f"ms={spec_msec(self.t, y[1])}"
            return head + f"due={int(ns(y[1]) <= ns(self.t))}"
        return "bad-op"


def explain(op, got, exp):
    """one sentence on what the contract says for this op"""
    k = op.split()[0] if op.split() else ""
    if k in ("msec", "msecc"):
        return ("to_msec must return -1 without a deadline, 86400000 when a day or more remains, and otherwise the least number of milliseconds "
                "that is not shorter than the remaining time (0 iff the timer is due)")
    if k in ("rel", "relc"):
        return "to_relative must return the remaining time max(0, abs - now) as a normalised timespec"
    if k == "gt":
        return "timespec_gt must be the strict order of instants"
    if k in ("due", "runc"):
        return "iv_run_timers must run the head timer iff its deadline is not after the cached clock value"
    if k in ("arm", "clear"):
        return "the timerfd must be armed with the deadline itself, {0,1} for the deadline {0,0} (a zero value disarms), and cleared with {0,0}"
    return "the clock must be read exactly when a function needs the time and the cache is invalid"


def oracle(ops, out):
    """Independent statement of the contract on the implementation's output alone. Returns None or (op index, short, message)."""
    ref = Ref()
    i = -1
    for op in ops:
        exp = ref.expect(op)
        if exp is None:
            continue                                   # an empty line produces no output
        i += 1
        if i >= len(out):
            return (i, "crash", f"implementation produced {len(out)} lines: died at '{op}'")
        got = out[i]
        if isinstance(exp, tuple):
            ok = got.startswith(exp[1]) and re.fullmatch(r"(-?[0-9]+|rel=-?[0-9]+|ms=-?[0-9]+|due=[01])( -?[0-9]+)?", got[len(exp[1]):]) is not None
            exp = exp[1] + "<number(s)>"
        else:
            ok = got == exp
        if not ok:
            return (i, op.split()[0] if op.split() else "empty", f"op '{op}' answered '{got[:100]}', expected '{exp}': {explain(op, got, exp)}")
    return None


# ---------------------------------------------------------------- generators
def in_range(t):
    return abs(t[0]) < SECLIM


def pick_nsec(rng):
    r = rng.random()
    if r < 0.6:
        return rng.choice(NSEC_EDGES)
    if r < 0.8:
        return rng.choice([500000000, 999000000, 999000001, 998999999, 1999999, 2000000])
    return rng.randrange(G)


def pick_sec(rng):
    r = rng.random()
    if r < 0.45:
        return rng.choice(SEC_EDGES)
    if r < 0.8:
        return rng.randrange(0, 10 ** rng.choice([1, 3, 6, 9, 12]))
    if r < 0.9:
        return -rng.randrange(0, 10 ** rng.choice([1, 3, 6, 9, 12]))
    return rng.randrange(-(SECLIM - 1), SECLIM)


def pick_ts(rng):
    return (pick_sec(rng), pick_nsec(rng))


def pick_delta(rng):
    r = rng.random()
    if r < 0.5:
        d = rng.choice(DELTA_EDGES)
    elif r < 0.7:
        d = rng.randrange(0, 86400 * 1000 + 3) * M + rng.choice([-1, 0, 0, 1, 999999, 500000])     # k ms, k ms +- 1 ns
    elif r < 0.8:
        d = rng.randrange(0, 3 * M)
    elif r < 0.9:
        d = rng.randrange(DAY - 2 * G, DAY + 2 * G)
    else:
        d = rng.randrange(0, 10 ** rng.choice([3, 6, 9, 12, 15, 18]))
    return -d if rng.random() < 0.25 else d


def near(rng, base):
    """a normalised instant at a boundary-heavy distance from `base` (falls back to an independent one)"""
    for _ in range(4):
        t = of_ns(ns(base) + pick_delta(rng))
        if in_range(t):
            return t
    return pick_ts(rng)


def denorm(rng, t):
    """the same or a nearby value with tv_nsec outside [0, 10^9)"""
    return (t[0], rng.choice([-1, -999999999, G, G + 1, -G, NSLIM, -NSLIM, rng.randrange(-NSLIM, NSLIM + 1)]))


def junk(rng):
    k = rng.choice(OPKINDS + ["frob", ""])
    args = [rng.choice(["0", "1", "-1", "none", "x", "+1", "1.5", "--1", "-", str(SECLIM), str(-SECLIM), "9" * 19, "9" * 20, str(NSLIM + 1),
                        "0x10", "1e3", "00000000000000000001", "-0"]) for _ in range(rng.randrange(0, 6))]
    return " ".join([k] + args)


def gen_ops(rng, n):
    """structured random: stateless comparisons / conversions at boundary distances, and walks over the clock cache"""
    ref = Ref()
    ops = []
    p_den = rng.choice([0.0, 0.03, 0.1])
    while len(ops) < n:
        r = rng.random()
        now = pick_ts(rng)
        a = near(rng, now) if rng.random() < 0.85 else pick_ts(rng)
        if rng.random() < p_den:
            if rng.random() < 0.5:
                now = denorm(rng, now)
            else:
                a = denorm(rng, a)
        if r < 0.03:
            op = junk(rng)
        elif r < 0.13:
            op = f"gt {fmt(now)} {fmt(a)}" if rng.random() < 0.5 else f"gt {fmt(a)} {fmt(now)}"
        elif r < 0.22:
            op = f"due {fmt(now)} {fmt(a)}"
        elif r < 0.37:
            op = f"rel {fmt(now)} {fmt(a)}"
        elif r < 0.57:
            op = f"msec {fmt(now)} " + ("none" if rng.random() < 0.05 else fmt(a))
        elif r < 0.62:
            v = rng.choice([(0, 0), (0, 0), (0, 1), (1, 0), (0, -1), (-1, 0), (0, 999999999), (-1, 999999999), now, a])
            op = f"arm {fmt(v)}"
        elif r < 0.63:
            op = "clear"
        else:
            # the cache: the generator follows the reference to aim deadlines at the instant the next use will compute with
            base = ref.t if ref.valid else ref.next
            q = rng.random()
            if q < 0.2:
                nxt = near(rng, ref.next) if rng.random() < 0.6 else now
                op = f"clock {fmt(nxt)}"
            elif q < 0.35:
                op = "inval"
            elif q < 0.42:
                op = rng.choice(["valid", "now"])
            else:
                d = near(rng, base) if rng.random() < 0.9 else a
                arg = "none" if rng.random() < 0.1 else fmt(d)
                op = f"{rng.choice(['relc', 'msecc', 'msecc', 'runc'])} {arg}"
        ref.expect(op)
        ops.append(op)
    return ops


def enumerated_cases():
    """ENUMERATED part (every run): every boundary nanosecond value of `now` at a few second values (negative, zero, large) against
    every boundary distance in both directions, through all four stateless functions; and every short cache walk"""
    cases = []
    for si, s in enumerate([0, 7, -3, 2 ** 31 - 1, -(2 ** 40), SECLIM - 1 - 2 ** 41]):
        ops = []
        for n in NSEC_EDGES:
            now = (s, n)
            for d in DELTA_EDGES:
                for sign in (1, -1):
                    a = of_ns(ns(now) + sign * d)
                    if not in_range(a) or (sign == -1 and d == 0):
                        continue
                    ops += [f"gt {fmt(a)} {fmt(now)}", f"due {fmt(now)} {fmt(a)}", f"rel {fmt(now)} {fmt(a)}", f"msec {fmt(now)} {fmt(a)}"]
        cases.append((f"enum-{si}", ops))
    # cache walks: all sequences of length 4 over {inval, valid, now, relc, msecc, runc, relc none, runc none}, the clock advancing before each
    import itertools
    alpha = ["inval", "valid", "now", "relc 100 1500000", "msecc 100 1500000", "runc 100 1500000", "relc none", "msecc none", "runc none"]
    ops = []
    k = 0
    for seq in itertools.product(alpha, repeat=4):
        ops.append("inval")
        for x in seq:
            k += 1
            ops.append(f"clock {99 + (k % 3)} {(k * 499999) % G}")
            ops.append(x)
    cases.append(("enum-cache", ops))
    return cases


# ---------------------------------------------------------------- running
def run_impl(ops):
    a = common.run_cmd([HARNESS], "\n".join(ops) + "\n", timeout=300)
    return a, [l.rstrip() for l in a.stdout.splitlines()]


def run_both(ops):
    a, al = run_impl(ops)
    b = common.run_cmd([common.REPLAY_BIN, "timearith"], "\n".join(ops) + "\n", timeout=300)
    return a, al, b, [l.rstrip() for l in b.stdout.splitlines()]


def impl_fails(ops):
    a, al = run_impl(ops)
    return oracle(ops, al) is not None or a.returncode != 0


def op_of_line(ops, j):
    """the op that produced output line j (empty lines produce none)"""
    live = [o for o in ops if o.split()]
    return live[j] if j < len(live) else "<past the end>"


def check(tier, seed, res):
    """random + enumerated op files through the harness (real iv_private.h / iv_timer.c / iv_fd_epoll.c) and `ivyreplay timearith` (Lean
    model): the reference oracle judges the implementation alone (res.impl_violations), then the two outputs are compared line by line
    (res.divergences)."""
    ok, log = build()
    if not ok:
        res.divergences.append(("harness timearith_h.c (iv_private.h / iv_timer.c / iv_fd_epoll.c) no longer compiles: " + log[-400:], None))
        return res
    ok, log = ensure_replay()
    if not ok:
        res.divergences.append(("ivyreplay does not build: " + log[-400:], None))
        return res
    nfiles, nops = (64, 600) if tier == "quick" else (480, 1500)
    rng = random.Random(f"c04time-{seed}")
    cases = enumerated_cases()
    cases += [(f"time-{i}", gen_ops(random.Random(rng.getrandbits(64)), nops)) for i in range(nfiles)]
    dist = {k: 0 for k in OPKINDS}
    stats = {"msec_capped": 0, "msec_zero": 0, "msec_rounded_up": 0, "msec_exact_ms": 0, "rel_borrow": 0, "rel_clamped": 0,
             "negative_seconds": 0, "non_normalised_operands": 0, "clock_reads": 0, "cached_uses_without_read": 0, "arm_fixups": 0}
    total = 0
    ex = concurrent.futures.ThreadPoolExecutor(max_workers=common.NCPU)
    outs = common.bounded_map(ex, lambda c: run_both(c[1]), cases)
    for (name, ops), (a, al, b, bl) in zip(cases, outs):
        res.evaluations += 1
        total += len(ops)
        live = [o for o in ops if o.split()]
        for op, line in zip(live, al):
            w = op.split()
            if w[0] in dist and line != "bad-op":
                dist[w[0]] += 1
                if "-" in op:
                    stats["negative_seconds"] += 1
                if w[0] in ("msec", "msecc"):
                    v = line.split("=")[-1] if w[0] == "msecc" else line.split()[-1]
                    stats["msec_capped"] += v == "86400000"
                    stats["msec_zero"] += v == "0"
                if w[0] == "msec" and len(w) == 5:
                    x, y = p_ts(w[1:3]), p_ts(w[3:5])
                    if x and y and norm(x) and norm(y):
                        r = ns(y) - ns(x)
                        if 0 < r < DAY:
                            stats["msec_rounded_up" if r % M else "msec_exact_ms"] += 1
                    else:
                        stats["non_normalised_operands"] += 1
                if w[0] == "rel":
                    x, y = p_ts(w[1:3]), p_ts(w[3:5])
                    if x and y and norm(x) and norm(y):
                        stats["rel_clamped"] += ns(y) <= ns(x)
                        stats["rel_borrow"] += ns(y) > ns(x) and y[1] < x[1]
                if " read=1 " in line:
                    stats["clock_reads"] += 1
                if " read=0 valid=1" in line and not op.endswith("none"):
                    stats["cached_uses_without_read"] += 1
                if line == "ARM 0 1" and w[1:] == ["0", "0"]:
                    stats["arm_fixups"] += 1
        bad = oracle(ops, al)
        if bad is None and a.returncode != 0:
            bad = (len(al), "crash", f"harness exit {a.returncode} {(common.san_line(a.stderr) or a.stderr.strip()[-200:])}")
        if bad is not None:
            i, short, msg = bad
            cnt, cut = -1, len(ops)
            for j, o in enumerate(ops):
                if o.split():
                    cnt += 1
                    if cnt == i:
                        cut = j + 1
                        break
            upto = ops[:cut]
            small = common.shrink(upto, impl_fails, keep_head=0)
            if not impl_fails(small):
                small = upto
            a2, al2 = run_impl(small)
            bad2 = oracle(small, al2)
            if bad2 is not None:
                short, msg = bad2[1], bad2[2]
            p = common.write_case("C04", name, small, tier, seed, ext="timeops")
            san = common.san_line(a.stderr) or common.san_line(a2.stderr)
            res.impl_violations.append((f"C04:time:{short}", f"the loop's time arithmetic breaks its contract: {msg} {san}".strip(), p))
        else:
            d = next((j for j in range(max(len(al), len(bl))) if j >= len(al) or j >= len(bl) or al[j] != bl[j]), None)
            if d is not None or b.returncode != 0:
                d = d if d is not None else 0
                cnt, cut = -1, len(ops)
                for j, o in enumerate(ops):
                    if o.split():
                        cnt += 1
                        if cnt == d:
                            cut = j + 1
                            break
                p = common.write_case("C04", name, ops[:cut], tier, seed, ext="timeops")
                res.divergences.append((f"model Ivy.L0.TimeArith and the real time arithmetic disagree at line #{d} (op '{op_of_line(ops, d)}'): "
                                        f"impl={al[d] if d < len(al) else '<none>'} model={bl[d] if d < len(bl) else '<none>'}", p))
        if len(res.impl_violations) + len(res.divergences) >= 5:
            break
    ex.shutdown(wait=False, cancel_futures=True)
    res.extra["time_ops_compared"] = total
    res.extra["time_ops_executed_not_refused"] = dist
    res.extra["time_coverage"] = stats
    res.assumptions.append("time arithmetic: model Ivy.L0.TimeArith (timespec_gt, to_relative, to_msec, the clock cache, the expiry test, the timerfd value; "
                           "theorems Ivy.Props.C04time for ALL normalised timespecs, unbounded seconds) tied to iv_private.h / iv_timer.c / iv_fd_epoll.c by a "
                           "differential run of the real functions with iv_time_get and timerfd_settime redirected; operands restricted to |tv_sec| < 2^62 "
                           "(beyond that the C subtraction overflows: undefined behaviour, outside the model); what the kernel does with the timeout "
                           "(poll/epoll_wait/ppoll/epoll_pwait2/timerfd) and the clock source itself (CLOCK_MONOTONIC) are trusted")
    return res


def read_case(path):
    return [l.rstrip("\n") for l in open(path) if l.strip() and not l.startswith("#")]


def replay(path):
    """re-run a .timeops case (or a replay-*.txt written by common.finish for a 'C04:time:' signature)"""
    ops = read_case(path)
    ok, log = build()
    if not ok:
        print(log); return 2
    common.lean_build(["ivyreplay"])
    a, al, b, bl = run_both(ops)
    live = [o for o in ops if o.split()]
    for i, op in enumerate(live):
        x, y = (al[i] if i < len(al) else "<none>"), (bl[i] if i < len(bl) else "<none>")
        print(f"#{i} {op}\n    impl : {x}" + ("" if x == y else f"\n    model: {y}"))
    if a.stderr.strip():
        print("--- implementation stderr:", common.san_line(a.stderr) or a.stderr.strip().splitlines()[-1])
    bad = oracle(ops, al)
    print("--- oracle:", bad[2] if bad else "ok")
    return 1 if (bad or a.returncode != 0 or al != bl) else 0
