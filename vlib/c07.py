"""C07: decided on the L1 machine (theorem Ivy.Props.C07.monitor_accepts) + T-replay correspondence."""
from . import l1, loopgen
PROP = "C07"
LEANCHECK_MODULES = ["Ivy.L1.Machine", "Ivy.L1.Exec", "Ivy.Mon.C07", "Ivy.L1.ProofsC07", "Ivy.Props.C07"]
FAMILIES = ['lifecycle', 'mix', 'deadline']
MONS = ['C07', 'C07spin', 'C07idle', 'C07tmo', 'C04', 'C06']   # 'blocks only when nothing is due' = no oversleep (C04) + no blocking wait with a task pending (C06)
SANS = ['TIMEOUT']      # the library did not return (hang or spin inside a call): 'never hangs or spins'
RULE = ("scenario families ['lifecycle', 'mix'] (see vlib/loopgen.py) rotating over the four poll methods and the fault configurations; every log is "
        "replayed through the Lean machine (every library record must be predicted) and through the Lean monitor(s) ['C07', 'C07spin']; sanitizer "
        "classes counted as violations of this property: []. non-trivial = iv_main returned at least once after objects had been registered and unregistered, or a registration failed; distinct by hash of the log")

KT_RULE = ("; plus the ENUMERATED family 'ktimer' (140 scenarios every run): a far timer pending while a descriptor wakes the loop k = 2..8 times in a "
           "row (below/at/above the threshold at which epoll-timerfd arms its timer descriptor), then a handler adds an earlier or later timer, "
           "unregisters or re-registers the pending one, then more wake-ups; all four methods")


def nontrivial(log):
    return ("MAINRET" in log and "Unregister" in log) or "RET -1" in log


def run(tier, seed, proof):
    return l1.run_property(PROP, tier, seed, proof, FAMILIES, MONS, SANS, nontrivial, RULE + KT_RULE + loopgen.ENUM_RULE,
                           extra_cases=lambda tier, seed: loopgen.ktimer_cases(seed) + loopgen.quit_cases() + loopgen.chain_cases())


def search(tier, seed, proof):
    return l1.search_property(PROP, tier, seed, FAMILIES[:1], MONS, SANS)


replay = l1.replay
