"""Systematic (preemption-bounded) exploration of thread schedules for the T-sched harnesses.

The baton scheduler of harness/mt_h.c normally picks the next thread with a seeded PRNG. With `cfg sched=a.b.c` it follows an explicit
list of choices and afterwards the non-preemptive default (option 0), and with IVY_SCHED_TRACE it records every choice point. `explore`
enumerates, smallest deviation first, every schedule that differs from the default run by at most `bound` preemptions (a preemption =
switching away from a thread that could have continued; choices at blocking points and signal-target choices are free but counted as
deviations for the ordering), up to `budget` schedules. This supports the correspondence (more of the interleaving space is executed on
the real code and replayed through the model); it is not a proof of anything."""
import concurrent.futures, heapq, os, subprocess, tempfile


def with_sched(lines, prefix):
    tok = "sched=" + (".".join(str(c) for c in prefix) if prefix else "-")
    out, done = [], False
    for l in lines:
        if l.startswith("cfg") and not done:
            out.append(" ".join(t for t in l.split() if not t.startswith("sched=")) + " " + tok)
            done = True
        else:
            out.append(l)
    if not done:
        out.insert(0, "cfg " + tok)
    return out


def _run(harness, lines, prefix, scratch, timeout):
    os.makedirs(scratch, exist_ok=True)
    fd, path = tempfile.mkstemp(suffix=".scn", dir=scratch)
    with os.fdopen(fd, "w") as f:
        f.write("\n".join(with_sched(lines, prefix)) + "\n")
    tr = path + ".trace"
    try:
        subprocess.run([harness, path], stdout=subprocess.DEVNULL, stderr=subprocess.DEVNULL, timeout=timeout,
                       env=dict(os.environ, IVY_SCHED_TRACE=tr, ASAN_OPTIONS="detect_stack_use_after_return=1:detect_leaks=0:abort_on_error=0"))
    except subprocess.TimeoutExpired:
        pass
    trace = []
    try:
        for l in open(tr):
            w = l.split()
            if len(w) == 3:
                trace.append((int(w[0]), int(w[1]), w[2]))
    except OSError:
        pass
    for p in (path, tr):
        try:
            os.unlink(p)
        except OSError:
            pass
    return trace


def explore(harness, lines, bound, budget, scratch, timeout=75, workers=None, horizon=400):
    """returns (schedules, stats): schedules = list of choice tuples, each a distinct explored schedule (the default run first)"""
    workers = workers or (os.cpu_count() or 4)
    seen = {()}
    heap = [(0, 0, ())]          # (deviations, length, prefix)
    out = []
    stats = {"runs": 0, "max_choice_points": 0, "truncated": False}
    with concurrent.futures.ThreadPoolExecutor(max_workers=workers) as ex:
        while heap and len(out) < budget:
            batch = []
            while heap and len(batch) < workers and len(out) + len(batch) < budget:
                batch.append(heapq.heappop(heap))
            for (dev, _, prefix), trace in zip(batch, ex.map(lambda b: _run(harness, lines, b[2], scratch, timeout), batch)):
                stats["runs"] += 1
                stats["max_choice_points"] = max(stats["max_choice_points"], len(trace))
                out.append(prefix)
                pre = 0
                for i, (n, c, kind) in enumerate(trace[:horizon]):
                    if i >= len(prefix):
                        for alt in range(n):
                            if alt == c:
                                continue
                            cost = pre + (1 if kind == "p" and alt != 0 else 0)
                            if cost <= bound:
                                child = tuple(t[1] for t in trace[:i]) + (alt,)
                                # strip trailing defaults is unnecessary: child ends with a non-default choice
                                if child not in seen:
                                    seen.add(child)
                                    heapq.heappush(heap, (dev + 1, len(child), child))
                    if kind == "p" and c != 0:
                        pre += 1
        stats["truncated"] = bool(heap)
    return out, stats


STATS = {}      # property -> what was enumerated (merged into the evidence by common.finish)
DISABLED = False    # set by callers that only want a plugin's random families (e.g. C18's hygiene sweep)


def enum_cases(prop, harness, bases, tier, scratch, mk=lambda name, lines, base: (name, lines), want=None, budget=None):
    """bases: list of (name, lines[, more...]); yields cases in the plugin's own tuple shape (built by mk) — one per enumerated schedule.
    quick: every schedule within ONE deviation from the non-preemptive run first, 250 per base; thorough: bound 2, 4000 per base."""
    if DISABLED:
        return
    bound, dflt = (1, 250) if tier == "quick" else (2, 4000)
    budget = budget or dflt
    want = want or (4 if tier == "quick" else 8)
    st = STATS.setdefault(prop, {"bases": 0, "schedules": 0, "preemption_bound": bound, "per_base": {}})
    for base in bases:
        if st["bases"] >= want:
            break
        name, lines = base[0], base[1]
        npts = len(_run(harness, lines, (), scratch, 75))
        if npts < 1 or npts > 300:
            continue        # single-threaded (nothing to enumerate) or too long for a systematic sweep (left to the random schedules)
        scheds, s = explore(harness, lines, bound, budget, scratch)
        if len(scheds) < 2:
            continue
        st["bases"] += 1
        st["schedules"] += len(scheds)
        st["per_base"][name] = {"schedules": len(scheds), "choice_points": s["max_choice_points"], "complete_within_bound": not s["truncated"]}
        for k, pre in enumerate(scheds):
            yield mk(f"enum-{name}-{k}", with_sched(lines, pre), base)
