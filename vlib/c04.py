"""C04: decided on the L1 machine (theorem Ivy.Props.C04.monitor_accepts) + T-replay correspondence."""
from . import l1, loopgen
PROP = "C04"
LEANCHECK_MODULES = ["Ivy.L1.Machine", "Ivy.L1.Exec", "Ivy.Mon.C04", "Ivy.L1.ProofsC04", "Ivy.Props.C04"]
FAMILIES = ['deadline', 'mix']
MONS = ['C04']
SANS = []
RULE = ("scenario families ['deadline', 'mix'] (see vlib/loopgen.py) rotating over the four poll methods and the fault configurations; every log is "
        "replayed through the Lean machine (every library record must be predicted) and through the Lean monitor(s) ['C04']; sanitizer "
        "classes counted as violations of this property: []. non-trivial = at least one timer fired after a wait with a non-zero timeout, or the kernel-timer path engaged; distinct by hash of the log")

KT_RULE = ("; plus the ENUMERATED family 'ktimer' (140 scenarios every run): a far timer pending while a descriptor wakes the loop k = 2..8 times in a "
           "row (below/at/above the threshold at which epoll-timerfd arms its timer descriptor), then a handler adds an earlier or later timer, "
           "unregisters or re-registers the pending one, then more wake-ups; all four methods")


def nontrivial(log):
    return ("CB t" in log and ("ns int" in log or "ms int" in log)) or "KTIMER" in log


def run(tier, seed, proof):
    return l1.run_property(PROP, tier, seed, proof, FAMILIES, MONS, SANS, nontrivial, RULE + KT_RULE,
                           extra_cases=lambda tier, seed: loopgen.ktimer_cases(seed))


def search(tier, seed, proof):
    return l1.search_property(PROP, tier, seed, FAMILIES[:1], MONS, SANS)


replay = l1.replay
