"""C04: decided on the L1 machine (theorem Ivy.Props.C04.monitor_accepts) + T-replay correspondence."""
import os
from . import common, l1, loopgen
PROP = "C04"
LEANCHECK_MODULES = ["Ivy.L1.Machine", "Ivy.L1.Exec", "Ivy.Mon.C04", "Ivy.L1.ProofsC04", "Ivy.Props.C04", "Ivy.L0.TimeArith", "Ivy.L0.TimeArithProofs", "Ivy.Props.C04time"]
FAMILIES = ['deadline', 'mix']
MONS = ['C04']
SANS = []
RULE = ("scenario families ['deadline', 'mix'] (see vlib/loopgen.py) rotating over the four poll methods and the fault configurations; every log is "
        "replayed through the Lean machine (every library record must be predicted) and through the Lean monitor(s) ['C04']; sanitizer "
        "classes counted as violations of this property: []. non-trivial = at least one timer fired after a wait with a non-zero timeout, or the kernel-timer path engaged; distinct by hash of the log")

KT_RULE = ("; plus the ENUMERATED family 'ktimer' (140 scenarios every run): a far timer pending while a descriptor wakes the loop k = 2..8 times in a "
           "row (below/at/above the threshold at which epoll-timerfd arms its timer descriptor), then a handler adds an earlier or later timer, "
           "unregisters or re-registers the pending one, then more wake-ups; all four methods")


def nontrivial(log):
    return ("CB t" in log and ("ns int" in log or "ms int" in log)) or "KTIMER" in log


TIME_RULE = ("; plus a differential run of the loop's time arithmetic (timespec_gt, to_relative, to_msec, the clock cache, the timer "
             "descriptor's arm value; harness/timearith_h.c on the real iv_private.h / iv_timer.c / iv_fd_epoll.c) against the statement-level "
             "model Ivy.L0.TimeArith (theorems Ivy.Props.C04time: never early, at most 1 ms late, cap, agreement of the ms and ns primitives, "
             "no overflow) on enumerated boundary values and random operands, with an independent exact-integer reference")


def run(tier, seed, proof):
    res = l1.run_property(PROP, tier, seed, proof, FAMILIES, MONS, SANS, nontrivial, RULE + KT_RULE + TIME_RULE,
                          extra_cases=lambda tier, seed: loopgen.ktimer_cases(seed))
    if proof["driver_ok"] and os.path.exists(os.path.join(common.VERIF, "vlib", "c04time.py")):
        from . import c04time
        c04time.check(tier, seed, res)
    return res


def search(tier, seed, proof):
    return l1.search_property(PROP, tier, seed, FAMILIES[:1], MONS, SANS)


def replay(path):
    if path.endswith(".timeops") or "C04:time:" in open(path).read():
        from . import c04time
        return c04time.replay(path)
    return l1.replay(path)
